package peer

import (
	"crypto"
	"crypto/ecdsa"
	"crypto/ed25519"
	"crypto/elliptic"
	"crypto/rand"
	"crypto/rsa"
	"crypto/x509"
	"crypto/x509/pkix"
	"encoding/pem"
	"math/big"
	"net"
	"sync"
	"time"

	tls "github.com/refraction-networking/utls"
)

// Fixed logical "now" for every handshake the harness drives (Config.Time).
var Now = time.Date(2030, 1, 2, 3, 4, 5, 0, time.UTC)

func FixedTime() time.Time { return Now }

type CA struct {
	Cert *x509.Certificate
	Key  *ecdsa.PrivateKey
	Pool *x509.CertPool
	DER  []byte
}

var serial struct {
	mu sync.Mutex
	n  int64
}

func nextSerial() *big.Int {
	serial.mu.Lock()
	defer serial.mu.Unlock()
	serial.n++
	return big.NewInt(1000 + serial.n)
}

func NewCA(cn string) *CA {
	key, err := ecdsa.GenerateKey(elliptic.P256(), rand.Reader)
	if err != nil {
		panic(err)
	}
	tmpl := &x509.Certificate{
		SerialNumber:          nextSerial(),
		Subject:               pkix.Name{CommonName: cn, Organization: []string{"verif"}},
		NotBefore:             time.Date(2020, 1, 1, 0, 0, 0, 0, time.UTC),
		NotAfter:              time.Date(2045, 1, 1, 0, 0, 0, 0, time.UTC),
		KeyUsage:              x509.KeyUsageCertSign | x509.KeyUsageDigitalSignature,
		BasicConstraintsValid: true,
		IsCA:                  true,
	}
	der, err := x509.CreateCertificate(rand.Reader, tmpl, tmpl, &key.PublicKey, key)
	if err != nil {
		panic(err)
	}
	c, _ := x509.ParseCertificate(der)
	p := x509.NewCertPool()
	p.AddCert(c)
	return &CA{Cert: c, Key: key, Pool: p, DER: der}
}

func (ca *CA) PEM() []byte {
	return pem.EncodeToMemory(&pem.Block{Type: "CERTIFICATE", Bytes: ca.DER})
}

type LeafOpts struct {
	Kind      string // "rsa", "ecdsa", "ecdsa384", "ed25519"
	Names     []string
	NotBefore time.Time
	NotAfter  time.Time
	Ballast   int // bytes of extra (non-critical) extension data to grow the message
}

var rsaKeyOnce sync.Once
var rsaKey *rsa.PrivateKey

func sharedRSA() *rsa.PrivateKey {
	rsaKeyOnce.Do(func() {
		k, err := rsa.GenerateKey(rand.Reader, 2048)
		if err != nil {
			panic(err)
		}
		rsaKey = k
	})
	return rsaKey
}

func (ca *CA) Leaf(o LeafOpts) tls.Certificate {
	var priv crypto.Signer
	switch o.Kind {
	case "rsa":
		priv = sharedRSA()
	case "ecdsa", "":
		k, _ := ecdsa.GenerateKey(elliptic.P256(), rand.Reader)
		priv = k
	case "ecdsa384":
		k, _ := ecdsa.GenerateKey(elliptic.P384(), rand.Reader)
		priv = k
	case "ed25519":
		_, k, _ := ed25519.GenerateKey(rand.Reader)
		priv = k
	default:
		panic("unknown leaf kind " + o.Kind)
	}
	nb, na := o.NotBefore, o.NotAfter
	if nb.IsZero() {
		nb = time.Date(2021, 1, 1, 0, 0, 0, 0, time.UTC)
	}
	if na.IsZero() {
		na = time.Date(2040, 1, 1, 0, 0, 0, 0, time.UTC)
	}
	tmpl := &x509.Certificate{
		SerialNumber: nextSerial(),
		Subject:      pkix.Name{CommonName: "leaf", Organization: []string{"verif"}},
		NotBefore:    nb,
		NotAfter:     na,
		KeyUsage:     x509.KeyUsageDigitalSignature | x509.KeyUsageKeyEncipherment,
		ExtKeyUsage:  []x509.ExtKeyUsage{x509.ExtKeyUsageServerAuth, x509.ExtKeyUsageClientAuth},
		DNSNames:     dnsOnly(o.Names),
		IPAddresses:  ipsOnly(o.Names),
	}
	if o.Ballast > 0 {
		b := make([]byte, o.Ballast)
		rand.Read(b)
		// compressible ballast: one eighth random, the rest repeated
		for i := len(b) / 8; i < len(b); i++ {
			b[i] = byte(i % 7)
		}
		tmpl.ExtraExtensions = []pkix.Extension{{Id: []int{1, 3, 6, 1, 4, 1, 55555, 1}, Value: b}}
	}
	der, err := x509.CreateCertificate(rand.Reader, tmpl, ca.Cert, priv.Public(), ca.Key)
	if err != nil {
		panic(err)
	}
	leaf, _ := x509.ParseCertificate(der)
	return tls.Certificate{Certificate: [][]byte{der}, PrivateKey: priv, Leaf: leaf}
}

// Fixtures shared by all properties in a process.
type Fixtures struct {
	CA      *CA
	OtherCA *CA
	RSA     tls.Certificate
	ECDSA   tls.Certificate
	Ed25519 tls.Certificate
}

var fixOnce sync.Once
var fix *Fixtures

// DefaultNames are the DNS names every default leaf carries.
var DefaultNames = []string{"example.test", "*.example.test", "public.example.test", "a.test", "verif.test"}

func Fix() *Fixtures {
	fixOnce.Do(func() {
		f := &Fixtures{}
		f.CA = NewCA("verif root")
		f.OtherCA = NewCA("verif other root")
		f.RSA = f.CA.Leaf(LeafOpts{Kind: "rsa", Names: DefaultNames})
		f.ECDSA = f.CA.Leaf(LeafOpts{Kind: "ecdsa", Names: DefaultNames})
		f.Ed25519 = f.CA.Leaf(LeafOpts{Kind: "ed25519", Names: DefaultNames})
		fix = f
	})
	return fix
}

func dnsOnly(names []string) []string {
	var out []string
	for _, n := range names {
		if net.ParseIP(n) == nil {
			out = append(out, n)
		}
	}
	return out
}

func ipsOnly(names []string) []net.IP {
	var out []net.IP
	for _, n := range names {
		if ip := net.ParseIP(n); ip != nil {
			out = append(out, ip)
		}
	}
	return out
}
