// Package peer provides the harness-owned transport (a tapped, buffered in-memory
// duplex net.Conn with real deadlines and fault injection), certificate fixtures and
// server fixtures.
package peer

import (
	"io"
	"net"
	"os"
	"sync"
	"sync/atomic"
	"time"
)

// Event is one tap observation.
type Event struct {
	Seq  int64  `json:"seq"`
	Dir  string `json:"dir"` // "c2s" or "s2c"
	Op   string `json:"op"`  // write, close, read-eof, ...
	Len  int    `json:"len"`
	Note string `json:"note,omitempty"`
}

// Tap records everything that crosses a Pipe and can act on it.
type Tap struct {
	mu     sync.Mutex
	seq    int64
	C2S    []byte // all bytes the client end wrote (after Mutate)
	S2C    []byte
	Events []Event

	// Mutate, if set, may rewrite a chunk before it is delivered (called under the
	// tap mutex with the direction and the stream offset of the chunk).
	Mutate func(dir string, off int, p []byte) []byte
	// Before, if set, is called (without locks) before every Read/Write; it may
	// sleep to widen interleavings.
	Before func(dir string, op string)
	// BeforeWrite, if set, is called (without locks) with the bytes of every Write before
	// they are delivered; it may sleep (hold a record back).
	BeforeWrite func(dir string, p []byte)
	// WriteErr, if set, may return an error instead of performing a write.
	WriteErr func(dir string, off int, n int) error
}

func (t *Tap) add(dir, op string, n int, note string) {
	t.seq++
	if len(t.Events) < 20000 {
		t.Events = append(t.Events, Event{t.seq, dir, op, n, note})
	}
}

// Snapshot returns copies of both streams.
func (t *Tap) Snapshot() (c2s, s2c []byte) {
	t.mu.Lock()
	defer t.mu.Unlock()
	return append([]byte(nil), t.C2S...), append([]byte(nil), t.S2C...)
}

func (t *Tap) EventsCopy() []Event {
	t.mu.Lock()
	defer t.mu.Unlock()
	return append([]Event(nil), t.Events...)
}

type half struct {
	mu      sync.Mutex
	cond    *sync.Cond
	buf     []byte
	wclosed bool // writer closed: reader gets EOF after draining
	rclosed bool // reader closed: writer gets ErrClosedPipe
	// short-read control
	maxRead int
}

func newHalf() *half {
	h := &half{}
	h.cond = sync.NewCond(&h.mu)
	return h
}

type deadline struct {
	mu sync.Mutex
	t  time.Time
	tm *time.Timer
}

func (d *deadline) set(t time.Time, wake func()) {
	d.mu.Lock()
	defer d.mu.Unlock()
	if d.tm != nil {
		d.tm.Stop()
		d.tm = nil
	}
	d.t = t
	if !t.IsZero() {
		dur := time.Until(t)
		if dur <= 0 {
			go wake()
		} else {
			d.tm = time.AfterFunc(dur, wake)
		}
	}
}

func (d *deadline) expired() bool {
	d.mu.Lock()
	defer d.mu.Unlock()
	return !d.t.IsZero() && !time.Now().Before(d.t)
}

// Conn is one end of a Pipe.
type Conn struct {
	dir    string // direction of this end's writes
	rdir   string
	in     *half
	out    *half
	tap    *Tap
	rd, wd deadline
	closed atomic.Bool
	// waiting is true while a Read of this end is parked with nothing to deliver.
	waiting atomic.Bool
	Reads   atomic.Int64
	Writes  atomic.Int64
	// EOFWithData: a Read that hands over the last buffered bytes of a closed stream
	// returns them together with io.EOF (instead of EOF on the next call)
	EOFWithData atomic.Bool
	local   addr
	remote  addr
}

type addr string

func (a addr) Network() string { return "verifpipe" }
func (a addr) String() string  { return string(a) }

// Pipe returns (clientEnd, serverEnd, tap).
func Pipe() (*Conn, *Conn, *Tap) {
	t := &Tap{}
	a, b := newHalf(), newHalf()
	c := &Conn{dir: "c2s", rdir: "s2c", in: b, out: a, tap: t, local: "client", remote: "server"}
	s := &Conn{dir: "s2c", rdir: "c2s", in: a, out: b, tap: t, local: "server", remote: "client"}
	return c, s, t
}

// SetMaxRead makes Reads on this end return at most n bytes (0 = unlimited).
func (c *Conn) SetMaxRead(n int) {
	c.in.mu.Lock()
	c.in.maxRead = n
	c.in.mu.Unlock()
}

func (c *Conn) Read(p []byte) (int, error) {
	if f := c.tap.Before; f != nil {
		f(c.rdir, "read")
	}
	c.Reads.Add(1)
	h := c.in
	h.mu.Lock()
	defer h.mu.Unlock()
	for {
		if c.closed.Load() || h.rclosed {
			return 0, net.ErrClosed
		}
		if len(h.buf) > 0 {
			n := len(p)
			if h.maxRead > 0 && n > h.maxRead {
				n = h.maxRead
			}
			n = copy(p[:n], h.buf)
			h.buf = h.buf[n:]
			if c.EOFWithData.Load() && h.wclosed && len(h.buf) == 0 {
				// io.Reader allows it, and buffered / tunnelled transports do it: the last
				// bytes and the end of the stream arrive in one call
				return n, io.EOF
			}
			return n, nil
		}
		if h.wclosed {
			return 0, io.EOF
		}
		if c.rd.expired() {
			return 0, os.ErrDeadlineExceeded
		}
		if len(p) == 0 {
			return 0, nil
		}
		c.waiting.Store(true)
		h.cond.Wait()
		c.waiting.Store(false)
	}
}

func (c *Conn) Write(p []byte) (int, error) {
	if f := c.tap.Before; f != nil {
		f(c.dir, "write")
	}
	if f := c.tap.BeforeWrite; f != nil {
		f(c.dir, p)
	}
	c.Writes.Add(1)
	if c.closed.Load() {
		return 0, net.ErrClosed
	}
	if c.wd.expired() {
		return 0, os.ErrDeadlineExceeded
	}
	t := c.tap
	t.mu.Lock()
	var off int
	if c.dir == "c2s" {
		off = len(t.C2S)
	} else {
		off = len(t.S2C)
	}
	if t.WriteErr != nil {
		if err := t.WriteErr(c.dir, off, len(p)); err != nil {
			t.add(c.dir, "write-error", len(p), err.Error())
			t.mu.Unlock()
			return 0, err
		}
	}
	q := p
	if t.Mutate != nil {
		q = t.Mutate(c.dir, off, append([]byte(nil), p...))
	}
	if c.dir == "c2s" {
		t.C2S = append(t.C2S, q...)
	} else {
		t.S2C = append(t.S2C, q...)
	}
	t.add(c.dir, "write", len(q), "")
	t.mu.Unlock()

	h := c.out
	h.mu.Lock()
	if h.rclosed {
		h.mu.Unlock()
		return 0, io.ErrClosedPipe
	}
	h.buf = append(h.buf, q...)
	h.cond.Broadcast()
	h.mu.Unlock()
	return len(p), nil
}

func (c *Conn) Close() error {
	if c.closed.Swap(true) {
		return nil
	}
	c.tap.mu.Lock()
	c.tap.add(c.dir, "close", 0, "")
	c.tap.mu.Unlock()
	c.out.mu.Lock()
	c.out.wclosed = true
	c.out.cond.Broadcast()
	c.out.mu.Unlock()
	c.in.mu.Lock()
	c.in.rclosed = true
	c.in.cond.Broadcast()
	c.in.mu.Unlock()
	c.rd.set(time.Time{}, nil)
	c.wd.set(time.Time{}, nil)
	return nil
}

// CloseWrite half-closes (used by tls CloseWrite via the underlying conn if needed).
func (c *Conn) CloseWrite() error {
	c.out.mu.Lock()
	c.out.wclosed = true
	c.out.cond.Broadcast()
	c.out.mu.Unlock()
	return nil
}

func (c *Conn) IsClosed() bool { return c.closed.Load() }

// Blocked reports whether a Read on this end is parked with nothing to deliver: the
// check is made under the buffer's lock, so data written by the peer but not yet consumed
// counts as "not blocked".
func (c *Conn) Blocked() bool {
	h := c.in
	h.mu.Lock()
	defer h.mu.Unlock()
	return c.waiting.Load() && len(h.buf) == 0 && !h.wclosed && !c.closed.Load()
}

// Quiescent reports whether both ends are parked in Read with nothing in flight: when
// only the two endpoints' own goroutines write, neither side can ever make progress
// again (a protocol deadlock), whatever the machine load.
func Quiescent(a, b *Conn) bool {
	return a.Blocked() && b.Blocked() && a.Blocked() && b.Blocked()
}

func (c *Conn) LocalAddr() net.Addr  { return c.local }
func (c *Conn) RemoteAddr() net.Addr { return c.remote }

func (c *Conn) SetDeadline(t time.Time) error {
	c.SetReadDeadline(t)
	c.SetWriteDeadline(t)
	return nil
}

func (c *Conn) SetReadDeadline(t time.Time) error {
	c.rd.set(t, func() {
		c.in.mu.Lock()
		c.in.cond.Broadcast()
		c.in.mu.Unlock()
	})
	return nil
}

func (c *Conn) SetWriteDeadline(t time.Time) error {
	c.wd.set(t, func() {})
	return nil
}

// Inject appends raw bytes to what this end will read (as if the peer wrote them).
func (c *Conn) Inject(p []byte) {
	h := c.in
	h.mu.Lock()
	h.buf = append(h.buf, p...)
	h.cond.Broadcast()
	h.mu.Unlock()
}

var _ net.Conn = (*Conn)(nil)
