package peer

import (
	"bytes"
	"crypto/x509"
	"encoding/pem"
	"fmt"
	"io"
	"net"
	"os"
	"os/exec"
	"path/filepath"
	"sync"
	"sync/atomic"
	"time"

	tls "github.com/refraction-networking/utls"
)

// An optional, independent TLS peer: OpenSSL's s_server (if an `openssl` binary is on
// PATH).  It shares no code with Go's crypto/tls, so it is the "standards-compliant
// server" of the statements in the strictest sense available offline.  Nothing in the
// quick tier depends on it; its absence is recorded in the evidence, never a failure.

var opensslPath = func() string {
	p, err := exec.LookPath("openssl")
	if err != nil {
		return ""
	}
	return p
}()

func OpenSSLAvailable() bool { return opensslPath != "" }

func OpenSSLVersion() string {
	if opensslPath == "" {
		return ""
	}
	out, _ := exec.Command(opensslPath, "version").Output()
	return string(out)
}

var (
	osslMu   sync.Mutex
	osslDir  string
	osslPort atomic.Int32
)

func pemOf(c tls.Certificate) (cert, key []byte, err error) {
	for _, der := range c.Certificate {
		cert = append(cert, pem.EncodeToMemory(&pem.Block{Type: "CERTIFICATE", Bytes: der})...)
	}
	kb, err := x509.MarshalPKCS8PrivateKey(c.PrivateKey)
	if err != nil {
		return nil, nil, err
	}
	key = pem.EncodeToMemory(&pem.Block{Type: "PRIVATE KEY", Bytes: kb})
	return cert, key, nil
}

// opensslFiles writes the fixture certificates (once; again after a cleanup).
func opensslFiles() string {
	osslMu.Lock()
	defer osslMu.Unlock()
	if osslDir != "" {
		return osslDir
	}
	d, err := os.MkdirTemp("", "verif-openssl-")
	if err != nil {
		return ""
	}
	f := Fix()
	for name, c := range map[string]tls.Certificate{"rsa": f.RSA, "ecdsa": f.ECDSA, "ed25519": f.Ed25519} {
		cert, key, err := pemOf(c)
		if err != nil {
			return ""
		}
		os.WriteFile(filepath.Join(d, name+".crt"), cert, 0o600)
		os.WriteFile(filepath.Join(d, name+".key"), key, 0o600)
	}
	osslDir = d
	if osslPort.Load() == 0 {
		osslPort.Store(int32(21000 + os.Getpid()%2000*4))
	}
	return osslDir
}

// OpenSSLCleanup removes the temporary certificate directory.
func OpenSSLCleanup() {
	osslMu.Lock()
	defer osslMu.Unlock()
	if osslDir != "" {
		os.RemoveAll(osslDir)
		osslDir = ""
	}
}

type OpenSSLServer struct {
	cmd  *exec.Cmd
	Addr string
	Log  string
	// Stdin is set by StartOpenSSLInteractive: lines typed to s_server ("R" renegotiates,
	// anything else is sent as application data)
	Stdin io.WriteCloser
}

// StartOpenSSL starts `openssl s_server -rev` (an echo server that answers each line
// reversed) with the given leaf kind ("rsa", "ecdsa", "ed25519") and extra arguments, on
// a free loopback port, and waits until it accepts connections.
func StartOpenSSL(leaf string, extra ...string) (*OpenSSLServer, error) {
	return startOpenSSL(false, leaf, extra...)
}

// StartOpenSSLInteractive starts s_server without -rev and with a pipe on its standard input:
// a line "R" makes it renegotiate (TLS <= 1.2), other lines are sent to the client.
func StartOpenSSLInteractive(leaf string, extra ...string) (*OpenSSLServer, error) {
	return startOpenSSL(true, leaf, extra...)
}

func startOpenSSL(interactive bool, leaf string, extra ...string) (*OpenSSLServer, error) {
	if opensslPath == "" {
		return nil, fmt.Errorf("no openssl")
	}
	d := opensslFiles()
	if d == "" {
		return nil, fmt.Errorf("cannot write certificate files")
	}
	for attempt := 0; attempt < 20; attempt++ {
		port := int(osslPort.Add(1))
		if port > 60000 {
			osslPort.Store(21000)
			continue
		}
		// is the port free?
		l, err := net.Listen("tcp", fmt.Sprintf("127.0.0.1:%d", port))
		if err != nil {
			continue
		}
		l.Close()
		logf := filepath.Join(d, fmt.Sprintf("s_server-%d.log", port))
		lf, _ := os.Create(logf)
		args := []string{"s_server", "-accept", fmt.Sprintf("127.0.0.1:%d", port), "-cert", filepath.Join(d, leaf+".crt"), "-key", filepath.Join(d, leaf+".key"), "-naccept", "1"}
		if !interactive {
			args = append(args, "-rev")
		}
		args = append(args, extra...)
		cmd := exec.Command(opensslPath, args...)
		cmd.Stdout, cmd.Stderr = lf, lf
		var stdin io.WriteCloser
		if interactive {
			stdin, _ = cmd.StdinPipe()
		}
		if err := cmd.Start(); err != nil {
			lf.Close()
			return nil, err
		}
		lf.Close()
		s := &OpenSSLServer{cmd: cmd, Addr: fmt.Sprintf("127.0.0.1:%d", port), Log: logf, Stdin: stdin}
		// s_server prints (and flushes) "ACCEPT" once it listens.  Readiness is read from its
		// log rather than probed on the port: a probing bind can collide with s_server's own.
		ok := false
		for i := 0; i < 1000; i++ {
			if b, err := os.ReadFile(logf); err == nil && bytes.Contains(b, []byte("ACCEPT")) {
				ok = true
				break
			}
			time.Sleep(3 * time.Millisecond)
		}
		if !ok {
			s.Stop()
			continue
		}
		return s, nil
	}
	return nil, fmt.Errorf("could not start s_server")
}

func (s *OpenSSLServer) Stop() string {
	if s.Stdin != nil {
		s.Stdin.Close()
	}
	if s.cmd != nil && s.cmd.Process != nil {
		s.cmd.Process.Kill()
		s.cmd.Wait()
	}
	b, _ := os.ReadFile(s.Log)
	os.Remove(s.Log)
	if len(b) > 2000 {
		b = b[len(b)-2000:]
	}
	return string(b)
}

// RecConn records both directions of a real net.Conn.
type RecConn struct {
	net.Conn
	mu       sync.Mutex
	C2S, S2C []byte
}

func (r *RecConn) Read(p []byte) (int, error) {
	n, err := r.Conn.Read(p)
	r.mu.Lock()
	r.S2C = append(r.S2C, p[:n]...)
	r.mu.Unlock()
	return n, err
}

func (r *RecConn) Write(p []byte) (int, error) {
	n, err := r.Conn.Write(p)
	r.mu.Lock()
	r.C2S = append(r.C2S, p[:n]...)
	r.mu.Unlock()
	return n, err
}

func (r *RecConn) Snapshot() (c2s, s2c []byte) {
	r.mu.Lock()
	defer r.mu.Unlock()
	return append([]byte(nil), r.C2S...), append([]byte(nil), r.S2C...)
}
