package peer

import (
	"bytes"
	"crypto/rand"
	"errors"
	"fmt"
	"io"
	"net"
	"os"
	"runtime/debug"
	"sync/atomic"
	"time"

	tls "github.com/refraction-networking/utls"
)

// IODeadline is the I/O deadline set on every harness connection.
// It is a watchdog only: a protocol deadlock (both sides waiting for each other) is
// detected logically by Run (HS.Stalled), so an expiry means the machine was too slow and
// is never evidence against the code under test (HS.TimedOut; monitors report it as
// inconclusive).
const IODeadline = 60 * time.Second

// ClientConfig returns a fresh default client Config (fixed logical time, harness CA).
func ClientConfig(serverName string) *tls.Config {
	return &tls.Config{
		ServerName: serverName,
		RootCAs:    Fix().CA.Pool,
		Time:       FixedTime,
	}
}

// ServerConfig returns a fresh default server Config with all three leaf kinds.
func ServerConfig() *tls.Config {
	f := Fix()
	return &tls.Config{
		Certificates: []tls.Certificate{f.ECDSA, f.RSA, f.Ed25519},
		Time:         FixedTime,
		MinVersion:   tls.VersionTLS10,
	}
}

// HS is the outcome of one driven handshake (+ optional data echo).
type HS struct {
	Client      *tls.UConn
	Server      *tls.Conn
	Tap         *Tap
	CEnd, SEnd  *Conn
	ClientErr   error
	ServerErr   error
	ClientPanic string
	ServerPanic string
	C2S, S2C    []byte
	CState      tls.ConnectionState
	SState      tls.ConnectionState
	EchoErr     error // non-nil if the data round trip failed
	EchoDone    bool
	ServerHello *tls.ClientHelloInfo // first GetConfigForClient view
	// Stalled: during the handshake both ends were parked in Read with nothing in flight
	// (protocol deadlock); Run then closed both transports.
	Stalled bool
	// TimedOut: a side returned a deadline error (the watchdog expired).
	TimedOut bool
	// Note: free text added by the caller (shown by ErrString).
	Note string
}

type Opts struct {
	// Prepare runs after UClient and before Handshake (apply presets, edits...).
	Prepare func(u *tls.UConn) error
	// NoEcho skips the application data round trip.
	NoEcho bool
	// EchoSizes: client->server then server->client sizes; default {17, 1000}
	EchoC2S, EchoS2C int
	// KeepOpen leaves the connections open (caller closes).
	KeepOpen bool
	// AfterPipe lets the caller configure the tap/ends before anything runs.
	AfterPipe func(c, s *Conn, t *Tap)
	// WrapServer lets the caller replace the net.Conn given to the server.
	ServerConn func(s net.Conn) net.Conn
	// ServerSetup runs on the server *tls.Conn before its handshake (attach hooks).
	ServerSetup func(s *tls.Conn, raw net.Conn)
	// PostHandshake runs after both handshakes succeeded, before echo.
	PostHandshake func(h *HS)
	// Deadline overrides IODeadline for this run (0 = IODeadline).
	Deadline time.Duration
	// NoStallDetection disables the protocol-deadlock detector (for callers that drive
	// additional writers during the handshake).
	NoStallDetection bool
}

func safely(f func() error) (err error, panicked string) {
	defer func() {
		if r := recover(); r != nil {
			panicked = fmt.Sprintf("%v\n%s", r, debug.Stack())
			err = fmt.Errorf("panic: %v", r)
		}
	}()
	return f(), ""
}

// Run drives client (built by UClient(conn, ccfg, id)) against tls.Server(scfg).
func Run(ccfg *tls.Config, id tls.ClientHelloID, scfg *tls.Config, o Opts) *HS {
	c, s, tap := Pipe()
	h := &HS{Tap: tap, CEnd: c, SEnd: s}
	if o.AfterPipe != nil {
		o.AfterPipe(c, s, tap)
	}
	dl := time.Now().Add(IODeadline)
	if o.Deadline > 0 {
		dl = time.Now().Add(o.Deadline)
	}
	c.SetDeadline(dl)
	s.SetDeadline(dl)
	var sconn net.Conn = s
	if o.ServerConn != nil {
		sconn = o.ServerConn(s)
	}
	h.Server = tls.Server(sconn, scfg)
	if o.ServerSetup != nil {
		o.ServerSetup(h.Server, sconn)
	}
	h.Client = tls.UClient(c, ccfg, id)
	if o.Prepare != nil {
		err, p := safely(func() error { return o.Prepare(h.Client) })
		if err != nil {
			h.ClientErr = fmt.Errorf("prepare: %w", err)
			h.ClientPanic = p
			c.Close()
			s.Close()
			return h
		}
	}
	sdone := make(chan struct{})
	hsOver := make(chan struct{})
	mdone := make(chan struct{})
	var stalled atomic.Bool
	if o.NoStallDetection {
		close(mdone)
	} else {
		go func() {
			defer close(mdone)
			tk := time.NewTicker(3 * time.Millisecond)
			defer tk.Stop()
			n := 0
			for {
				select {
				case <-hsOver:
					return
				case <-tk.C:
					if Quiescent(c, s) {
						if n++; n >= 5 {
							stalled.Store(true)
							c.Close()
							s.Close()
							return
						}
					} else {
						n = 0
					}
				}
			}
		}()
	}
	go func() {
		defer close(sdone)
		h.ServerErr, h.ServerPanic = safely(h.Server.Handshake)
		if h.ServerErr != nil {
			// make sure the client is not left waiting for the deadline
			s.Close()
		}
	}()
	h.ClientErr, h.ClientPanic = safely(h.Client.Handshake)
	if h.ClientErr != nil {
		c.Close()
	}
	<-sdone
	close(hsOver)
	<-mdone
	h.Stalled = stalled.Load()
	h.TimedOut = isTimeout(h.ClientErr) || isTimeout(h.ServerErr)
	if h.ClientErr == nil && h.ServerErr == nil {
		h.CState = h.Client.ConnectionState()
		h.SState = h.Server.ConnectionState()
		if o.PostHandshake != nil {
			o.PostHandshake(h)
		}
		if !o.NoEcho {
			h.EchoErr = Echo(h.Client, h.Server, orDefault(o.EchoC2S, 17), orDefault(o.EchoS2C, 1000))
			h.EchoDone = true
			h.TimedOut = h.TimedOut || isTimeout(h.EchoErr)
		}
	}
	h.C2S, h.S2C = tap.Snapshot()
	if !o.KeepOpen {
		h.Client.Close()
		h.Server.Close()
		c.Close()
		s.Close()
	}
	return h
}

func isTimeout(err error) bool {
	if err == nil {
		return false
	}
	if errors.Is(err, os.ErrDeadlineExceeded) {
		return true
	}
	var ne net.Error
	return errors.As(err, &ne) && ne.Timeout()
}

func orDefault(v, d int) int {
	if v == 0 {
		return d
	}
	return v
}

type rw interface {
	io.Reader
	io.Writer
}

// Echo sends n1 random bytes a->b and n2 random bytes b->a and checks both arrive intact.
func Echo(a, b rw, n1, n2 int) error {
	if err := oneWay(a, b, n1, "c2s"); err != nil {
		return err
	}
	return oneWay(b, a, n2, "s2c")
}

func oneWay(w io.Writer, r io.Reader, n int, what string) error {
	msg := make([]byte, n)
	rand.Read(msg)
	werr := make(chan error, 1)
	go func() {
		n, err := w.Write(msg)
		if err == nil && n != len(msg) {
			err = fmt.Errorf("Write returned (%d, nil) for %d bytes: a short write without an error", n, len(msg))
		}
		werr <- err
	}()
	got := make([]byte, n)
	_, rerr := io.ReadFull(r, got)
	if err := <-werr; err != nil {
		return fmt.Errorf("%s write: %w", what, err)
	}
	if rerr != nil {
		return fmt.Errorf("%s read: %w", what, rerr)
	}
	if !bytes.Equal(got, msg) {
		return errors.New(what + ": data corrupted")
	}
	return nil
}

// OK reports whether both sides completed and the echo (if done) succeeded.
func (h *HS) OK() bool {
	return h.ClientErr == nil && h.ServerErr == nil && (!h.EchoDone || h.EchoErr == nil)
}

func (h *HS) ErrString() string {
	extra := ""
	if h.Stalled {
		extra += " [protocol deadlock: both sides were waiting for each other]"
	}
	if h.TimedOut {
		extra += " [harness watchdog expired]"
	}
	if h.Note != "" {
		extra += " [" + h.Note + "]"
	}
	return fmt.Sprintf("client=%v server=%v echo=%v%s", h.ClientErr, h.ServerErr, h.EchoErr, extra)
}

// ChunkedRand is a source of real randomness that delivers at most n bytes per Read call
// (legal for an io.Reader): code that forgets io.ReadFull gets short reads from it.
type ChunkedRand struct{ N int }

func (c ChunkedRand) Read(p []byte) (int, error) {
	n := c.N
	if n < 1 {
		n = 1
	}
	if len(p) < n {
		n = len(p)
	}
	return rand.Read(p[:n])
}
