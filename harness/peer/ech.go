package peer

import (
	"crypto/ecdh"
	"crypto/rand"

	tls "github.com/refraction-networking/utls"
)

// ECHKey is one server-side ECH key with its marshalled ECHConfig (draft-ietf-tls-esni-17).
type ECHKey struct {
	ConfigID   uint8
	PublicName string
	Config     []byte // ECHConfig (with version + length)
	Priv       *ecdh.PrivateKey
	AEADs      []uint16
	MaxNameLen uint8
}

func be16(v uint16) []byte { return []byte{byte(v >> 8), byte(v)} }

// NewECHKey builds an ECHConfig: X25519 KEM (0x0020), HKDF-SHA256, the given AEAD ids.
func NewECHKey(configID uint8, publicName string, aeads []uint16, maxNameLen uint8) *ECHKey {
	priv, err := ecdh.X25519().GenerateKey(rand.Reader)
	if err != nil {
		panic(err)
	}
	pub := priv.PublicKey().Bytes()
	var contents []byte
	contents = append(contents, configID)
	contents = append(contents, be16(0x0020)...)
	contents = append(contents, be16(uint16(len(pub)))...)
	contents = append(contents, pub...)
	var suites []byte
	for _, a := range aeads {
		kdf := uint16(0x0001)
		if a>>8 != 0 {
			// (kdf<<8 | aead): a suite with another KDF (HKDF-SHA384 = 2, HKDF-SHA512 = 3),
			// which the client does not implement and has to pass over
			kdf, a = a>>8, a&0xff
		}
		suites = append(suites, be16(kdf)...)
		suites = append(suites, be16(a)...)
	}
	contents = append(contents, be16(uint16(len(suites)))...)
	contents = append(contents, suites...)
	contents = append(contents, maxNameLen)
	contents = append(contents, byte(len(publicName)))
	contents = append(contents, publicName...)
	contents = append(contents, 0, 0) // no extensions
	cfg := append(be16(0xfe0d), be16(uint16(len(contents)))...)
	cfg = append(cfg, contents...)
	return &ECHKey{ConfigID: configID, PublicName: publicName, Config: cfg, Priv: priv, AEADs: aeads, MaxNameLen: maxNameLen}
}

// ConfigList serialises ECHConfigs into an ECHConfigList.
func ECHConfigList(keys ...*ECHKey) []byte {
	var body []byte
	for _, k := range keys {
		body = append(body, k.Config...)
	}
	return append(be16(uint16(len(body))), body...)
}

// ServerKeys turns keys into the server Config field.
func ECHServerKeys(sendAsRetry bool, keys ...*ECHKey) []tls.EncryptedClientHelloKey {
	var out []tls.EncryptedClientHelloKey
	for _, k := range keys {
		out = append(out, tls.EncryptedClientHelloKey{Config: k.Config, PrivateKey: k.Priv.Bytes(), SendAsRetry: sendAsRetry})
	}
	return out
}

// ECHUnknownVersionEntry is a list entry of a version no client knows (to be skipped).
func ECHUnknownVersionEntry(n int) []byte {
	body := make([]byte, n)
	for i := range body {
		body[i] = byte(0xA0 + i%7)
	}
	return append(append(be16(0xfe0a), be16(uint16(n))...), body...)
}

// ECHConfigListRaw serialises already encoded entries into an ECHConfigList.
func ECHConfigListRaw(entries ...[]byte) []byte {
	var body []byte
	for _, e := range entries {
		body = append(body, e...)
	}
	return append(be16(uint16(len(body))), body...)
}

// ECHUnusableConfig is a well-formed 0xfe0d ECHConfig a client has to skip (RFC 9849,
// Section 4.1 / 6.1): kind 0 = a KEM the client does not implement, 1 = a mandatory
// (high bit set) extension it does not know, 2 = no cipher suite it supports.  It names
// its own public name, so that a client wrongly using it is visible in the outer SNI.
func ECHUnusableConfig(kind int, configID uint8, publicName string) []byte {
	kem, pub := uint16(0x0020), make([]byte, 32)
	rand.Read(pub)
	suites := append(be16(0x0001), be16(0x0001)...)
	var exts []byte
	switch kind % 3 {
	case 0:
		kem, pub = 0x0010, make([]byte, 65) // DHKEM(P-256): not implemented by the client
		rand.Read(pub)
		pub[0] = 4
	case 1:
		exts = append(append(be16(0xffce), be16(2)...), 0x01, 0x02)
	case 2:
		suites = append(be16(0x0003), be16(0x7f01)...) // HKDF-SHA512 with an unknown AEAD
	}
	var contents []byte
	contents = append(contents, configID)
	contents = append(contents, be16(kem)...)
	contents = append(contents, be16(uint16(len(pub)))...)
	contents = append(contents, pub...)
	contents = append(contents, be16(uint16(len(suites)))...)
	contents = append(contents, suites...)
	contents = append(contents, 64)
	contents = append(contents, byte(len(publicName)))
	contents = append(contents, publicName...)
	contents = append(contents, be16(uint16(len(exts)))...)
	contents = append(contents, exts...)
	return append(append(be16(0xfe0d), be16(uint16(len(contents)))...), contents...)
}
