package mon
