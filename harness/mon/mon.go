// Package mon holds the result/evidence recorder shared by every property monitor.
//
// A monitor calls Case() for every execution it evaluated (with a signature string that
// identifies the *kind* of case, and whether it was non-trivial by the property's
// rule), Violation() for every refuting observation, Count() for event counters and
// Finish() at the end.  Finish writes one JSON document to $VERIF_OUT, which the
// driver (/verif/bin/check) turns into the evidence file and the verdict.
package mon

import (
	"runtime"
	"crypto/sha256"
	"encoding/hex"
	"encoding/json"
	"fmt"
	"os"
	"sort"
	"strconv"
	"strings"
	"sync"
	"testing"
	"time"
)

type Violation struct {
	Sig    map[string]string `json:"sig"`  // identifies the failing input / call site / history
	What   string            `json:"what"` // human readable
	Replay any               `json:"replay,omitempty"`
}

type Result struct {
	Property     string           `json:"property"`
	Tier         string           `json:"tier"`
	Seed         int64            `json:"seed"`
	Evaluations  int64            `json:"evaluations"`
	Distinct     int              `json:"distinct_nontrivial"`
	Rule         string           `json:"rule"`
	Samples      []any            `json:"samples"`
	Counters     map[string]int64 `json:"counters"`
	Violations   []Violation      `json:"violations"`
	Inconclusive []string         `json:"inconclusive"`
	Assumptions  []string         `json:"assumptions"`
	Exhaustive   bool             `json:"exhaustive"`
	WallS        float64          `json:"wall_s"`
	Notes        []string         `json:"notes,omitempty"`
}

type Run struct {
	mu       sync.Mutex
	res      Result
	sigs     map[string]struct{}
	vsigs    map[string]int
	start    time.Time
	maxSamp  int
	only     string
	finished bool
}

func Tier() string {
	if t := os.Getenv("VERIF_TIER"); t == "thorough" {
		return "thorough"
	}
	return "quick"
}

func Thorough() bool { return Tier() == "thorough" }

func Seed() int64 {
	if s := os.Getenv("VERIF_SEED"); s != "" {
		if v, err := strconv.ParseInt(s, 10, 64); err == nil {
			return v
		}
	}
	return 1
}

// Pick returns q in the quick tier and t in the thorough tier.
func Pick(q, t int) int {
	if Thorough() {
		return t
	}
	return q
}

func New(property, rule string) *Run {
	r := &Run{sigs: map[string]struct{}{}, vsigs: map[string]int{}, start: time.Now(), maxSamp: 8, only: os.Getenv("VERIF_ONLY")}
	r.res.Property = property
	r.res.Tier = Tier()
	r.res.Seed = Seed()
	r.res.Rule = rule
	r.res.Counters = map[string]int64{}
	r.res.Samples = []any{}
	r.res.Violations = []Violation{}
	r.res.Inconclusive = []string{}
	r.res.Assumptions = []string{}
	return r
}

// Only reports whether a case with this id should run (replay filter).
func (r *Run) Only(caseID string) bool { return r.only == "" || r.only == caseID }

// Case records one evaluated execution.  sig identifies the distinct *kind* of case.
func (r *Run) Case(sig string, nontrivial bool) {
	r.mu.Lock()
	r.res.Evaluations++
	if nontrivial {
		h := sha256.Sum256([]byte(sig))
		r.sigs[string(h[:8])] = struct{}{}
	}
	r.mu.Unlock()
}

func (r *Run) Count(name string, n int64) {
	r.mu.Lock()
	r.res.Counters[name] += n
	r.mu.Unlock()
}

func (r *Run) Counter(name string) int64 {
	r.mu.Lock()
	defer r.mu.Unlock()
	return r.res.Counters[name]
}

// Max keeps the maximum of a counter.
func (r *Run) Max(name string, v int64) {
	r.mu.Lock()
	if v > r.res.Counters[name] {
		r.res.Counters[name] = v
	}
	r.mu.Unlock()
}

func (r *Run) Sample(v any) {
	r.mu.Lock()
	if len(r.res.Samples) < r.maxSamp {
		r.res.Samples = append(r.res.Samples, v)
	}
	r.mu.Unlock()
}

func (r *Run) Assume(s string) {
	r.mu.Lock()
	r.res.Assumptions = append(r.res.Assumptions, s)
	r.mu.Unlock()
}

func (r *Run) Note(s string) {
	r.mu.Lock()
	if len(r.res.Notes) < 50 {
		r.res.Notes = append(r.res.Notes, s)
	}
	r.mu.Unlock()
}

func (r *Run) Exhaustive(b bool) { r.mu.Lock(); r.res.Exhaustive = b; r.mu.Unlock() }

func sigKey(sig map[string]string) string {
	keys := make([]string, 0, len(sig))
	for k := range sig {
		keys = append(keys, k)
	}
	sort.Strings(keys)
	s := ""
	for _, k := range keys {
		s += k + "=" + sig[k] + ";"
	}
	return s
}

// Violation records a refuting observation.  At most 3 violations per identical
// signature and 200 in total are kept (the count is still reported).
func (r *Run) Violation(sig map[string]string, what string, replay any) {
	// An expiry of the harness' own I/O watchdog (60 s; protocol deadlocks are detected
	// logically and reported as such) says the machine was too slow, never that the code
	// under test is wrong: report it as inconclusive.
	if strings.Contains(what, "[harness watchdog expired]") || strings.Contains(what, "i/o timeout") || strings.Contains(what, "deadline exceeded") {
		if sig["kind"] != "hang" && sig["kind"] != "panic" {
			r.Inconclusive("watchdog expiry, not a verdict: " + firstN(what, 300))
			return
		}
	}
	r.mu.Lock()
	defer r.mu.Unlock()
	k := sigKey(sig)
	r.vsigs[k]++
	r.res.Counters["violations_total"]++
	if r.vsigs[k] > 2 || len(r.res.Violations) >= 400 {
		return
	}
	if len(what) > 1500 {
		what = what[:1500] + "…"
	}
	r.res.Violations = append(r.res.Violations, Violation{Sig: sig, What: what, Replay: replay})
}

// Demote turns every recorded violation whose signature has kind==k into an inconclusive
// entry (used when a run finds out afterwards that such reports were caused by machine load).
func (r *Run) Demote(k, reason string) {
	r.mu.Lock()
	defer r.mu.Unlock()
	var keep []Violation
	n := 0
	for _, v := range r.res.Violations {
		if v.Sig["kind"] == k {
			n++
			continue
		}
		keep = append(keep, v)
	}
	if n > 0 {
		r.res.Violations = keep
		if keep == nil {
			r.res.Violations = []Violation{}
		}
		r.res.Inconclusive = append(r.res.Inconclusive, fmt.Sprintf("%d report(s) of kind %s demoted: %s", n, k, reason))
	}
}

func (r *Run) Inconclusive(reason string) {
	r.mu.Lock()
	r.res.Inconclusive = append(r.res.Inconclusive, reason)
	r.mu.Unlock()
}

// Floor declares the run inconclusive if a counter is below min.
func (r *Run) Floor(name string, min int64) {
	r.mu.Lock()
	v := r.res.Counters[name]
	r.mu.Unlock()
	if v < min {
		r.Inconclusive(fmt.Sprintf("floor: counter %s=%d < %d", name, v, min))
	}
}

func (r *Run) NViolations() int {
	r.mu.Lock()
	defer r.mu.Unlock()
	return len(r.res.Violations)
}

// Finish writes the result document.
func (r *Run) Finish(t testing.TB) {
	// Finish is deferred by every TestCxx: a panic that escapes the code under test (no
	// monitor wrapped that call) arrives here.  It is a violation of whatever property the
	// test was checking ("never panics" is implicit everywhere), with the stack as witness.
	if p := recover(); p != nil {
		buf := make([]byte, 32<<10)
		buf = buf[:runtime.Stack(buf, false)]
		where := "?"
		for _, l := range strings.Split(string(buf), "\n") {
			if strings.Contains(l, "refraction-networking/utls.") && !strings.HasPrefix(l, "\t") {
				where = l
				if i := strings.Index(where, "("); i > 0 {
					where = where[:strings.LastIndex(where, "(")]
				}
				break
			}
		}
		r.Violation(map[string]string{"kind": "panic", "where": where}, fmt.Sprintf("the code under test panicked: %v (in %s)", p, where), map[string]any{"panic": fmt.Sprint(p), "stack": string(buf)})
		t.Errorf("panic: %v", p)
	}
	r.mu.Lock()
	defer r.mu.Unlock()
	if r.finished {
		return
	}
	r.finished = true
	r.res.Distinct = len(r.sigs)
	r.res.WallS = time.Since(r.start).Seconds()
	out := os.Getenv("VERIF_OUT")
	b, err := json.Marshal(&r.res)
	if err != nil {
		// fall back to a sanitised document
		r.res.Samples = []any{fmt.Sprintf("unmarshalable samples: %v", err)}
		for i := range r.res.Violations {
			r.res.Violations[i].Replay = fmt.Sprintf("%v", r.res.Violations[i].Replay)
		}
		b, _ = json.Marshal(&r.res)
	}
	if out != "" {
		if err := os.WriteFile(out, b, 0o644); err != nil {
			t.Fatalf("cannot write %s: %v", out, err)
		}
	}
	t.Logf("%s: evaluations=%d distinct=%d violations=%d inconclusive=%v counters=%v", r.res.Property,
		r.res.Evaluations, r.res.Distinct, len(r.res.Violations), r.res.Inconclusive, r.res.Counters)
	for i, v := range r.res.Violations {
		if i < 10 {
			t.Logf("  violation %v: %s", v.Sig, v.What)
		}
	}
}

func firstN(s string, n int) string {
	if len(s) > n {
		return s[:n]
	}
	return s
}

// Hex is a helper for samples/replays.
func Hex(b []byte) string {
	if len(b) > 4096 {
		return hex.EncodeToString(b[:4096]) + "…(" + strconv.Itoa(len(b)) + " bytes)"
	}
	return hex.EncodeToString(b)
}

// Journal appends a line to $VERIF_JOURNAL before a risky call, so that a process
// killed by a fatal error still leaves the witness on disk.
var jmu sync.Mutex
var jf *os.File

func Journal(line string) {
	p := os.Getenv("VERIF_JOURNAL")
	if p == "" {
		return
	}
	jmu.Lock()
	defer jmu.Unlock()
	if jf == nil {
		f, err := os.OpenFile(p, os.O_CREATE|os.O_WRONLY|os.O_TRUNC, 0o644)
		if err != nil {
			return
		}
		jf = f
	}
	// keep only the last entry: rewrite from the start
	jf.Truncate(0)
	jf.Seek(0, 0)
	jf.WriteString(line)
}

// JournalSlot is Journal for parallel workers: each slot (worker / case family) keeps its
// own last line; the file always holds the last line of every slot, so whichever case
// killed the process is among them.
var jslots = map[string]string{}

func JournalSlot(slot, line string) {
	p := os.Getenv("VERIF_JOURNAL")
	if p == "" {
		return
	}
	jmu.Lock()
	defer jmu.Unlock()
	if jf == nil {
		f, err := os.OpenFile(p, os.O_CREATE|os.O_WRONLY|os.O_TRUNC, 0o644)
		if err != nil {
			return
		}
		jf = f
	}
	jslots[slot] = line
	keys := make([]string, 0, len(jslots))
	for k := range jslots {
		keys = append(keys, k)
	}
	sort.Strings(keys)
	var buf []byte
	for _, k := range keys {
		buf = append(buf, k...)
		buf = append(buf, ": "...)
		buf = append(buf, jslots[k]...)
		buf = append(buf, '\n')
	}
	jf.Truncate(0)
	jf.Seek(0, 0)
	jf.Write(buf)
}
