// Package wire is an independent, strict parser for the TLS messages the monitors
// observe.  It shares no code with utls or crypto/tls.
package wire

import (
	"bytes"
	"encoding/binary"
	"errors"
	"fmt"
)

// Extension type numbers (IANA / drafts).
const (
	ExtSNI               = 0
	ExtStatusRequest     = 5
	ExtSupportedGroups   = 10
	ExtECPointFormats    = 11
	ExtSigAlgs           = 13
	ExtALPN              = 16
	ExtStatusRequestV2   = 17
	ExtSCT               = 18
	ExtPadding           = 21
	ExtEncryptThenMAC    = 22
	ExtEMS               = 23
	ExtTokenBinding      = 24
	ExtCompressCert      = 27
	ExtRecordSizeLimit   = 28
	ExtDelegatedCreds    = 34
	ExtSessionTicket     = 35
	ExtPreSharedKey      = 41
	ExtEarlyData         = 42
	ExtSupportedVersions = 43
	ExtCookie            = 44
	ExtPSKModes          = 45
	ExtCertAuthorities   = 47
	ExtSigAlgsCert       = 50
	ExtKeyShare          = 51
	ExtQUICTP            = 57
	ExtNPN               = 13172
	ExtALPSOld           = 17513
	ExtALPSNew           = 17613
	ExtChannelIDOld      = 30031
	ExtChannelID         = 30032
	ExtECH               = 0xfe0d
	ExtECHOuterExts      = 0xfd00
	ExtRenegotiationInfo = 0xff01
)

func IsGREASE(v uint16) bool { return (v>>8) == (v&0xff) && v&0x0f == 0x0a }

type Ext struct {
	Type uint16
	Data []byte
}

type KeyShareEntry struct {
	Group uint16
	Key   []byte
}

type PSKIdentity struct {
	Identity []byte
	Age      uint32
}

type ECHOuter struct {
	Inner    bool // type == inner (1)
	KDF      uint16
	AEAD     uint16
	ConfigID uint8
	Enc      []byte
	Payload  []byte
}

type ClientHello struct {
	Raw         []byte // handshake message incl. 4-byte header
	Version     uint16
	Random      []byte
	SessionID   []byte
	Suites      []uint16
	Compression []byte
	HasExts     bool
	Exts        []Ext

	// decoded views (valid only if the extension is present and parsed)
	SNI          *string
	Groups       []uint16
	PointFormats []byte
	SigAlgs      []uint16
	SigAlgsCert  []uint16
	ALPN         []string
	ALPSOld      []string
	ALPSNew      []string
	Versions     []uint16
	KeyShares    []KeyShareEntry
	PSKModes     []byte
	CertCompAlgs []uint16
	Cookie       []byte
	PSKIds       []PSKIdentity
	PSKBinders   [][]byte
	ECH          *ECHOuter
	PaddingLen   int // -1 if absent
	Ticket       []byte
	HasTicketExt bool
	QUICTP       []TP
	RecordLimit  uint16
}

type TP struct {
	ID  uint64
	Val []byte
}

func (ch *ClientHello) Ext(t uint16) *Ext {
	for i := range ch.Exts {
		if ch.Exts[i].Type == t {
			return &ch.Exts[i]
		}
	}
	return nil
}

func (ch *ClientHello) Has(t uint16) bool { return ch.Ext(t) != nil }

func (ch *ClientHello) ExtTypes() []uint16 {
	r := make([]uint16, len(ch.Exts))
	for i := range ch.Exts {
		r[i] = ch.Exts[i].Type
	}
	return r
}

// rd is a tiny strict reader.
type rd struct {
	b   []byte
	err error
}

func (r *rd) fail(s string) {
	if r.err == nil {
		r.err = errors.New(s)
	}
}
func (r *rd) u8(what string) uint8 {
	if r.err != nil {
		return 0
	}
	if len(r.b) < 1 {
		r.fail("truncated " + what)
		return 0
	}
	v := r.b[0]
	r.b = r.b[1:]
	return v
}
func (r *rd) u16(what string) uint16 {
	if r.err != nil {
		return 0
	}
	if len(r.b) < 2 {
		r.fail("truncated " + what)
		return 0
	}
	v := binary.BigEndian.Uint16(r.b)
	r.b = r.b[2:]
	return v
}
func (r *rd) u24(what string) int {
	if r.err != nil {
		return 0
	}
	if len(r.b) < 3 {
		r.fail("truncated " + what)
		return 0
	}
	v := int(r.b[0])<<16 | int(r.b[1])<<8 | int(r.b[2])
	r.b = r.b[3:]
	return v
}
func (r *rd) u32(what string) uint32 {
	if r.err != nil {
		return 0
	}
	if len(r.b) < 4 {
		r.fail("truncated " + what)
		return 0
	}
	v := binary.BigEndian.Uint32(r.b)
	r.b = r.b[4:]
	return v
}
func (r *rd) n(k int, what string) []byte {
	if r.err != nil {
		return nil
	}
	if k < 0 || len(r.b) < k {
		r.fail(fmt.Sprintf("truncated %s: need %d have %d", what, k, len(r.b)))
		return nil
	}
	v := r.b[:k]
	r.b = r.b[k:]
	return v
}
func (r *rd) v8(what string) []byte  { return r.n(int(r.u8(what+" length")), what) }
func (r *rd) v16(what string) []byte { return r.n(int(r.u16(what+" length")), what) }
func (r *rd) empty() bool            { return len(r.b) == 0 }
func (r *rd) end(what string) {
	if r.err == nil && len(r.b) != 0 {
		r.fail(fmt.Sprintf("%d trailing bytes after %s", len(r.b), what))
	}
}

// ParseClientHello strictly parses one ClientHello handshake message (with its
// 4-byte handshake header).  Structural violations are returned as an error.
func ParseClientHello(msg []byte) (*ClientHello, error) {
	ch := &ClientHello{Raw: msg, PaddingLen: -1}
	r := &rd{b: msg}
	if t := r.u8("msg type"); r.err == nil && t != 1 {
		return nil, fmt.Errorf("handshake type %d is not client_hello", t)
	}
	l := r.u24("msg length")
	if r.err != nil {
		return nil, r.err
	}
	if l != len(r.b) {
		return nil, fmt.Errorf("handshake length %d does not match body %d", l, len(r.b))
	}
	ch.Version = r.u16("legacy_version")
	ch.Random = r.n(32, "random")
	ch.SessionID = r.v8("session_id")
	if len(ch.SessionID) > 32 {
		return nil, fmt.Errorf("session id %d > 32", len(ch.SessionID))
	}
	cs := r.v16("cipher_suites")
	if r.err != nil {
		return nil, r.err
	}
	if len(cs) < 2 || len(cs)%2 != 0 {
		return nil, fmt.Errorf("cipher_suites vector length %d invalid", len(cs))
	}
	for i := 0; i < len(cs); i += 2 {
		ch.Suites = append(ch.Suites, binary.BigEndian.Uint16(cs[i:]))
	}
	ch.Compression = r.v8("compression_methods")
	if r.err != nil {
		return nil, r.err
	}
	if len(ch.Compression) < 1 {
		return nil, errors.New("compression_methods empty")
	}
	if r.empty() {
		return ch, nil
	}
	ch.HasExts = true
	exts := r.v16("extensions")
	r.end("extensions")
	if r.err != nil {
		return nil, r.err
	}
	er := &rd{b: exts}
	seen := map[uint16]bool{}
	for !er.empty() {
		t := er.u16("extension type")
		d := er.v16(fmt.Sprintf("extension %d data", t))
		if er.err != nil {
			return nil, er.err
		}
		if seen[t] {
			return nil, fmt.Errorf("duplicate extension type %d", t)
		}
		seen[t] = true
		ch.Exts = append(ch.Exts, Ext{t, d})
	}
	for i, e := range ch.Exts {
		if e.Type == ExtPreSharedKey && i != len(ch.Exts)-1 {
			return nil, errors.New("pre_shared_key is not the last extension")
		}
		if err := ch.parseExt(e); err != nil {
			return nil, fmt.Errorf("extension %d (index %d): %w", e.Type, i, err)
		}
	}
	return ch, nil
}

func u16list(b []byte, what string, minLen, maxLen int) ([]uint16, error) {
	if len(b) < minLen || len(b) > maxLen || len(b)%2 != 0 {
		return nil, fmt.Errorf("%s vector length %d invalid", what, len(b))
	}
	out := make([]uint16, 0, len(b)/2)
	for i := 0; i < len(b); i += 2 {
		out = append(out, binary.BigEndian.Uint16(b[i:]))
	}
	return out, nil
}

func protoList(b []byte, what string) ([]string, error) {
	r := &rd{b: b}
	l := r.v16(what + " list")
	r.end(what)
	if r.err != nil {
		return nil, r.err
	}
	if len(l) < 2 {
		return nil, fmt.Errorf("%s list too short (%d)", what, len(l))
	}
	lr := &rd{b: l}
	var out []string
	for !lr.empty() {
		p := lr.v8(what + " name")
		if lr.err != nil {
			return nil, lr.err
		}
		if len(p) == 0 {
			return nil, fmt.Errorf("%s: empty protocol name", what)
		}
		out = append(out, string(p))
	}
	return out, nil
}

func ocspRequest(r *rd) {
	r.v16("responder_id_list")
	r.v16("request_extensions")
}

func (ch *ClientHello) parseExt(e Ext) error {
	r := &rd{b: e.Data}
	var err error
	switch e.Type {
	case ExtSNI:
		l := r.v16("server_name_list")
		r.end("server_name_list")
		if r.err != nil {
			return r.err
		}
		if len(l) < 1 {
			return errors.New("empty server_name_list")
		}
		lr := &rd{b: l}
		seenHost := false
		for !lr.empty() {
			nt := lr.u8("name_type")
			nm := lr.v16("host_name")
			if lr.err != nil {
				return lr.err
			}
			if nt == 0 {
				if seenHost {
					return errors.New("two host_name entries")
				}
				if len(nm) < 1 {
					return errors.New("empty host_name")
				}
				seenHost = true
				s := string(nm)
				ch.SNI = &s
			}
		}
	case ExtStatusRequest:
		st := r.u8("status_type")
		if r.err == nil && st == 1 {
			ocspRequest(r)
			r.end("status_request")
		}
		return r.err
	case ExtStatusRequestV2:
		l := r.v16("status_request_v2 list")
		r.end("status_request_v2")
		if r.err != nil {
			return r.err
		}
		if len(l) < 1 {
			return errors.New("empty status_request_v2 list")
		}
		lr := &rd{b: l}
		for !lr.empty() {
			st := lr.u8("status_type")
			req := lr.v16("request")
			if lr.err != nil {
				return lr.err
			}
			if st == 1 || st == 2 {
				rr := &rd{b: req}
				ocspRequest(rr)
				rr.end("ocsp request")
				if rr.err != nil {
					return rr.err
				}
			}
		}
	case ExtSupportedGroups:
		l := r.v16("named_group_list")
		r.end("supported_groups")
		if r.err != nil {
			return r.err
		}
		ch.Groups, err = u16list(l, "named_group_list", 2, 65535)
		return err
	case ExtECPointFormats:
		l := r.v8("ec_point_format_list")
		r.end("ec_point_formats")
		if r.err != nil {
			return r.err
		}
		if len(l) < 1 {
			return errors.New("empty ec_point_format_list")
		}
		ch.PointFormats = l
	case ExtSigAlgs, ExtSigAlgsCert, ExtDelegatedCreds:
		l := r.v16("signature scheme list")
		r.end("signature_algorithms")
		if r.err != nil {
			return r.err
		}
		v, err := u16list(l, "signature scheme list", 2, 65534)
		if err != nil {
			return err
		}
		if e.Type == ExtSigAlgs {
			ch.SigAlgs = v
		} else if e.Type == ExtSigAlgsCert {
			ch.SigAlgsCert = v
		}
	case ExtALPN:
		ch.ALPN, err = protoList(e.Data, "alpn")
		return err
	case ExtALPSOld:
		ch.ALPSOld, err = protoList(e.Data, "alps")
		return err
	case ExtALPSNew:
		ch.ALPSNew, err = protoList(e.Data, "alps")
		return err
	case ExtSCT, ExtEMS, ExtNPN, ExtChannelID, ExtChannelIDOld, ExtEncryptThenMAC, ExtEarlyData:
		if len(e.Data) != 0 {
			return fmt.Errorf("extension must be empty in ClientHello, has %d bytes", len(e.Data))
		}
	case ExtPadding:
		for _, b := range e.Data {
			if b != 0 {
				return errors.New("padding is not all zero")
			}
		}
		ch.PaddingLen = len(e.Data)
	case ExtTokenBinding:
		r.u8("major")
		r.u8("minor")
		kp := r.v8("key_parameters")
		r.end("token_binding")
		if r.err != nil {
			return r.err
		}
		if len(kp) < 1 {
			return errors.New("token_binding: empty key_parameters")
		}
	case ExtCompressCert:
		l := r.v8("algorithms")
		r.end("compress_certificate")
		if r.err != nil {
			return r.err
		}
		ch.CertCompAlgs, err = u16list(l, "compress_certificate algorithms", 2, 254)
		return err
	case ExtRecordSizeLimit:
		ch.RecordLimit = r.u16("record_size_limit")
		r.end("record_size_limit")
		return r.err
	case ExtSessionTicket:
		ch.Ticket = e.Data
		ch.HasTicketExt = true
	case ExtSupportedVersions:
		l := r.v8("versions")
		r.end("supported_versions")
		if r.err != nil {
			return r.err
		}
		ch.Versions, err = u16list(l, "supported_versions", 2, 254)
		return err
	case ExtCookie:
		c := r.v16("cookie")
		r.end("cookie")
		if r.err != nil {
			return r.err
		}
		if len(c) < 1 {
			return errors.New("empty cookie")
		}
		ch.Cookie = c
	case ExtPSKModes:
		l := r.v8("ke_modes")
		r.end("psk_key_exchange_modes")
		if r.err != nil {
			return r.err
		}
		if len(l) < 1 {
			return errors.New("empty ke_modes")
		}
		ch.PSKModes = l
	case ExtKeyShare:
		l := r.v16("client_shares")
		r.end("key_share")
		if r.err != nil {
			return r.err
		}
		lr := &rd{b: l}
		ch.KeyShares = []KeyShareEntry{}
		for !lr.empty() {
			g := lr.u16("group")
			k := lr.v16("key_exchange")
			if lr.err != nil {
				return lr.err
			}
			if len(k) < 1 {
				return fmt.Errorf("key_share group %#x has empty key_exchange", g)
			}
			ch.KeyShares = append(ch.KeyShares, KeyShareEntry{g, k})
		}
	case ExtPreSharedKey:
		ids := r.v16("identities")
		bs := r.v16("binders")
		r.end("pre_shared_key")
		if r.err != nil {
			return r.err
		}
		if len(ids) < 7 {
			return fmt.Errorf("identities vector %d < 7", len(ids))
		}
		if len(bs) < 33 {
			return fmt.Errorf("binders vector %d < 33", len(bs))
		}
		ir := &rd{b: ids}
		for !ir.empty() {
			id := ir.v16("identity")
			age := ir.u32("obfuscated_ticket_age")
			if ir.err != nil {
				return ir.err
			}
			if len(id) < 1 {
				return errors.New("empty psk identity")
			}
			ch.PSKIds = append(ch.PSKIds, PSKIdentity{id, age})
		}
		br := &rd{b: bs}
		for !br.empty() {
			b := br.v8("binder")
			if br.err != nil {
				return br.err
			}
			if len(b) < 32 {
				return fmt.Errorf("binder length %d < 32", len(b))
			}
			ch.PSKBinders = append(ch.PSKBinders, b)
		}
		if len(ch.PSKIds) != len(ch.PSKBinders) {
			return fmt.Errorf("%d identities but %d binders", len(ch.PSKIds), len(ch.PSKBinders))
		}
	case ExtQUICTP:
		tps, err := ParseTransportParameters(e.Data)
		if err != nil {
			return err
		}
		ch.QUICTP = tps
	case ExtRenegotiationInfo:
		r.v8("renegotiated_connection")
		r.end("renegotiation_info")
		return r.err
	case ExtECH:
		t := r.u8("ech type")
		if r.err != nil {
			return r.err
		}
		switch t {
		case 0:
			o := &ECHOuter{}
			o.KDF = r.u16("kdf")
			o.AEAD = r.u16("aead")
			o.ConfigID = r.u8("config_id")
			o.Enc = r.v16("enc")
			o.Payload = r.v16("payload")
			r.end("ech outer")
			if r.err != nil {
				return r.err
			}
			if len(o.Payload) < 1 {
				return errors.New("ech payload empty")
			}
			ch.ECH = o
		case 1:
			r.end("ech inner")
			if r.err != nil {
				return r.err
			}
			ch.ECH = &ECHOuter{Inner: true}
		default:
			return fmt.Errorf("ech type %d", t)
		}
	}
	return nil
}

// ---- QUIC varints / transport parameters (independent implementation) ----

// ReadVarint decodes one RFC 9000 variable-length integer.
func ReadVarint(b []byte) (v uint64, n int, err error) {
	if len(b) < 1 {
		return 0, 0, errors.New("varint: empty")
	}
	n = 1 << (b[0] >> 6)
	if len(b) < n {
		return 0, 0, errors.New("varint: truncated")
	}
	v = uint64(b[0] & 0x3f)
	for i := 1; i < n; i++ {
		v = v<<8 | uint64(b[i])
	}
	return v, n, nil
}

// VarintLen is the minimal encoded size of v (0 if v >= 2^62).
func VarintLen(v uint64) int {
	switch {
	case v < 1<<6:
		return 1
	case v < 1<<14:
		return 2
	case v < 1<<30:
		return 4
	case v < 1<<62:
		return 8
	}
	return 0
}

func ParseTransportParameters(b []byte) ([]TP, error) {
	out := []TP{}
	for len(b) > 0 {
		id, n, err := ReadVarint(b)
		if err != nil {
			return nil, fmt.Errorf("tp id: %w", err)
		}
		b = b[n:]
		l, n, err := ReadVarint(b)
		if err != nil {
			return nil, fmt.Errorf("tp length: %w", err)
		}
		b = b[n:]
		if uint64(len(b)) < l {
			return nil, fmt.Errorf("tp %d: value truncated (%d < %d)", id, len(b), l)
		}
		out = append(out, TP{id, b[:l]})
		b = b[l:]
	}
	return out, nil
}

// ---- records ----

type Record struct {
	Type    uint8
	Version uint16
	Body    []byte
}

// SplitRecords parses as many complete TLS records as the stream holds.
// rest is the unconsumed tail.
func SplitRecords(stream []byte) (recs []Record, rest []byte, err error) {
	for len(stream) >= 5 {
		l := int(binary.BigEndian.Uint16(stream[3:5]))
		if len(stream) < 5+l {
			break
		}
		recs = append(recs, Record{stream[0], binary.BigEndian.Uint16(stream[1:3]), stream[5 : 5+l]})
		stream = stream[5+l:]
	}
	return recs, stream, nil
}

// HandshakeMsg is one plaintext handshake message (with header).
type HandshakeMsg struct {
	Type uint8
	Raw  []byte
}

// PlainHandshake reassembles the leading *plaintext* handshake messages of a stream
// (stops at the first non-handshake record other than CCS, or when records become
// application_data, i.e. encrypted).  It also returns the index of the record where it
// stopped.
func PlainHandshake(stream []byte) (msgs []HandshakeMsg, ccs int, alerts [][]byte, err error) {
	recs, _, _ := SplitRecords(stream)
	var buf []byte
	for _, rec := range recs {
		switch rec.Type {
		case 22:
			if len(rec.Body) == 0 {
				return msgs, ccs, alerts, errors.New("empty handshake record")
			}
			if len(rec.Body) > 16384 {
				return msgs, ccs, alerts, fmt.Errorf("handshake record of %d bytes", len(rec.Body))
			}
			buf = append(buf, rec.Body...)
		case 20:
			ccs++
			continue
		case 21:
			if len(rec.Body) == 2 {
				alerts = append(alerts, rec.Body)
			}
			continue
		default:
			goto done
		}
		for len(buf) >= 4 {
			l := int(buf[1])<<16 | int(buf[2])<<8 | int(buf[3])
			if len(buf) < 4+l {
				break
			}
			msgs = append(msgs, HandshakeMsg{buf[0], append([]byte(nil), buf[:4+l]...)})
			buf = buf[4+l:]
		}
	}
done:
	if len(buf) != 0 {
		// After the keys change, TLS 1.2 Finished is an encrypted *handshake* record,
		// so a trailing partial "message" is normal. Not an error.
		return msgs, ccs, alerts, nil
	}
	return msgs, ccs, alerts, nil
}

// ClientHellos extracts the ClientHello messages (raw, with header) from the plaintext
// prefix of a client->server stream.
func ClientHellos(stream []byte) [][]byte {
	msgs, _, _, _ := PlainHandshake(stream)
	var out [][]byte
	for _, m := range msgs {
		if m.Type == 1 {
			out = append(out, m.Raw)
		} else {
			break
		}
	}
	return out
}

// ---- ServerHello ----

type ServerHello struct {
	Version     uint16
	Random      []byte
	SessionID   []byte
	Suite       uint16
	Compression uint8
	Exts        []Ext
	IsHRR       bool
}

var hrrRandom = []byte{0xCF, 0x21, 0xAD, 0x74, 0xE5, 0x9A, 0x61, 0x11, 0xBE, 0x1D, 0x8C, 0x02, 0x1E, 0x65, 0xB8, 0x91,
	0xC2, 0xA2, 0x11, 0x16, 0x7A, 0xBB, 0x8C, 0x5E, 0x07, 0x9E, 0x09, 0xE2, 0xC8, 0xA8, 0x33, 0x9C}

func ParseServerHello(msg []byte) (*ServerHello, error) {
	r := &rd{b: msg}
	if t := r.u8("type"); r.err == nil && t != 2 {
		return nil, fmt.Errorf("type %d is not server_hello", t)
	}
	l := r.u24("len")
	if r.err != nil || l != len(r.b) {
		return nil, errors.New("bad server hello length")
	}
	sh := &ServerHello{}
	sh.Version = r.u16("version")
	sh.Random = r.n(32, "random")
	sh.SessionID = r.v8("session id")
	sh.Suite = r.u16("suite")
	sh.Compression = r.u8("compression")
	if r.err != nil {
		return nil, r.err
	}
	sh.IsHRR = bytes.Equal(sh.Random, hrrRandom)
	if r.empty() {
		return sh, nil
	}
	exts := r.v16("extensions")
	r.end("server hello")
	if r.err != nil {
		return nil, r.err
	}
	er := &rd{b: exts}
	for !er.empty() {
		t := er.u16("ext type")
		d := er.v16("ext data")
		if er.err != nil {
			return nil, er.err
		}
		sh.Exts = append(sh.Exts, Ext{t, d})
	}
	return sh, nil
}

func (sh *ServerHello) Ext(t uint16) *Ext {
	for i := range sh.Exts {
		if sh.Exts[i].Type == t {
			return &sh.Exts[i]
		}
	}
	return nil
}

// SelectedVersion returns the negotiated version a ServerHello announces.
func (sh *ServerHello) SelectedVersion() uint16 {
	if e := sh.Ext(ExtSupportedVersions); e != nil && len(e.Data) == 2 {
		return binary.BigEndian.Uint16(e.Data)
	}
	return sh.Version
}

// ParseExtension strictly parses one ClientHello extension body; the decoded view is
// returned in a ClientHello that holds only this extension.
func ParseExtension(t uint16, body []byte) (*ClientHello, error) {
	ch := &ClientHello{PaddingLen: -1, HasExts: true, Exts: []Ext{{t, body}}}
	if err := ch.parseExt(Ext{t, body}); err != nil {
		return nil, err
	}
	return ch, nil
}

// Marshal re-encodes a ServerHello / HelloRetryRequest handshake message.
func (sh *ServerHello) Marshal() []byte {
	body := []byte{byte(sh.Version >> 8), byte(sh.Version)}
	body = append(body, sh.Random...)
	body = append(body, byte(len(sh.SessionID)))
	body = append(body, sh.SessionID...)
	body = append(body, byte(sh.Suite>>8), byte(sh.Suite), sh.Compression)
	if sh.Exts != nil {
		var ex []byte
		for _, e := range sh.Exts {
			ex = append(ex, byte(e.Type>>8), byte(e.Type), byte(len(e.Data)>>8), byte(len(e.Data)))
			ex = append(ex, e.Data...)
		}
		body = append(body, byte(len(ex)>>8), byte(len(ex)))
		body = append(body, ex...)
	}
	return append([]byte{2, byte(len(body) >> 16), byte(len(body) >> 8), byte(len(body))}, body...)
}

// SetExt replaces or appends an extension.
func (sh *ServerHello) SetExt(t uint16, data []byte) {
	for i := range sh.Exts {
		if sh.Exts[i].Type == t {
			sh.Exts[i].Data = data
			return
		}
	}
	sh.Exts = append(sh.Exts, Ext{t, data})
}

// DelExt removes an extension.
func (sh *ServerHello) DelExt(t uint16) {
	var out []Ext
	for _, e := range sh.Exts {
		if e.Type != t {
			out = append(out, e)
		}
	}
	sh.Exts = out
}
