package props

import (
	"fmt"
	"math/rand"
	"os"
	"strings"
	"sync"
	"testing"
	"time"

	tls "github.com/refraction-networking/utls"
	"verifharness/mon"
	"verifharness/peer"
	"verifharness/wire"
)

// ---------------------------------------------------------------------------------
// C34 — arbitrary client input never crashes or hangs the server.
//
//   A. scripted client: mutated ClientHellos of every parrot (format-agnostic and
//      format-aware mutations, several record framings), followed by a hostile second
//      phase (plaintext handshake messages of unexpected types incl. 8 and 25, CCS +
//      noise, alerts), against several server configurations (client auth, ECH keys,
//      callbacks inspecting the ClientHelloInfo, version caps);
//   B. real uTLS client whose outgoing handshake messages are mutated before they enter
//      ITS transcript (hook H1 on the client), so an accepted mutation leads to a
//      handshake that really continues (mutated ClientHello, second ClientHello after
//      HelloRetryRequest, client EncryptedExtensions, Certificate, CertificateVerify,
//      ClientKeyExchange, Finished), plus hostile encrypted post-handshake messages;
//   C. raw record streams;
//   D. ECH: outer hellos whose ECH extension is mutated, and hostile *inner* hellos
//      sealed by the harness' own HPKE implementation against the server's ECH key.
// Oracle: Server Handshake and the following Reads return (bounded progress), no panic.
// ---------------------------------------------------------------------------------

const c34ServerDeadline = 4 * time.Second

var c34Limit = func() time.Duration {
	if os.Getenv("VERIF_RACE_PASS") == "1" {
		return 20 * c34ServerDeadline
	}
	return 3 * c34ServerDeadline
}()

func marshalCH(ch *wire.ClientHello, exts []wire.Ext, withExts bool) []byte {
	body := be16(ch.Version)
	body = append(body, ch.Random...)
	body = append(body, vec8(ch.SessionID)...)
	var su []byte
	for _, s := range ch.Suites {
		su = append(su, be16(s)...)
	}
	body = append(body, vec16(su)...)
	body = append(body, vec8(ch.Compression)...)
	if withExts {
		var ex []byte
		for _, e := range exts {
			ex = append(ex, encExt(e.Type, e.Data)...)
		}
		body = append(body, vec16(ex)...)
	}
	return hsMsg(1, body)
}

type chMut struct {
	name string
	f    func(rg *rand.Rand, ch *wire.ClientHello, echCfgID int) []byte
}

func cloneExts(e []wire.Ext) []wire.Ext {
	out := make([]wire.Ext, len(e))
	for i := range e {
		out[i] = wire.Ext{Type: e[i].Type, Data: append([]byte(nil), e[i].Data...)}
	}
	return out
}

func u16be(v ...uint16) []byte {
	var b []byte
	for _, x := range v {
		b = append(b, be16(x)...)
	}
	return b
}

var chMutations = []chMut{
	{"ch_legacy_version", func(rg *rand.Rand, ch *wire.ClientHello, _ int) []byte {
		c := *ch
		c.Version = []uint16{0x0300, 0x0301, 0x0302, 0x0304, 0x0000, 0xffff, 0x0200, 0x7f1c}[rg.Intn(8)]
		return marshalCH(&c, ch.Exts, ch.HasExts)
	}},
	{"ch_session_id", func(rg *rand.Rand, ch *wire.ClientHello, _ int) []byte {
		c := *ch
		c.SessionID = randBytes(rg, []int{0, 1, 31, 32, 33, 255}[rg.Intn(6)])
		return marshalCH(&c, ch.Exts, ch.HasExts)
	}},
	{"ch_suites", func(rg *rand.Rand, ch *wire.ClientHello, _ int) []byte {
		c := *ch
		switch rg.Intn(6) {
		case 0:
			c.Suites = nil
		case 1:
			c.Suites = []uint16{0x0a0a, 0x1a1a}
		case 2:
			c.Suites = []uint16{0x5600, 0x00ff}
		case 3:
			c.Suites = nil
			for i := 0; i < 30000; i++ {
				c.Suites = append(c.Suites, uint16(rg.Intn(65536)))
			}
		case 4:
			c.Suites = []uint16{0x1301}
		case 5:
			c.Suites = append([]uint16{0x5600}, ch.Suites...)
		}
		return marshalCH(&c, ch.Exts, ch.HasExts)
	}},
	{"ch_compression", func(rg *rand.Rand, ch *wire.ClientHello, _ int) []byte {
		c := *ch
		c.Compression = [][]byte{{}, {1}, {0, 1}, {1, 0}, make([]byte, 255)}[rg.Intn(5)]
		return marshalCH(&c, ch.Exts, ch.HasExts)
	}},
	{"ch_no_extensions", func(rg *rand.Rand, ch *wire.ClientHello, _ int) []byte {
		return marshalCH(ch, nil, rg.Intn(2) == 0)
	}},
	{"ch_ext_body", func(rg *rand.Rand, ch *wire.ClientHello, _ int) []byte {
		if len(ch.Exts) == 0 {
			return nil
		}
		ex := cloneExts(ch.Exts)
		i := rg.Intn(len(ex))
		switch rg.Intn(5) {
		case 0:
			ex[i].Data = nil
		case 1:
			ex[i].Data = randBytes(rg, 1+rg.Intn(64))
		case 2:
			for k := 1 + rg.Intn(3); k > 0; k-- {
				ex[i].Data = mutateBytes(rg, ex[i].Data)
			}
		case 3:
			ex[i].Data = vec16(randBytes(rg, rg.Intn(64)))
		case 4:
			ex[i].Data = append(ex[i].Data, 0)
		}
		return marshalCH(ch, ex, true)
	}},
	{"ch_ext_duplicate", func(rg *rand.Rand, ch *wire.ClientHello, _ int) []byte {
		if len(ch.Exts) == 0 {
			return nil
		}
		ex := cloneExts(ch.Exts)
		i := rg.Intn(len(ex))
		ex = append(ex, ex[i])
		return marshalCH(ch, ex, true)
	}},
	{"ch_ext_shuffle", func(rg *rand.Rand, ch *wire.ClientHello, _ int) []byte {
		ex := cloneExts(ch.Exts)
		rg.Shuffle(len(ex), func(i, j int) { ex[i], ex[j] = ex[j], ex[i] })
		return marshalCH(ch, ex, true)
	}},
	{"ch_supported_versions", func(rg *rand.Rand, ch *wire.ClientHello, _ int) []byte {
		body := [][]byte{vec8(u16be(0x0304)), vec8(u16be(0x0303)), vec8(nil), {3, 3, 4, 3}, vec8(u16be(0x0a0a)), vec8(u16be(0x0305, 0x0304)), vec8(u16be(0x0301, 0x0304)), u16be(0x0304), vec8(u16be(0x0300))}[rg.Intn(9)]
		return marshalCH(ch, setExt(cloneExts(ch.Exts), wire.ExtSupportedVersions, body), true)
	}},
	{"ch_key_share", func(rg *rand.Rand, ch *wire.ClientHello, _ int) []byte {
		pool := append([]uint16{0, 0x001d, 0x0017, 0x0018, 0x0019, 0x001e, 0x0100, 0x11ec, 0x6399, 0x0a0a, 0xffff}, ch.Groups...)
		var shares []byte
		for i := 0; i < rg.Intn(4); i++ {
			g := pool[rg.Intn(len(pool))]
			n := []int{0, 1, 31, 32, 33, 65, 97, 133, 1184, 1216, 1217, 4000}[rg.Intn(12)]
			shares = append(shares, append(be16(g), vec16(randBytes(rg, n))...)...)
		}
		body := vec16(shares)
		switch rg.Intn(5) {
		case 0:
			body = append(body, 0)
		case 1:
			body = body[:len(body)/2]
		case 2: // the same group twice
			one := append(be16(0x001d), vec16(randBytes(rg, 32))...)
			body = vec16(append(append([]byte(nil), one...), one...))
		}
		return marshalCH(ch, setExt(cloneExts(ch.Exts), wire.ExtKeyShare, body), true)
	}},
	{"ch_key_share_bad_points", func(rg *rand.Rand, ch *wire.ClientHello, _ int) []byte {
		var shares []byte
		fill := []byte{0, 0xff, 4}[rg.Intn(3)]
		for _, gs := range [][2]int{{0x001d, 32}, {0x0017, 65}, {0x0018, 97}, {0x0019, 133}, {0x11ec, 1216}} {
			if rg.Intn(2) == 0 {
				continue
			}
			k := make([]byte, gs[1])
			for i := range k {
				k[i] = fill
			}
			shares = append(shares, append(be16(uint16(gs[0])), vec16(k)...)...)
		}
		ex := setExt(cloneExts(ch.Exts), wire.ExtKeyShare, vec16(shares))
		ex = setExt(ex, wire.ExtSupportedGroups, vec16(u16be(0x11ec, 0x001d, 0x0017, 0x0018, 0x0019)))
		return marshalCH(ch, ex, true)
	}},
	{"ch_psk", func(rg *rand.Rand, ch *wire.ClientHello, _ int) []byte {
		var ids, binders []byte
		for i := 0; i < rg.Intn(4); i++ {
			ids = append(ids, vec16(randBytes(rg, []int{0, 1, 32, 200, 2000}[rg.Intn(5)]))...)
			ids = append(ids, randBytes(rg, 4)...)
		}
		for i := 0; i < rg.Intn(4); i++ {
			binders = append(binders, vec8(randBytes(rg, []int{0, 1, 31, 32, 33, 48, 255}[rg.Intn(7)]))...)
		}
		body := append(vec16(ids), vec16(binders)...)
		if rg.Intn(5) == 0 {
			body = body[:rg.Intn(len(body)+1)]
		}
		ex := cloneExts(ch.Exts)
		var out []wire.Ext
		for _, e := range ex {
			if e.Type != wire.ExtPreSharedKey {
				out = append(out, e)
			}
		}
		if rg.Intn(3) == 0 {
			out = setExt(out, wire.ExtEarlyData, nil)
		}
		if rg.Intn(3) > 0 {
			out = setExt(out, wire.ExtPSKModes, vec8([]byte{1}))
		}
		psk := wire.Ext{Type: wire.ExtPreSharedKey, Data: body}
		if rg.Intn(4) == 0 && len(out) > 0 { // not last
			out = append([]wire.Ext{psk}, out...)
		} else {
			out = append(out, psk)
		}
		return marshalCH(ch, out, true)
	}},
	{"ch_sni", func(rg *rand.Rand, ch *wire.ClientHello, _ int) []byte {
		name := [][]byte{nil, []byte("a"), []byte("example.test."), []byte("exa\x00mple.test"), []byte("1.2.3.4"), []byte("[::1]"), make([]byte, 300), randBytes(rg, 40), []byte("EXAMPLE.test"), []byte("*.test")}[rg.Intn(10)]
		entry := append([]byte{byte([]int{0, 0, 0, 1, 255}[rg.Intn(5)])}, vec16(name)...)
		body := vec16(entry)
		switch rg.Intn(5) {
		case 0:
			body = vec16(nil)
		case 1:
			body = vec16(append(append([]byte(nil), entry...), entry...))
		case 2:
			body = append(be16(0xffff), entry...)
		}
		return marshalCH(ch, setExt(cloneExts(ch.Exts), wire.ExtSNI, body), true)
	}},
	{"ch_alpn", func(rg *rand.Rand, ch *wire.ClientHello, _ int) []byte {
		body := [][]byte{vec16(nil), vec16(vec8(nil)), nil, vec16(append(vec8([]byte("h2")), 9, 'x')), vec16(vec8(make([]byte, 255))), append(vec16(vec8([]byte("h2"))), 1)}[rg.Intn(6)]
		return marshalCH(ch, setExt(cloneExts(ch.Exts), wire.ExtALPN, body), true)
	}},
	{"ch_sigalgs", func(rg *rand.Rand, ch *wire.ClientHello, _ int) []byte {
		body := [][]byte{vec16(nil), vec16([]byte{4}), vec16(u16be(0x0a0a)), vec16(u16be(0x0201)), vec16(u16be(0xffff, 0x0000)), nil, vec16(randBytes(rg, 2*rg.Intn(200)))}[rg.Intn(7)]
		t := []uint16{wire.ExtSigAlgs, wire.ExtSigAlgsCert}[rg.Intn(2)]
		return marshalCH(ch, setExt(cloneExts(ch.Exts), t, body), true)
	}},
	{"ch_groups", func(rg *rand.Rand, ch *wire.ClientHello, _ int) []byte {
		body := [][]byte{vec16(nil), vec16([]byte{0}), vec16(u16be(0x0a0a)), vec16(u16be(0x0100, 0x0101)), vec16(u16be(0x6399)), vec16(u16be(0x11ec)), nil}[rg.Intn(7)]
		return marshalCH(ch, setExt(cloneExts(ch.Exts), wire.ExtSupportedGroups, body), true)
	}},
	{"ch_ech", func(rg *rand.Rand, ch *wire.ClientHello, cfgID int) []byte {
		id := byte(rg.Intn(256))
		if cfgID >= 0 && rg.Intn(3) > 0 {
			id = byte(cfgID)
		}
		outer := func(kdf, aead uint16, enc, payload []byte) []byte {
			b := append([]byte{0}, u16be(kdf, aead)...)
			b = append(b, id)
			b = append(b, vec16(enc)...)
			return append(b, vec16(payload)...)
		}
		var body []byte
		switch rg.Intn(9) {
		case 0:
			body = outer(1, 1, randBytes(rg, 32), randBytes(rg, 16+rg.Intn(300)))
		case 1:
			body = outer(1, []uint16{1, 2, 3, 0, 0xffff}[rg.Intn(5)], randBytes(rg, []int{0, 1, 31, 32, 33, 65}[rg.Intn(6)]), randBytes(rg, []int{0, 1, 15, 16, 17, 40000}[rg.Intn(6)]))
		case 2:
			body = []byte{1} // inner marker in an outer hello
		case 3:
			body = []byte{byte(2 + rg.Intn(254))}
		case 4:
			body = nil
		case 5:
			body = outer(uint16(rg.Intn(4)), uint16(rg.Intn(4)), make([]byte, 32), make([]byte, 64)) // all-zero enc: low order point
		case 6:
			b := outer(1, 1, randBytes(rg, 32), randBytes(rg, 100))
			body = b[:rg.Intn(len(b))]
		case 7:
			body = append([]byte{1}, randBytes(rg, 5)...)
		case 8: // second-flight form: empty enc
			body = outer(1, 1, nil, randBytes(rg, 100))
		}
		ex := setExt(cloneExts(ch.Exts), wire.ExtECH, body)
		if rg.Intn(4) == 0 {
			ex = setExt(ex, wire.ExtECHOuterExts, vec8(u16be(wire.ExtKeyShare, wire.ExtECH)))
		}
		return marshalCH(ch, ex, true)
	}},
	{"ch_misc_extension", func(rg *rand.Rand, ch *wire.ClientHello, _ int) []byte {
		type tb struct {
			t uint16
			b []byte
		}
		opts := []tb{
			{wire.ExtCookie, vec16(randBytes(rg, []int{0, 1, 100, 60000}[rg.Intn(4)]))},
			{wire.ExtEarlyData, nil}, {wire.ExtEarlyData, randBytes(rg, 4)},
			{49, nil}, // post_handshake_auth
			{wire.ExtRecordSizeLimit, be16([]uint16{0, 63, 64, 16385, 65535}[rg.Intn(5)])},
			{wire.ExtCertAuthorities, vec16(vec16(randBytes(rg, rg.Intn(300))))},
			{wire.ExtStatusRequest, append([]byte{1}, append(vec16(vec16(randBytes(rg, 20))), vec16(randBytes(rg, 10))...)...)},
			{wire.ExtStatusRequest, []byte{byte(rg.Intn(256))}},
			{wire.ExtRenegotiationInfo, vec8(randBytes(rg, 1+rg.Intn(40)))},
			{wire.ExtRenegotiationInfo, nil},
			{wire.ExtEMS, randBytes(rg, 3)},
			{wire.ExtSessionTicket, randBytes(rg, []int{1, 50, 200, 1000, 30000}[rg.Intn(5)])},
			{wire.ExtQUICTP, randBytes(rg, rg.Intn(100))},
			{wire.ExtALPSNew, vec16(vec8([]byte("h2")))}, {wire.ExtALPSOld, randBytes(rg, rg.Intn(30))},
			{wire.ExtCompressCert, vec8(u16be(1, 2, 3))}, {wire.ExtCompressCert, randBytes(rg, rg.Intn(9))},
			{wire.ExtECPointFormats, vec8(nil)}, {wire.ExtECPointFormats, vec8([]byte{1, 2})},
			{wire.ExtPSKModes, vec8(nil)}, {wire.ExtPSKModes, vec8([]byte{0, 1, 2, 255})},
			{wire.ExtPadding, randBytes(rg, 1+rg.Intn(100))},
			{wire.ExtEncryptThenMAC, nil}, {wire.ExtDelegatedCreds, vec16(u16be(0x0403))},
			{wire.ExtSCT, vec16(vec16(randBytes(rg, 30)))}, {wire.ExtTokenBinding, randBytes(rg, 6)}, {wire.ExtChannelID, nil}, {wire.ExtNPN, nil},
		}
		o := opts[rg.Intn(len(opts))]
		return marshalCH(ch, setExt(cloneExts(ch.Exts), o.t, o.b), true)
	}},
	{"ch_ext_list_length_lies", func(rg *rand.Rand, ch *wire.ClientHello, _ int) []byte {
		m := marshalCH(ch, ch.Exts, true)
		var ex []byte
		for _, e := range ch.Exts {
			ex = append(ex, encExt(e.Type, e.Data)...)
		}
		off := len(m) - len(ex) - 2
		if off < 4 {
			return nil
		}
		v := []int{0, 1, len(ex) - 1, len(ex) + 1, 0xffff}[rg.Intn(5)]
		if v < 0 {
			v = 0
		}
		m[off], m[off+1] = byte(v>>8), byte(v)
		return m
	}},
	{"ch_huge", func(rg *rand.Rand, ch *wire.ClientHello, _ int) []byte {
		ex := cloneExts(ch.Exts)
		ex = append([]wire.Ext{{Type: 0x4a4a, Data: make([]byte, []int{16000, 40000, 60000, 65000}[rg.Intn(4)])}}, ex...)
		return marshalCH(ch, ex, true)
	}},
	{"ch_many_extensions", func(rg *rand.Rand, ch *wire.ClientHello, _ int) []byte {
		ex := cloneExts(ch.Exts)
		for i := 0; i < 5000; i++ {
			ex = append(ex, wire.Ext{Type: uint16(0x5000 + i)})
		}
		return marshalCH(ch, ex, true)
	}},
}

// framing variants for a plaintext handshake message
func frameMsg(rg *rand.Rand, msg []byte, mode int) []byte {
	hdr := func(t byte, v uint16, n int) []byte { return []byte{t, byte(v >> 8), byte(v), byte(n >> 8), byte(n)} }
	var out []byte
	switch mode {
	case 0: // records of <= 16384
		for len(msg) > 0 {
			n := min(len(msg), 16384)
			out = append(out, append(hdr(22, 0x0301, n), msg[:n]...)...)
			msg = msg[n:]
		}
		if len(out) == 0 {
			out = hdr(22, 0x0301, 0)
		}
	case 1: // small fragments
		for len(msg) > 0 {
			n := min(len(msg), 1+rg.Intn(20))
			out = append(out, append(hdr(22, 0x0303, n), msg[:n]...)...)
			msg = msg[n:]
		}
	case 2: // one oversize record (declared length up to 65535)
		n := min(len(msg), 65535)
		out = append(hdr(22, 0x0301, n), msg[:n]...)
	case 3: // odd record versions, empty records in between
		v := []uint16{0x0300, 0x0304, 0x0000, 0xffff, 0x0200}[rg.Intn(5)]
		for len(msg) > 0 {
			n := min(len(msg), 4096)
			if rg.Intn(3) == 0 {
				out = append(out, hdr(22, v, 0)...)
			}
			out = append(out, append(hdr(22, v, n), msg[:n]...)...)
			msg = msg[n:]
		}
	}
	return out
}

type c34Probed struct {
	tg Target
	ch *wire.ClientHello
}

type c34Server struct {
	name string
	cfg  func() *tls.Config
	ech  *peer.ECHKey
	plan func(ch *wire.ClientHello) *tls.VerifPlan // optional hooks on the server connection
}

func c34Servers() []c34Server {
	f := peer.Fix()
	echKey := peer.NewECHKey(7, "public.example.test", []uint16{1, 2, 3}, 32)
	base := func() *tls.Config {
		c := peer.ServerConfig()
		c.NextProtos = []string{"h2", "http/1.1"}
		return c
	}
	return []c34Server{
		{name: "default", cfg: base},
		{name: "clientauth-request", cfg: func() *tls.Config { c := base(); c.ClientAuth = tls.RequestClientCert; return c }},
		{name: "clientauth-verify", cfg: func() *tls.Config {
			c := base()
			c.ClientAuth = tls.RequireAndVerifyClientCert
			c.ClientCAs = f.CA.Pool
			return c
		}},
		{name: "ech", ech: echKey, cfg: func() *tls.Config {
			c := base()
			c.EncryptedClientHelloKeys = peer.ECHServerKeys(true, echKey)
			return c
		}},
		{name: "tls12max", cfg: func() *tls.Config { c := base(); c.MaxVersion = tls.VersionTLS12; return c }},
		{name: "tls12max-clientauth", cfg: func() *tls.Config {
			c := base()
			c.MaxVersion = tls.VersionTLS12
			c.ClientAuth = tls.RequireAnyClientCert
			return c
		}},
		{name: "tls10max", cfg: func() *tls.Config { c := base(); c.MaxVersion = tls.VersionTLS10; return c }},
		{name: "callbacks", cfg: func() *tls.Config {
			c := base()
			inner := base()
			c.GetConfigForClient = func(chi *tls.ClientHelloInfo) (*tls.Config, error) {
				_ = chi.SupportsCertificate(&f.ECDSA)
				_ = chi.SupportsCertificate(&f.RSA)
				if len(chi.SupportedProtos) > 3 {
					return nil, nil
				}
				return inner, nil
			}
			inner.GetCertificate = func(chi *tls.ClientHelloInfo) (*tls.Certificate, error) {
				for _, c := range []*tls.Certificate{&f.Ed25519, &f.ECDSA, &f.RSA} {
					if chi.SupportsCertificate(c) == nil {
						return c, nil
					}
				}
				return &f.RSA, nil
			}
			return c
		}},
		{name: "alps", cfg: func() *tls.Config { c := base(); c.ClientAuth = tls.RequestClientCert; return c },
			// negotiates ALPS on whichever code point the client offers and then reads the
			// client's EncryptedExtensions (the stock server implements neither)
			plan: func(ch *wire.ClientHello) *tls.VerifPlan {
				cp := uint16(0)
				if ch != nil && ch.Has(wire.ExtALPSNew) {
					cp = wire.ExtALPSNew
				} else if ch != nil && ch.Has(wire.ExtALPSOld) {
					cp = wire.ExtALPSOld
				}
				if cp == 0 {
					return &tls.VerifPlan{}
				}
				return &tls.VerifPlan{ReadClientEE: true, RewriteOut: func(isClient bool, m []byte) []byte {
					if isClient || len(m) < 4 || m[0] != 8 {
						return nil
					}
					exts, ok := eeExts(m)
					if !ok {
						return nil
					}
					exts = setExt(exts, cp, []byte("server-settings"))
					return eeMarshal(exts)
				}}
			}},
		{name: "p384-only", cfg: func() *tls.Config { c := base(); c.CurvePreferences = []tls.CurveID{tls.CurveP384}; return c }},
	}
}

type c34Result struct {
	serverErr error
	readErr   error
	panicked  string
	hung      *boundedOutcome
	completed bool
	sentBytes int
	mutated   bool
	types     []byte
}

// serveBounded runs Handshake + Reads of a server connection under the watchdog.
func serveBounded(server *tls.Conn, res *c34Result) boundedOutcome {
	return runBounded(c34Limit, func() error {
		if err := server.Handshake(); err != nil {
			return err
		}
		res.completed = true
		buf := make([]byte, 4096)
		for i := 0; i < 64; i++ {
			if _, err := server.Read(buf); err != nil {
				res.readErr = err
				break
			}
		}
		server.Close()
		return nil
	})
}

func quiesceCloser(a, b *peer.Conn, closeEnd *peer.Conn, stop <-chan struct{}) {
	tk := time.NewTicker(2 * time.Millisecond)
	defer tk.Stop()
	n := 0
	for {
		select {
		case <-stop:
			return
		case <-tk.C:
			if peer.Quiescent(a, b) {
				if n++; n >= 3 {
					closeEnd.Close()
					return
				}
			} else {
				n = 0
			}
		}
	}
}

// waitServerIdle waits until the server end is parked in Read with nothing buffered (it
// has consumed everything we sent and answered), or gives up after max.
func waitServerIdle(s *peer.Conn, max time.Duration, done <-chan struct{}) {
	t0 := time.Now()
	n := 0
	for time.Since(t0) < max {
		select {
		case <-done:
			return
		default:
		}
		if s.Blocked() {
			if n++; n >= 3 {
				return
			}
		} else {
			n = 0
		}
		time.Sleep(time.Millisecond)
	}
}

// c34Scripted: phases of bytes written by a scripted client; the server's answers are
// drained and ignored.
func c34Scripted(sv c34Server, hello *wire.ClientHello, phases [][]byte, silent bool) c34Result {
	var res c34Result
	c, s, _ := peer.Pipe()
	defer c.Close()
	defer s.Close()
	dl := c34ServerDeadline
	if silent {
		dl = 300 * time.Millisecond
	}
	s.SetDeadline(time.Now().Add(dl))
	c.SetDeadline(time.Now().Add(dl + 2*time.Second))
	server := tls.Server(s, sv.cfg())
	if sv.plan != nil {
		tls.VerifAttach(server, sv.plan(hello))
	}
	cdone := make(chan struct{})
	srvDone := make(chan struct{})
	go func() {
		defer close(cdone)
		go func() { // drain
			buf := make([]byte, 32768)
			for {
				if _, err := c.Read(buf); err != nil {
					return
				}
			}
		}()
		for _, p := range phases {
			res.sentBytes += len(p)
			if _, err := c.Write(p); err != nil {
				return
			}
			waitServerIdle(s, 2*time.Second, srvDone)
		}
		if !silent {
			c.Close()
		}
	}()
	out := serveBounded(server, &res)
	close(srvDone)
	if !out.Returned {
		res.hung = &out
	} else {
		res.serverErr, res.panicked = out.Err, out.Panic
	}
	c.Close()
	s.Close()
	<-cdone
	return res
}

// secondPhase: what a scripted client sends after its hello was answered.
func secondPhase(rg *rand.Rand) (string, []byte) {
	rec := func(t byte, b []byte) []byte { return append([]byte{t, 3, 3, byte(len(b) >> 8), byte(len(b))}, b...) }
	switch rg.Intn(9) {
	case 0:
		return "none", nil
	case 1:
		t := []byte{8, 25, 16, 11, 15, 20, 1, 0, 4, 24, 2, 13, 14, 67, 254}[rg.Intn(15)]
		return fmt.Sprintf("plaintext_type_%d", t), rec(22, hsMsg(t, randBytes(rg, []int{0, 1, 2, 7, 40, 300}[rg.Intn(6)])))
	case 2: // client EncryptedExtensions shaped
		var exts []byte
		for i := 0; i < rg.Intn(3); i++ {
			exts = append(exts, encExt([]uint16{wire.ExtALPSOld, wire.ExtALPSNew, wire.ExtALPN, 0x0a0a}[rg.Intn(4)], randBytes(rg, rg.Intn(40)))...)
		}
		b := vec16(exts)
		if rg.Intn(3) == 0 {
			b = b[:rg.Intn(len(b)+1)]
		}
		return "plaintext_client_encrypted_extensions", rec(22, hsMsg(8, b))
	case 3: // CompressedCertificate shaped
		alg := []uint16{0, 1, 2, 3, 0xffff}[rg.Intn(5)]
		full := compressedCertificateMsg(alg, []int{0, 10, 1 << 20, 1<<24 - 1}[rg.Intn(4)], randBytes(rg, rg.Intn(60)))
		if rg.Intn(3) == 0 {
			full = hsMsg(25, full[4:4+rg.Intn(len(full)-3)])
		}
		return "plaintext_compressed_certificate", rec(22, full)
	case 4:
		return "ccs_then_noise", append(rec(20, []byte{1}), rec(22, randBytes(rg, 40+rg.Intn(100)))...)
	case 5:
		return "alert", rec(21, []byte{byte(1 + rg.Intn(2)), byte(rg.Intn(256))})
	case 6:
		return "appdata", rec(23, randBytes(rg, 1+rg.Intn(200)))
	case 7: // a TLS 1.2 looking second flight: ClientKeyExchange, CCS, "Finished"
		cke := hsMsg(16, vec8(randBytes(rg, []int{0, 1, 32, 33, 65}[rg.Intn(5)])))
		if rg.Intn(3) == 0 {
			cke = hsMsg(16, vec16(randBytes(rg, []int{0, 1, 255, 256, 257}[rg.Intn(5)])))
		}
		out := rec(22, cke)
		if rg.Intn(2) == 0 {
			out = append(rec(22, hsMsg(11, u24(0))), out...)
		}
		out = append(out, rec(20, []byte{1})...)
		return "tls12_second_flight", append(out, rec(22, randBytes(rg, 40))...)
	default:
		var out []byte
		for i := 0; i < 2000; i++ {
			out = append(out, rec([]byte{22, 23, 21, 20}[rg.Intn(4)], nil)...)
		}
		return "empty_records", out
	}
}

// ---- B: real client, mutated outgoing messages ----

type c34ClientCase struct {
	id       string
	tg       Target
	sv       c34Server
	msgIndex int
	mutName  string
	mutate   func(rg *rand.Rand, m []byte) []byte
	seed     int
	post     func(rg *rand.Rand) []byte // hostile encrypted post-handshake handshake bytes (may be nil)
	// keyUpdates > 0: after the handshake the client sends that many valid KeyUpdate records
	keyUpdates       int
	keyUpdateRequest bool
	echReal          bool // client uses the server's real ECH config
}

func clientMsgMuts(typ byte, tls13 bool) []fieldMut {
	conv := func(ms []fieldMut) []fieldMut { return ms }
	var out []fieldMut
	switch typ {
	case 11:
		if tls13 {
			out = append(out, conv(certificate13Muts())...)
		} else {
			out = append(out, conv(tls12Muts(11))...)
		}
	case 15:
		out = append(out, certVerifyMuts()...)
	case 20:
		if tls13 {
			out = append(out, finishedMuts()...)
		} else {
			out = append(out, tls12Muts(20)...)
		}
	case 16:
		out = append(out, fieldMut{"cke_shape", func(rg *rand.Rand, m []byte, ch *wire.ClientHello) []byte {
			if rg.Intn(2) == 0 {
				return hsMsg(16, vec8(randBytes(rg, []int{0, 1, 31, 32, 33, 65, 97, 255}[rg.Intn(8)])))
			}
			return hsMsg(16, vec16(randBytes(rg, []int{0, 1, 255, 256, 257, 512}[rg.Intn(6)])))
		}}, fieldMut{"cke_constant_point", func(rg *rand.Rand, m []byte, ch *wire.ClientHello) []byte {
			out := append([]byte(nil), m...)
			fill := []byte{0, 0xff}[rg.Intn(2)]
			for i := 5; i < len(out); i++ {
				out[i] = fill
			}
			return out
		}})
	case 8:
		out = append(out, fieldMut{"client_ee", func(rg *rand.Rand, m []byte, ch *wire.ClientHello) []byte {
			var exts []byte
			for i := 0; i < rg.Intn(4); i++ {
				exts = append(exts, encExt([]uint16{wire.ExtALPSOld, wire.ExtALPSNew, wire.ExtALPN, wire.ExtSNI, 0x0a0a}[rg.Intn(5)], randBytes(rg, []int{0, 1, 50, 5000}[rg.Intn(4)]))...)
			}
			b := vec16(exts)
			if rg.Intn(4) == 0 {
				b = append(b, randBytes(rg, 1+rg.Intn(4))...)
			}
			return hsMsg(8, b)
		}})
	}
	// uTLS-specific message types from a client, whatever message is replaced
	out = append(out,
		fieldMut{"insert_type8_before", func(rg *rand.Rand, m []byte, ch *wire.ClientHello) []byte {
			return append(hsMsg(8, vec16(encExt(wire.ExtALPSNew, randBytes(rg, rg.Intn(40))))), m...)
		}},
		fieldMut{"insert_type25_before", func(rg *rand.Rand, m []byte, ch *wire.ClientHello) []byte {
			return append(compressedCertificateMsg([]uint16{1, 2, 3, 9}[rg.Intn(4)], []int{0, 100, 1<<24 - 1}[rg.Intn(3)], randBytes(rg, rg.Intn(80))), m...)
		}},
		fieldMut{"replace_by_type8", func(rg *rand.Rand, m []byte, ch *wire.ClientHello) []byte {
			return hsMsg(8, m[4:])
		}},
		fieldMut{"replace_by_type25", func(rg *rand.Rand, m []byte, ch *wire.ClientHello) []byte {
			return hsMsg(25, m[4:])
		}},
	)
	return out
}

func c34RunClient(cs c34ClientCase, ch *wire.ClientHello) c34Result {
	var res c34Result
	rg := Sub("C34case:"+cs.id, cs.seed)
	var mu sync.Mutex
	idx := 0
	plan := &tls.VerifPlan{RewriteOut: func(isClient bool, data []byte) []byte {
		if !isClient || len(data) < 4 {
			return nil
		}
		mu.Lock()
		defer mu.Unlock()
		i := idx
		idx++
		res.types = append(res.types, data[0])
		if i == cs.msgIndex && cs.mutate != nil {
			if m := cs.mutate(rg, append([]byte(nil), data...)); m != nil {
				res.mutated = true
				return m
			}
		}
		return nil
	}}
	c, s, _ := peer.Pipe()
	defer c.Close()
	defer s.Close()
	s.SetDeadline(time.Now().Add(c34ServerDeadline))
	c.SetDeadline(time.Now().Add(c34ServerDeadline))
	server := tls.Server(s, cs.sv.cfg())
	if cs.sv.plan != nil {
		tls.VerifAttach(server, cs.sv.plan(ch))
	}
	ccfg := peer.ClientConfig("example.test")
	ccfg.OmitEmptyPsk = true
	ccfg.Certificates = []tls.Certificate{peer.Fix().ECDSA}
	ccfg.ApplicationSettings = map[string][]byte{"h2": []byte("client-settings")}
	if cs.echReal && cs.sv.ech != nil {
		ccfg.EncryptedClientHelloConfigList = peer.ECHConfigList(cs.sv.ech)
		ccfg.ServerName = "secret.example.test"
		ccfg.MinVersion = tls.VersionTLS13
	}
	stop := make(chan struct{})
	cdone := make(chan struct{})
	srvDone := make(chan struct{})
	go func() {
		defer close(cdone)
		defer func() { recover() }() // the client is not the subject here
		u := tls.UClient(c, ccfg, cs.tg.ClientID())
		tls.VerifAttach(u.Conn, plan)
		if prep := cs.tg.Prepare(); prep != nil {
			if err := prep(u); err != nil {
				c.Close()
				return
			}
		}
		if err := u.Handshake(); err != nil {
			c.Close()
			return
		}
		if cs.post != nil {
			tls.VerifWriteRecord(u.Conn, 22, cs.post(rg))
			res.mutated = true
		}
		if cs.keyUpdates > 0 {
			// a run of well-formed KeyUpdates, each in its own record under the properly ratcheted
			// key (requesting an update of the peer's key or not)
			for k := 0; k < cs.keyUpdates; k++ {
				if err := tls.VerifSendKeyUpdate(u.Conn, cs.keyUpdateRequest); err != nil {
					break
				}
			}
			res.mutated = true
		}
		u.Write([]byte("ping"))
		waitServerIdle(s, time.Second, srvDone)
		u.Close()
		c.Close()
	}()
	go quiesceCloser(c, s, c, stop)
	out := serveBounded(server, &res)
	close(srvDone)
	close(stop)
	if !out.Returned {
		res.hung = &out
	} else {
		res.serverErr, res.panicked = out.Err, out.Panic
	}
	c.Close()
	s.Close()
	select {
	case <-cdone:
	case <-time.After(10 * time.Second):
	}
	return res
}

func postHandshakeHostile(rg *rand.Rand) []byte {
	switch rg.Intn(8) {
	case 0:
		var out []byte
		for i := 0; i < 1+rg.Intn(100); i++ {
			out = append(out, hsMsg(24, []byte{byte(rg.Intn(3))})...)
		}
		return out
	case 1:
		return hsMsg(8, vec16(encExt(wire.ExtALPSNew, randBytes(rg, rg.Intn(100)))))
	case 2:
		return compressedCertificateMsg(uint16(rg.Intn(5)), rg.Intn(1<<24), randBytes(rg, rg.Intn(100)))
	case 3:
		return hsMsg(4, randBytes(rg, rg.Intn(100))) // NewSessionTicket sent to a server
	case 4:
		return hsMsg(1, randBytes(rg, rg.Intn(200))) // ClientHello (renegotiation)
	case 5:
		return hsMsg(0, nil) // HelloRequest
	case 6:
		return append(hsMsg(24, []byte{1})[:3], randBytes(rg, 3)...)
	default:
		return hsMsg([]byte{11, 13, 15, 20, 2, 67, 254}[rg.Intn(7)], randBytes(rg, rg.Intn(300)))
	}
}

func TestC34(t *testing.T) {
	r := mon.New("C34", "server configurations (default, client auth request / verify, ECH keys, TLS 1.2 / 1.0 caps, callbacks inspecting ClientHelloInfo, P-384 only => HelloRetryRequest) x (A) scripted clients sending ClientHellos of every parrot / randomized / custom spec with 17 format-agnostic and 21 format-aware mutations under 4 record framings, followed by a hostile second phase (plaintext messages of unexpected types incl. 8 and 25, CCS + noise, TLS 1.2-looking second flights, alerts, empty-record floods); (B) real uTLS clients whose outgoing handshake messages (ClientHello, second ClientHello, client EncryptedExtensions, Certificate, CertificateVerify, ClientKeyExchange, Finished) are mutated before they enter the client's own transcript (hook H1), with uTLS-specific types 8/25 inserted or substituted, and hostile encrypted post-handshake messages (VerifWriteRecord); (C) raw record streams; (D) ECH: mutated outer ECH extensions against a server holding ECH keys and hostile inner hellos sealed with the harness' own HPKE. Oracle: no panic / process death (cases journaled first); Handshake and the following Reads return within 3x the connection deadline (parked goroutine = hang, runnable = inconclusive). distinct = (server, client family, workload, message type, mutation, outcome class)")
	defer r.Finish(t)
	servers := c34Servers()
	var targets []Target
	targets = append(targets, ParrotTargets(true)...)
	for i := 0; i < mon.Pick(8, 60); i++ {
		targets = append(targets, RandomizedTarget(i))
	}
	for i := 0; i < mon.Pick(8, 60); i++ {
		targets = append(targets, CustomTarget(i))
	}
	type probed = c34Probed
	var pts []probed
	for _, tg := range targets {
		ch, err := tg.Probe("example.test")
		if err != nil {
			continue
		}
		pts = append(pts, probed{tg, ch})
	}
	r.Count("client_hellos_probed", int64(len(pts)))

	evaluate := func(id string, res c34Result, sig map[string]string) string {
		rep := map[string]any{"case": id, "server_err": fmt.Sprint(res.serverErr), "read_err": fmt.Sprint(res.readErr)}
		switch {
		case res.panicked != "":
			sig["kind"] = "panic"
			sig["where"] = panicSite(res.panicked)
			rep["panic"] = res.panicked
			r.Violation(sig, fmt.Sprintf("%s: server panicked: %s", id, firstLine(res.panicked)), rep)
			return "panic"
		case res.hung != nil:
			rep["stack"] = res.hung.Stack
			if parkedState(res.hung.State) {
				sig["kind"] = "hang"
				hangsSeen.Add(1)
				r.Violation(sig, fmt.Sprintf("%s: server call still parked (%s) %.1fs after start, connection deadline %s", id, res.hung.State, res.hung.Took.Seconds(), c34ServerDeadline), rep)
				return "hang"
			}
			r.Inconclusive(fmt.Sprintf("%s: call did not return within %s but its goroutine is %q (machine load)", id, c34Limit, res.hung.State))
			return "slow"
		case res.completed:
			r.Count("server_completed_handshake", 1)
			return "completed"
		default:
			r.Count("server_returned_error", 1)
			return "error"
		}
	}

	// ---- A: scripted mutated hellos ----
	{
		n := mon.Pick(24000, 800000)
		parallelW(n, func(w, k int) {
			if hangsSeen.Load() >= 5 {
				return // every hang costs the full bound: a handful of witnesses is enough
			}
			rg := Sub("C34A", k)
			p := pts[rg.Intn(len(pts))]
			sv := servers[rg.Intn(len(servers))]
			cfgID := -1
			if sv.ech != nil {
				cfgID = int(sv.ech.ConfigID)
			}
			var msg []byte
			var mname string
			if rg.Intn(5) < 2 {
				gm := genericMutations[rg.Intn(len(genericMutations))]
				mname = gm.name
				msg = gm.f(rg, append([]byte(nil), p.ch.Raw...))
			} else {
				cm := chMutations[rg.Intn(len(chMutations))]
				mname = cm.name
				msg = cm.f(rg, p.ch, cfgID)
			}
			if msg == nil {
				msg, mname = p.ch.Raw, "none"
			}
			fr := rg.Intn(4)
			pname, p2 := secondPhase(rg)
			silent := rg.Intn(60) == 0
			id := fmt.Sprintf("scripted|%s|%s|%s|frame%d|then:%s|%d|silent=%v", sv.name, p.tg.Name, mname, fr, pname, k, silent)
			mon.JournalSlot(fmt.Sprintf("w%02d", w), id)
			phases := [][]byte{frameMsg(rg, msg, fr)}
			if p2 != nil {
				phases = append(phases, p2)
			}
			res := c34Scripted(sv, p.ch, phases, silent)
			sig := map[string]string{"server": sv.name, "target": family(p.tg.Name), "workload": "scripted", "mutation": mname, "then": pname}
			class := evaluate(id, res, sig)
			r.Count("scripted_cases", 1)
			if silent {
				r.Count("silent_client_cases", 1)
			}
			r.Case(fmt.Sprintf("A|%s|%s|%s|%s|%s", sv.name, family(p.tg.Name), mname, pname, class), true)
			if k%2999 == 0 {
				r.Sample(map[string]any{"case": id, "outcome": class, "server_err": fmt.Sprint(res.serverErr), "hello_prefix": mon.Hex(msg[:min(len(msg), 64)])})
			}
		})
	}

	// ---- A2: two hellos around a HelloRetryRequest ----
	// The first hello has no usable key share, so every TLS 1.3 server answers with a
	// HelloRetryRequest; the second one supplies a share.  Both carry (or not) an
	// encrypted_client_hello extension in every combination of shapes: none, the inner marker
	// (one byte 01), an outer extension with all-zero fields / empty enc, an outer extension
	// with random fields.  A server without ECH keys sees such hellos from any ECH client.
	{
		echShapes := []struct {
			name string
			f    func(rg *rand.Rand) []byte
		}{
			{"none", func(*rand.Rand) []byte { return nil }},
			{"inner-marker", func(*rand.Rand) []byte { return []byte{1} }},
			{"outer-zero", func(rg *rand.Rand) []byte {
				return append([]byte{0, 0, 0, 0, 0, 0, 0, 0}, vec16(randBytes(rg, 16+rg.Intn(200)))...)
			}},
			{"outer-random", func(rg *rand.Rand) []byte {
				b := []byte{0, 0, 1, 0, byte(1 + rg.Intn(3)), byte(rg.Intn(256))}
				b = append(b, vec16(randBytes(rg, []int{0, 32, 33}[rg.Intn(3)]))...)
				return append(b, vec16(randBytes(rg, 16+rg.Intn(200)))...)
			}},
		}
		n := mon.Pick(1500, 60000)
		parallelW(n, func(w, k int) {
			if hangsSeen.Load() >= 5 {
				return
			}
			rg := Sub("C34A2", k)
			p := pts[rg.Intn(len(pts))]
			sv := servers[rg.Intn(len(servers))]
			if !p.ch.Has(wire.ExtSupportedVersions) {
				return
			}
			s1, s2 := echShapes[k%4], echShapes[(k/4)%4]
			mk := func(shape []byte, share bool) []byte {
				exts := cloneExts(p.ch.Exts)
				var out []wire.Ext
				for _, e := range exts {
					switch e.Type {
					case wire.ExtECH:
						continue
					case wire.ExtSupportedGroups:
						// (classical groups only, X25519 first: the group every server of the
						// pool asks for, so that the second hello's share can be the right one)
						e.Data = vec16(u16be(0x001d, 0x0017, 0x0018))
					case wire.ExtKeyShare:
						if share {
							g := []uint16{0x001d, 0x001d, 0x001d, 0x0017, 0x0018}[rg.Intn(5)]
							e.Data = vec16(append(be16(g), vec16(randBytes(rg, KeyShareSize(g)))...))
						} else {
							e.Data = vec16(nil) // no share at all
						}
					case wire.ExtPreSharedKey:
						continue
					}
					out = append(out, e)
				}
				if shape != nil {
					out = append(out, wire.Ext{Type: wire.ExtECH, Data: shape})
				}
				return marshalCH(p.ch, out, true)
			}
			ch1, ch2 := mk(s1.f(rg), false), mk(s2.f(rg), true)
			id := fmt.Sprintf("hrr-pair|%s|%s|ech1=%s|ech2=%s|%d", sv.name, p.tg.Name, s1.name, s2.name, k)
			mon.JournalSlot(fmt.Sprintf("w%02d", w), id)
			// (after a HelloRetryRequest the record layer version is 0x0303)
			second := frameMsg(rg, ch2, 0)
			for off := 0; off+5 <= len(second); off += 5 + (int(second[off+3])<<8 | int(second[off+4])) {
				second[off+1], second[off+2] = 3, 3
			}
			res := c34Scripted(sv, p.ch, [][]byte{frameMsg(rg, ch1, 0), second}, false)
			sig := map[string]string{"server": sv.name, "target": family(p.tg.Name), "workload": "hrr-pair", "mutation": "ech1=" + s1.name, "then": "ech2=" + s2.name}
			class := evaluate(id, res, sig)
			if res.serverErr != nil && strings.Contains(res.serverErr.Error(), "encrypted client hello") {
				r.Count("hello_pairs_judged_at_the_ech_comparison", 1)
			}
			r.Count("hello_pairs_around_hrr", 1)
			r.Case(fmt.Sprintf("A2|%s|%s|%s|%s|%s", sv.name, family(p.tg.Name), s1.name, s2.name, class), true)
		})
		r.Floor("hello_pairs_around_hrr", 500)
		r.Floor("hello_pairs_judged_at_the_ech_comparison", 100)
	}

	// ---- B: real clients with mutated outgoing messages ----
	{
		type slot struct {
			p     probed
			sv    c34Server
			types []byte
			tls13 bool
			ech   bool
		}
		var slots []*slot
		var smu sync.Mutex
		type pr struct {
			p   probed
			sv  c34Server
			ech bool
		}
		var pairs []pr
		for _, p := range pts {
			for _, sv := range servers {
				pairs = append(pairs, pr{p, sv, false})
				if sv.ech != nil {
					pairs = append(pairs, pr{p, sv, true})
				}
			}
		}
		parallel(len(pairs), func(i int) {
			x := pairs[i]
			res := c34RunClient(c34ClientCase{id: "discover", tg: x.p.tg, sv: x.sv, msgIndex: -1, echReal: x.ech}, x.p.ch)
			if res.panicked != "" || res.hung != nil {
				r.Violation(map[string]string{"kind": "clean_run_failed", "server": x.sv.name, "target": family(x.p.tg.Name)}, fmt.Sprintf("%s vs %s: clean run panicked or hung: %s", x.p.tg.Name, x.sv.name, firstLine(res.panicked)), nil)
				return
			}
			if !res.completed {
				r.Count("discovery_not_completed", 1)
				return
			}
			has20 := false
			n16 := 0
			for _, t := range res.types {
				if t == 16 {
					n16++
				}
				if t == 20 {
					has20 = true
				}
			}
			_ = has20
			smu.Lock()
			slots = append(slots, &slot{p: x.p, sv: x.sv, types: res.types, tls13: n16 == 0, ech: x.ech})
			smu.Unlock()
		})
		for i := 1; i < len(slots); i++ {
			key := func(s *slot) string { return fmt.Sprintf("%s|%s|%v", s.p.tg.Name, s.sv.name, s.ech) }
			for j := i; j > 0 && key(slots[j]) < key(slots[j-1]); j-- {
				slots[j], slots[j-1] = slots[j-1], slots[j]
			}
		}
		r.Count("real_client_server_pairs", int64(len(slots)))
		type planned struct {
			sl *slot
			cs c34ClientCase
			mt byte
		}
		var all []planned
		for _, sl := range slots {
			for i, mt := range sl.types {
				sl, i, mt := sl, i, mt
				for _, gm := range genericMutations {
					gm := gm
					all = append(all, planned{sl, c34ClientCase{tg: sl.p.tg, sv: sl.sv, msgIndex: i, mutName: gm.name, mutate: gm.f, echReal: sl.ech}, mt})
				}
				if mt == 1 {
					cfgID := -1
					if sl.sv.ech != nil {
						cfgID = int(sl.sv.ech.ConfigID)
					}
					for _, cm := range chMutations {
						cm := cm
						all = append(all, planned{sl, c34ClientCase{tg: sl.p.tg, sv: sl.sv, msgIndex: i, mutName: cm.name, echReal: sl.ech,
							mutate: func(rg *rand.Rand, m []byte) []byte {
								ch, err := wire.ParseClientHello(m)
								if err != nil {
									return nil
								}
								return cm.f(rg, ch, cfgID)
							}}, mt})
					}
				}
				for _, fm := range clientMsgMuts(mt, sl.tls13) {
					fm := fm
					if mt == 1 && (fm.name != "insert_type8_before" && fm.name != "insert_type25_before") {
						continue
					}
					all = append(all, planned{sl, c34ClientCase{tg: sl.p.tg, sv: sl.sv, msgIndex: i, mutName: fm.name, echReal: sl.ech,
						mutate: func(rg *rand.Rand, m []byte) []byte { return fm.f(rg, m, sl.p.ch) }}, mt})
				}
			}
			// post-handshake hostile messages
			for k := 0; k < 3; k++ {
				all = append(all, planned{sl, c34ClientCase{tg: sl.p.tg, sv: sl.sv, msgIndex: -1, mutName: "post_handshake", seed: k, post: postHandshakeHostile, echReal: sl.ech}, 0})
			}
			if sl.tls13 {
				for k, n := range []int{1, 31, 32, 33, 40, 200} {
					all = append(all, planned{sl, c34ClientCase{tg: sl.p.tg, sv: sl.sv, msgIndex: -1, mutName: fmt.Sprintf("keyupdate_run_%d", n), seed: k, keyUpdates: n, keyUpdateRequest: k%3 != 2, echReal: sl.ech}, 0})
				}
			}
		}
		r.Count("real_client_cases_available", int64(len(all)))
		n := mon.Pick(24000, 600000)
		var sel []planned
		if len(all) <= n {
			sel = all
			for k := 1; len(sel) < n && len(all) > 0; k++ {
				for _, p := range all {
					p.cs.seed += 100 * k
					sel = append(sel, p)
					if len(sel) >= n {
						break
					}
				}
			}
		} else {
			perm := Sub("C34Bsel", 0).Perm(len(all))
			for _, i := range perm[:n] {
				sel = append(sel, all[i])
			}
		}
		parallelW(len(sel), func(w, i int) {
			if hangsSeen.Load() >= 5 {
				return // every hang costs the full bound: a handful of witnesses is enough
			}
			p := sel[i]
			p.cs.id = fmt.Sprintf("real|%s|%s|ech=%v|msg%d(type %d)|%s|%d", p.sl.sv.name, p.sl.p.tg.Name, p.sl.ech, p.cs.msgIndex, p.mt, p.cs.mutName, p.cs.seed)
			mon.JournalSlot(fmt.Sprintf("w%02d", w), p.cs.id)
			res := c34RunClient(p.cs, p.sl.p.ch)
			sig := map[string]string{"server": p.sl.sv.name, "target": family(p.sl.p.tg.Name), "workload": "real-client", "msg": fmt.Sprint(p.mt), "mutation": p.cs.mutName}
			class := evaluate(p.cs.id, res, sig)
			if res.mutated {
				r.Count("real_client_mutations_applied", 1)
				r.Count(fmt.Sprintf("mutated_client_msgtype_%d", p.mt), 1)
				switch p.cs.mutName {
				case "insert_type8_before", "insert_type25_before", "replace_by_type8", "replace_by_type25", "client_ee":
					r.Count("utls_specific_message_types_sent", 1)
				}
			}
			r.Case(fmt.Sprintf("B|%s|%s|%d|%s|%s", p.sl.sv.name, family(p.sl.p.tg.Name), p.mt, p.cs.mutName, class), res.mutated)
			if i%2999 == 0 {
				r.Sample(map[string]any{"case": p.cs.id, "outcome": class, "server_err": fmt.Sprint(res.serverErr), "read_err": fmt.Sprint(res.readErr)})
			}
		})
	}

	// ---- C: raw streams ----
	{
		n := mon.Pick(8000, 200000)
		parallelW(n, func(w, k int) {
			if hangsSeen.Load() >= 5 {
				return // every hang costs the full bound: a handful of witnesses is enough
			}
			rg := Sub("C34raw", k)
			sv := servers[rg.Intn(len(servers))]
			name, stream := rawStream(rg)
			if rg.Intn(3) == 0 { // valid hello first, then the stream
				p := pts[rg.Intn(len(pts))]
				stream = append(frameMsg(rg, p.ch.Raw, 0), stream...)
				name = "hello+" + name
			}
			silent := rg.Intn(60) == 0
			id := fmt.Sprintf("raw|%s|%s|%d|silent=%v", sv.name, name, k, silent)
			mon.JournalSlot(fmt.Sprintf("w%02d", w), id)
			res := c34Scripted(sv, nil, [][]byte{stream}, silent)
			sig := map[string]string{"server": sv.name, "workload": "raw", "mutation": name}
			class := evaluate(id, res, sig)
			r.Count("raw_stream_cases", 1)
			r.Case(fmt.Sprintf("C|%s|%s|%s", sv.name, name, class), true)
		})
	}

	// ---- D: hostile inner hellos (HPKE sealed by the harness) ----
	c34ECHInner(r, servers, pts, evaluate)

	r.Floor("scripted_cases", int64(mon.Pick(24000, 800000)))
	r.Floor("real_client_mutations_applied", int64(mon.Pick(12000, 300000)))
	r.Floor("utls_specific_message_types_sent", 500)
	r.Floor("server_completed_handshake", 200)
	r.Floor("server_returned_error", 5000)
	r.Floor("raw_stream_cases", int64(mon.Pick(8000, 200000)))
	for _, mt := range []int{1, 11, 15, 16, 20, 8} {
		r.Floor(fmt.Sprintf("mutated_client_msgtype_%d", mt), 100)
	}
	r.Floor("ech_inner_decrypted_by_server", 100)
	r.Assume("the uTLS client used to produce second flights is not the subject here; its panics are ignored (they are C33's business)")
}
