package props

import (
	"bytes"
	"fmt"
	"io"
	"os"
	"testing"
	"time"

	tls "github.com/refraction-networking/utls"
	"verifharness/mon"
	"verifharness/peer"
)

func forgedExchange(version, suite uint16, ms, cr, sr []byte, sizes []int, rgSeed int) (created bool, err error, panicked string) {
	defer func() {
		if r := recover(); r != nil {
			panicked = fmt.Sprint(r)
		}
	}()
	ce, se, _ := peer.Pipe()
	dl := time.Now().Add(peer.IODeadline)
	ce.SetDeadline(dl)
	se.SetDeadline(dl)
	defer ce.Close()
	defer se.Close()
	c := tls.MakeConnWithCompleteHandshake(ce, version, suite, ms, cr, sr, true)
	s := tls.MakeConnWithCompleteHandshake(se, version, suite, ms, cr, sr, false)
	if c == nil && s == nil {
		return false, nil, ""
	}
	if c == nil || s == nil {
		return true, fmt.Errorf("only one side was created (client nil=%v, server nil=%v)", c == nil, s == nil), ""
	}
	rg := Sub("C27data", rgSeed)
	for _, n := range sizes {
		for dir := 0; dir < 2; dir++ {
			var w, r *tls.Conn = c, s
			if dir == 1 {
				w, r = s, c
			}
			msg := randBytes(rg, n)
			errc := make(chan error, 1)
			go func() {
				// (the count Write reports is part of the exchange: a caller that honours
				// it - io.Copy, bufio - must neither stop early nor send bytes twice)
				errc <- writeAll(w, msg)
			}()
			got := make([]byte, n)
			var rerr error
			if n > 0 {
				_, rerr = io.ReadFull(r, got)
			}
			if e := <-errc; e != nil {
				return true, fmt.Errorf("write of %d bytes (dir %d): %v", n, dir, e), ""
			}
			if rerr != nil {
				return true, fmt.Errorf("read of %d bytes (dir %d): %v", n, dir, rerr), ""
			}
			if !bytes.Equal(got, msg) {
				return true, fmt.Errorf("%d bytes corrupted (dir %d)", n, dir), ""
			}
		}
	}
	return true, nil, ""
}

// C27 — Forged connections from shared secrets interoperate.
func TestC27(t *testing.T) {
	weak := os.Getenv("VERIF_WEAK") == "1"
	r := mon.New("C27", "all 65536 suite ids x versions {1.0,1.1,1.2} (exhaustive) with random master secret/randoms; every non-nil client/server pair exchanges data of sizes {0,1,17,16384,40000,150000,16384,16383} both ways (the last ones travel in full-size records); required-supported (id,version) pairs must be non-nil. Second child runs after EnableWeakCiphers. distinct = (suite id, version) pairs that produced a connection")
	defer r.Finish(t)
	r.Exhaustive(true)
	if weak {
		tls.EnableWeakCiphers()
	}
	required := map[[2]uint16]bool{}
	for _, cs := range append(tls.CipherSuites(), tls.InsecureCipherSuites()...) {
		for _, v := range cs.SupportedVersions {
			if v <= tls.VersionTLS12 {
				required[[2]uint16{cs.ID, v}] = true
			}
		}
	}
	legacyChaCha := []uint16{tls.OLD_TLS_ECDHE_RSA_WITH_CHACHA20_POLY1305_SHA256, tls.OLD_TLS_ECDHE_ECDSA_WITH_CHACHA20_POLY1305_SHA256}
	weakCBC := []uint16{tls.DISABLED_TLS_RSA_WITH_AES_256_CBC_SHA256, tls.DISABLED_TLS_ECDHE_ECDSA_WITH_AES_256_CBC_SHA384, tls.DISABLED_TLS_ECDHE_RSA_WITH_AES_256_CBC_SHA384}
	// the legacy ChaCha20 code points are supported with and without EnableWeakCiphers: enabling
	// further suites takes none away
	for _, id := range legacyChaCha {
		required[[2]uint16{id, tls.VersionTLS12}] = true
	}
	if weak {
		for _, id := range weakCBC {
			required[[2]uint16{id, tls.VersionTLS12}] = true
		}
	}
	r.Count("required_pairs", int64(len(required)))
	// (the last sizes are past the point where dynamic record sizing has ramped up to
	// full-size records: 16384-byte plaintexts, the largest a record may carry)
	sizes := []int{0, 1, 17, 16384, 40000, 150000, 16384, 16383}
	type job struct {
		v, id uint16
	}
	versions := []uint16{tls.VersionTLS10, tls.VersionTLS11, tls.VersionTLS12}
	total := 3 * 65536
	parallel(total, func(i int) {
		v := versions[i/65536]
		id := uint16(i % 65536)
		rg := Sub("C27", i)
		ms, cr, sr := randBytes(rg, 48), randBytes(rg, 32), randBytes(rg, 32)
		created, err, p := forgedExchange(v, id, ms, cr, sr, sizes, i)
		sig := map[string]string{"suite": fmt.Sprintf("%#04x", id), "version": fmt.Sprintf("%#04x", v)}
		req := required[[2]uint16{id, v}]
		if p != "" {
			sig["kind"] = "forged_conn_panic"
			r.Violation(sig, fmt.Sprintf("MakeConnWithCompleteHandshake/data exchange panicked for suite %#04x version %#04x: %s", id, v, p), map[string]any{"case": i})
		} else if created && err != nil {
			sig["kind"] = "forged_conn_broken"
			r.Violation(sig, fmt.Sprintf("suite %#04x version %#04x: non-nil connection pair does not interoperate: %v", id, v, err), map[string]any{"case": i})
		} else if !created && req {
			sig["kind"] = "forged_conn_nil_for_supported"
			r.Violation(sig, fmt.Sprintf("suite %#04x is supported at version %#04x but MakeConnWithCompleteHandshake returned nil", id, v), map[string]any{"case": i})
		}
		if created {
			r.Count("pairs_created", 1)
			if req {
				r.Count("required_pairs_exchanged", 1)
			}
			if id == legacyChaCha[0] || id == legacyChaCha[1] {
				r.Count("legacy_chacha_created", 1)
			}
		}
		r.Case(fmt.Sprintf("%04x|%04x", id, v), created)
		if created && id%7 == 0 {
			r.Sample(map[string]any{"suite": fmt.Sprintf("%#04x", id), "version": fmt.Sprintf("%#04x", v), "sizes": sizes})
		}
	})
	r.Floor("required_pairs_exchanged", int64(len(required)))
}
