package props

import (
	"bytes"
	"fmt"
	"runtime"
	"strings"
	"testing"

	tls "github.com/refraction-networking/utls"
	"verifharness/mon"
	"verifharness/peer"
	"verifharness/wire"
)

// internal consistency assertions that must never fire, whatever the caller does
var internalAssertions = []string{"uApplyPatch Failed", "setPskToUConn failed", "initialization failed", "finalCheck", "checkSessionExts failed: multiple", "onEnterLoadSessionCheck", "onLoadSessionReturn", "shouldWriteBinders", "aboutToLoadSession", "setSessionTicketExt failed", "updateBinders failed"}

type c20env struct {
	target   Target
	kind     string // "ticket" or "psk"
	scfg     *tls.Config
	hasExt   bool
	ticket   []byte
	state    *tls.SessionState
	cacheKey string
	nilCerts bool // the session is forged the way the README shows: without certificates
}

// freshPSKExt runs two connections (full, resumed) and returns the initialised PSK
// extension object of the resumed one together with its identity label.
// freshForgedPSKExt: a TLS 1.3 session is established once; its ticket, suite and PSK are read
// from the cache entry and a pre_shared_key extension is forged from them alone.
func freshForgedPSKExt(tg Target, scfg *tls.Config) (tls.PreSharedKeyExtension, []byte) {
	cache := newMapCache()
	h := RunCase(tg, GridCase{Server: scfg}, "example.test", func(c *tls.Config) { c.ClientSessionCache = cache }, peer.Opts{})
	if !h.OK() || cache.Any() == nil || cache.Any().Vers() != tls.VersionTLS13 {
		return nil, nil
	}
	return forgedPSKExt(cache.Any())
}

func freshPSKExt(tg Target, scfg *tls.Config) (tls.PreSharedKeyExtension, []byte) {
	cache := tls.NewLRUClientSessionCache(2)
	var ext tls.PreSharedKeyExtension
	for round := 0; round < 2; round++ {
		h := RunCase(tg, GridCase{Server: scfg}, "example.test", func(c *tls.Config) { c.ClientSessionCache = cache }, peer.Opts{})
		if !h.OK() {
			return nil, nil
		}
		if round == 1 && h.CState.DidResume && len(h.Client.Extensions) > 0 {
			if p, ok := h.Client.Extensions[len(h.Client.Extensions)-1].(tls.PreSharedKeyExtension); ok && p.IsInitialized() {
				ext = p
			}
		}
	}
	if ext == nil {
		return nil, nil
	}
	ids := ext.GetPreSharedKeyCommon().Identities
	if len(ids) == 0 {
		return nil, nil
	}
	return ext, ids[0].Label
}

// C20 — Injected sessions are used exactly as given, under any legal call order.
func TestC20(t *testing.T) {
	r := mon.New("C20", "all call sequences of length <=4 over {SetSessionCache, BuildHandshakeStateWithoutSession, SetSessionTicketExtension, SetPskExtension, BuildHandshakeState, SetClientRandom (an edit of the built hello)} followed by Handshake, plus setters after Handshake (enumerated completely for the bound) x targets {ticket parrot vs TLS 1.2 server, PSK parrot vs TLS 1.3 server, parrot without the extension, HelloGolang} x {cache in Config, no cache}; sessions taken from a previous connection and forged from a known master secret. Model written from the doc comments classifies each history as allowed / forbidden / unspecified. Oracle: never a runtime.Error panic or internal assertion; forbidden => returned error or explanatory 'tls: ... failed: ...' panic; allowed => no panic, the injected ticket / identity is on the wire and both sides resume. distinct = (target, history, cache)")
	defer r.Finish(t)
	r.Exhaustive(true)
	// E = a documented edit of the built hello (SetClientRandom); only applied once the hello
	// exists, a no-op in the model
	ops := []string{"C", "W", "T", "P", "B", "E"}
	var seqs [][]string
	var gen func(prefix []string, n int)
	gen = func(prefix []string, n int) {
		if len(prefix) > 0 {
			seqs = append(seqs, append(append([]string(nil), prefix...), "H"))
		}
		if n == 0 {
			return
		}
		for _, o := range ops {
			gen(append(prefix, o), n-1)
		}
	}
	gen(nil, mon.Pick(3, 5))
	seqs = append(seqs, []string{"H"}, []string{"H", "T"}, []string{"H", "P"}, []string{"C", "H", "T"}, []string{"C", "H", "P"}, []string{"C", "B", "H", "T"}, []string{"C", "T", "H", "T"}, []string{"C", "P", "H", "P"})
	r.Count("sequences", int64(len(seqs)))

	mkServer := func(maxv uint16) *tls.Config {
		s := peer.ServerConfig()
		s.MaxVersion = maxv
		var key [32]byte
		copy(key[:], "verif-c20-ticket-key-0123456789ab")
		s.SetSessionTicketKeys([][32]byte{key})
		return s
	}
	envs := []c20env{
		{target: Target{Name: "Chrome_102", ID: tls.HelloChrome_102}, kind: "ticket", scfg: mkServer(tls.VersionTLS12), hasExt: true},
		{target: Target{Name: "Firefox_105", ID: tls.HelloFirefox_105}, kind: "ticket", scfg: mkServer(tls.VersionTLS12), hasExt: true},
		{target: Target{Name: "Chrome_100_PSK", ID: tls.HelloChrome_100_PSK}, kind: "psk", scfg: mkServer(tls.VersionTLS13), hasExt: true},
		{target: Target{Name: "Chrome_112_PSK_Shuf", ID: tls.HelloChrome_112_PSK_Shuf}, kind: "psk", scfg: mkServer(tls.VersionTLS13), hasExt: true},
		{target: Target{Name: "Chrome_102(noPSKext)", ID: tls.HelloChrome_102}, kind: "psk", scfg: mkServer(tls.VersionTLS13), hasExt: false},
		// the same specs applied by the caller (HelloCustom + ApplyPreset) before anything else
		{target: Target{Name: "custom:Chrome_102", Spec: specOfID(tls.HelloChrome_102)}, kind: "ticket", scfg: mkServer(tls.VersionTLS12), hasExt: true},
		{target: Target{Name: "custom:Chrome_100_PSK", Spec: specOfID(tls.HelloChrome_100_PSK)}, kind: "psk", scfg: mkServer(tls.VersionTLS13), hasExt: true},
		{target: Target{Name: "Golang", ID: tls.HelloGolang}, kind: "ticket", scfg: mkServer(tls.VersionTLS12), hasExt: false},
		// presets with neither a session_ticket nor a pre_shared_key extension: an injected PSK
		// has nowhere to go and has to be refused
		{target: Target{Name: "IOS_14(neither ext)", ID: tls.HelloIOS_14}, kind: "psk", scfg: mkServer(tls.VersionTLS13), hasExt: false},
		{target: Target{Name: "Safari_16_0(neither ext)", ID: tls.HelloSafari_16_0}, kind: "psk", scfg: mkServer(tls.VersionTLS13), hasExt: false},
		{target: Target{Name: "Android_11_OkHttp(neither ext)", ID: tls.HelloAndroid_11_OkHttp}, kind: "psk", scfg: mkServer(tls.VersionTLS13), hasExt: false},
		{target: Target{Name: "IOS_14(neither ext, ticket)", ID: tls.HelloIOS_14}, kind: "ticket", scfg: mkServer(tls.VersionTLS12), hasExt: false},
		// forged as the README shows: MakeClientSessionState(ticket, vers, suite, secret, nil, nil)
		{target: Target{Name: "Chrome_100+forged-without-certs", ID: tls.HelloChrome_100}, kind: "ticket", scfg: mkServer(tls.VersionTLS12), hasExt: true, nilCerts: true},
		{target: Target{Name: "custom:Firefox_105+forged-without-certs", Spec: specOfID(tls.HelloFirefox_105)}, kind: "ticket", scfg: mkServer(tls.VersionTLS12), hasExt: true, nilCerts: true},
		// RFC 5077 tickets are not a TLS 1.2 feature: sessions negotiated at TLS 1.1 / 1.0 by
		// presets that still offer those versions
		{target: Target{Name: "Firefox_65@tls11", ID: tls.HelloFirefox_65}, kind: "ticket", scfg: mkServer(tls.VersionTLS11), hasExt: true},
		{target: Target{Name: "Chrome_70@tls10", ID: tls.HelloChrome_70}, kind: "ticket", scfg: mkServer(tls.VersionTLS10), hasExt: true},
		{target: Target{Name: "custom:Firefox_99@tls11", Spec: specOfID(tls.HelloFirefox_99)}, kind: "ticket", scfg: mkServer(tls.VersionTLS11), hasExt: true},
		{target: Target{Name: "Chrome_83@tls10", ID: tls.HelloChrome_83}, kind: "ticket", scfg: mkServer(tls.VersionTLS10), hasExt: true},
	}
	// a parrot whose spec has no session_ticket extension
	for _, p := range AllParrots {
		tg := Target{Name: p.Name, ID: p.ID}
		if !specHas(tg, func(e tls.TLSExtension) bool { _, ok := e.(*tls.SessionTicketExtension); return ok }) {
			envs = append(envs, c20env{target: Target{Name: p.Name + "(noticketext)", ID: p.ID}, kind: "ticket", scfg: mkServer(tls.VersionTLS12), hasExt: false})
			break
		}
	}
	// session material for ticket environments: real session + forged copy
	for ei := range envs {
		e := &envs[ei]
		if e.kind != "ticket" {
			continue
		}
		cache := newMapCache()
		src := Target{Name: "Chrome_102", ID: tls.HelloChrome_102}
		if e.scfg.MaxVersion < tls.VersionTLS12 {
			src = e.target // a preset that still offers the old version
		}
		h := RunCase(src, GridCase{Server: e.scfg}, "example.test", func(c *tls.Config) { c.ClientSessionCache = cache }, peer.Opts{})
		if !h.OK() || cache.Any() == nil {
			r.Inconclusive("cannot obtain a TLS 1.2 session for " + e.target.Name + ": " + h.ErrString())
			return
		}
		cs := cache.Any()
		if ei%2 == 1 {
			// forged from the known master secret
			f := tls.MakeClientSessionState(cs.SessionTicket(), cs.Vers(), cs.CipherSuite(), append([]byte(nil), cs.MasterSecret()...), cs.ServerCertificates(), cs.VerifiedChains())
			f.SetEMS(cs.EMS())
			cs = f
		}
		if e.nilCerts {
			f := tls.MakeClientSessionState(cs.SessionTicket(), cs.Vers(), cs.CipherSuite(), append([]byte(nil), cs.MasterSecret()...), nil, nil)
			f.SetEMS(cs.EMS())
			cs = f
		}
		e.ticket, e.state, _ = cs.ResumptionState()
	}
	type job struct {
		env   int
		seq   []string
		cache bool
	}
	var jobs []job
	for ei := range envs {
		for _, s := range seqs {
			for _, c := range []bool{true, false} {
				jobs = append(jobs, job{ei, s, c})
			}
		}
	}
	r.Count("histories", int64(len(jobs)))
	parallel(len(jobs), func(i int) {
		j := jobs[i]
		e := envs[j.env]
		// model
		cacheOn := j.cache
		built := false // a BuildHandshakeState / Handshake has happened
		setters, relevantSetters := 0, 0
		forbidden, otherSetter := false, false
		relevant := map[string]string{"ticket": "T", "psk": "P"}[e.kind]
		for _, op := range j.seq {
			switch op {
			case "C":
				cacheOn = true
			case "B", "H":
				built = true
			case "T", "P":
				setters++
				if op == relevant {
					relevantSetters++
					if built || !cacheOn || !e.hasExt {
						forbidden = true
					}
				} else {
					otherSetter = true
				}
			}
		}
		golang := e.target.ID.Client == tls.HelloGolang.Client
		class := "unspecified"
		switch {
		case relevantSetters == 1 && setters == 1 && forbidden && !golang:
			class = "forbidden"
		case relevantSetters == 1 && setters == 1 && !forbidden && !otherSetter && !golang && j.seq[len(j.seq)-1] == "H":
			class = "allowed"
		case setters == 0 && !golang:
			class = "nosetter" // plain use: must simply work
		}
		// execute
		var injectedLabel []byte
		var pskExt tls.PreSharedKeyExtension
		if strings.Contains(strings.Join(j.seq, ""), "P") {
			src := e.target
			if !e.hasExt || e.kind != "psk" {
				src = Target{Name: "Chrome_100_PSK", ID: tls.HelloChrome_100_PSK}
			}
			sc := e.scfg
			if sc.MaxVersion != tls.VersionTLS13 {
				sc = mkServer(tls.VersionTLS13)
			}
			if i%2 == 1 {
				pskExt, injectedLabel = freshForgedPSKExt(src, sc)
				r.Count("forged_psk_sessions", 1)
			} else {
				pskExt, injectedLabel = freshPSKExt(src, sc)
			}
			if pskExt == nil {
				r.Count("psk_material_unavailable", 1)
				return
			}
		}
		c, s, tap := peer.Pipe()
		defer c.Close()
		defer s.Close()
		srv := tls.Server(s, e.scfg)
		ccfg := peer.ClientConfig("example.test")
		ccfg.OmitEmptyPsk = true
		var lastCache tls.ClientSessionCache
		if j.cache {
			lastCache = tls.NewLRUClientSessionCache(4)
			ccfg.ClientSessionCache = lastCache
		}
		u := tls.UClient(c, ccfg, e.target.ClientID())
		if e.target.Spec != nil {
			sp, err := e.target.Spec()
			if err == nil {
				err = u.ApplyPreset(sp)
			}
			if err != nil {
				r.Inconclusive("cannot apply the preset of " + e.target.Name + ": " + err.Error())
				return
			}
		}
		var steps []string
		var firstErr error
		var panicMsg string
		var runtimePanic bool
		handshook := false
		sdone := make(chan error, 1)
		startServer := func() {
			go func() {
				defer func() { recover() }()
				err := srv.Handshake()
				if err != nil {
					s.Close()
				}
				sdone <- err
			}()
		}
		for _, op := range j.seq {
			var err error
			func() {
				defer func() {
					if rec := recover(); rec != nil {
						panicMsg = fmt.Sprint(rec)
						if _, ok := rec.(runtime.Error); ok {
							runtimePanic = true
						}
					}
				}()
				switch op {
				case "C":
					lastCache = tls.NewLRUClientSessionCache(4)
					u.SetSessionCache(lastCache)
				case "W":
					err = u.BuildHandshakeStateWithoutSession()
				case "B":
					err = u.BuildHandshakeState()
				case "T":
					err = u.SetSessionTicketExtension(&tls.SessionTicketExtension{Session: e.state, Ticket: e.ticket, Initialized: true})
				case "P":
					err = u.SetPskExtension(pskExt)
				case "E":
					if u.HandshakeState.Hello != nil && len(u.HandshakeState.Hello.Raw) > 0 {
						err = u.SetClientRandom(bytes.Repeat([]byte{0xa7}, 32))
					}
				case "H":
					if !handshook {
						handshook = true
						startServer()
					}
					err = u.Handshake()
				}
			}()
			steps = append(steps, op)
			if panicMsg != "" {
				break
			}
			if err != nil && firstErr == nil {
				firstErr = fmt.Errorf("%s: %w", op, err)
				if op != "H" {
					break // the caller would stop at the first error
				}
			}
		}
		c.Close()
		var serverErr error
		if handshook {
			serverErr = <-sdone
		}
		c2s, _ := tap.Snapshot()
		hist := strings.Join(j.seq, "")
		sig := map[string]string{"target": e.target.Name, "history": hist, "cache_in_config": fmt.Sprint(j.cache), "class": class}
		rep := map[string]any{"case": i, "target": e.target.Name, "history": j.seq, "executed": steps, "cache_in_config": j.cache, "class": class, "first_error": fmt.Sprint(firstErr), "panic": panicMsg, "server_err": fmt.Sprint(serverErr)}
		// universal
		if runtimePanic {
			sig["kind"] = "runtime_error_panic"
			r.Violation(sig, fmt.Sprintf("%s history %s (cache in Config: %v): runtime error panic: %s", e.target.Name, hist, j.cache, panicMsg), rep)
		} else if panicMsg != "" {
			for _, a := range internalAssertions {
				if strings.Contains(panicMsg, a) {
					sig["kind"] = "internal_assertion_panic"
					r.Violation(sig, fmt.Sprintf("%s history %s (cache in Config: %v): internal consistency assertion fired: %s", e.target.Name, hist, j.cache, panicMsg), rep)
					break
				}
			}
		}
		switch class {
		case "forbidden":
			if panicMsg == "" && firstErr == nil {
				sig["kind"] = "forbidden_history_silently_accepted"
				r.Violation(sig, fmt.Sprintf("%s history %s (cache in Config: %v) is forbidden by the documentation but neither an error nor a panic was raised", e.target.Name, hist, j.cache), rep)
			} else if panicMsg != "" && !(strings.HasPrefix(panicMsg, "tls: ") && strings.Contains(panicMsg, "failed")) {
				sig["kind"] = "forbidden_history_undocumented_panic"
				r.Violation(sig, fmt.Sprintf("%s history %s: panic %q is not an explanatory 'tls: ... failed: ...' message", e.target.Name, hist, panicMsg), rep)
			}
			r.Count("forbidden_histories", 1)
		case "allowed", "nosetter":
			if panicMsg != "" {
				sig["kind"] = "allowed_history_panicked"
				r.Violation(sig, fmt.Sprintf("%s history %s (cache in Config: %v) is allowed but panicked: %s", e.target.Name, hist, j.cache, panicMsg), rep)
				break
			}
			if firstErr != nil || serverErr != nil {
				sig["kind"] = "allowed_history_failed"
				r.Violation(sig, fmt.Sprintf("%s history %s (cache in Config: %v) is allowed but failed: client=%v server=%v", e.target.Name, hist, j.cache, firstErr, serverErr), rep)
				break
			}
			if class == "nosetter" {
				r.Count("plain_histories", 1)
				break
			}
			r.Count("allowed_histories", 1)
			hellos := wire.ClientHellos(c2s)
			if len(hellos) == 0 {
				break
			}
			ch, err := wire.ParseClientHello(hellos[0])
			if err != nil {
				sig["kind"] = "invalid_hello"
				r.Violation(sig, err.Error(), rep)
				break
			}
			if e.kind == "ticket" {
				if !bytes.Equal(ch.Ticket, e.ticket) {
					sig["kind"] = "injected_ticket_not_on_wire"
					r.Violation(sig, fmt.Sprintf("%s history %s: the session_ticket on the wire (%d bytes) is not the injected one (%d bytes)", e.target.Name, hist, len(ch.Ticket), len(e.ticket)), rep)
				}
			} else if len(ch.PSKIds) == 0 || !bytes.Equal(ch.PSKIds[0].Identity, injectedLabel) {
				sig["kind"] = "injected_psk_not_on_wire"
				r.Violation(sig, fmt.Sprintf("%s history %s: the pre_shared_key identity on the wire is not the injected one", e.target.Name, hist), rep)
			}
			cs, ss := u.ConnectionState(), srv.ConnectionState()
			if !cs.DidResume || !ss.DidResume {
				sig["kind"] = "injected_session_not_resumed"
				r.Violation(sig, fmt.Sprintf("%s history %s (cache in Config: %v): injected session not resumed (client %v, server %v)", e.target.Name, hist, j.cache, cs.DidResume, ss.DidResume), rep)
			} else {
				r.Count("allowed_resumed", 1)
				// the next, ordinary connection over the same cache (which now holds what the
				// resumed connection stored) must not be harmed by the injection
				if lastCache != nil {
					nt := e.target
					h2 := RunCase(nt, GridCase{Server: e.scfg}, "example.test", func(c *tls.Config) {
						c.ClientSessionCache = lastCache
						c.PreferSkipResumptionOnNilExtension = true
					}, peer.Opts{})
					if h2.ClientPanic != "" || !h2.OK() {
						sig["kind"] = "connection_after_injected_session_failed"
						r.Violation(sig, fmt.Sprintf("%s history %s: the ordinary connection that followed over the same cache failed: panic=%q %s", e.target.Name, hist, firstLine(h2.ClientPanic), h2.ErrString()), rep)
					} else {
						r.Count("follow_up_after_injection_ok", 1)
					}
				}
			}
		}
		r.Case(fmt.Sprintf("%s|%s|%v", e.target.Name, hist, j.cache), true)
		if i%997 == 0 {
			r.Sample(map[string]any{"target": e.target.Name, "history": hist, "cache_in_config": j.cache, "class": class, "error": fmt.Sprint(firstErr), "panic": panicMsg})
		}
	})
	r.Floor("allowed_histories", 20)
	r.Floor("allowed_resumed", 20)
	r.Floor("forbidden_histories", 100)
}

func specOfID(id tls.ClientHelloID) func() (*tls.ClientHelloSpec, error) {
	return func() (*tls.ClientHelloSpec, error) {
		sp, err := tls.UTLSIdToSpec(id)
		return &sp, err
	}
}
