package props

import (
	"crypto/aes"
	"crypto/cipher"
	"crypto/ecdh"
	"crypto/hmac"
	"crypto/rand"
	"crypto/sha256"
	"fmt"
	"io"
	mrand "math/rand"
	"sync/atomic"

	tls "github.com/refraction-networking/utls"
	"golang.org/x/crypto/chacha20poly1305"
	"golang.org/x/crypto/hkdf"
	"verifharness/mon"
	"verifharness/peer"
	"verifharness/wire"
)

// A minimal HPKE (RFC 9180) base-mode sender for DHKEM(X25519, HKDF-SHA256) /
// HKDF-SHA256 / {AES-128-GCM, AES-256-GCM, ChaCha20-Poly1305}: the harness' own
// implementation, used only to *produce* hostile ECH payloads a server can decrypt.

func hpkeLabeledExtract(suiteID, salt []byte, label string, ikm []byte) []byte {
	in := append([]byte("HPKE-v1"), suiteID...)
	in = append(in, label...)
	in = append(in, ikm...)
	return hkdf.Extract(sha256.New, in, salt)
}

func hpkeLabeledExpand(suiteID, prk []byte, label string, info []byte, l int) []byte {
	in := append([]byte{byte(l >> 8), byte(l)}, "HPKE-v1"...)
	in = append(in, suiteID...)
	in = append(in, label...)
	in = append(in, info...)
	out := make([]byte, l)
	io.ReadFull(hkdf.Expand(sha256.New, prk, in), out)
	return out
}

var _ = hmac.New

// encodeInner renders an EncodedClientHelloInner: ClientHello fields with an empty
// legacy_session_id, then pad zero bytes.
func encodeInner(ch *wire.ClientHello, exts []wire.Ext, sessionID []byte, pad []byte) []byte {
	c := *ch
	c.SessionID = sessionID
	m := marshalCH(&c, exts, true)
	return append(m[4:], pad...)
}

// echOuterBody is the body of an outer encrypted_client_hello extension.
func echOuterBody(aead uint16, cfgID byte, enc, payload []byte) []byte {
	b := append([]byte{0}, u16be(1, aead)...)
	b = append(b, cfgID)
	b = append(b, vec16(enc)...)
	return append(b, vec16(payload)...)
}

type innerVariant struct {
	name string
	// build returns the encoded inner hello and the outer extension list to use
	build func(rg *mrand.Rand, inner *wire.ClientHello, innerExts, outerExts []wire.Ext) (encoded []byte, outer []wire.Ext)
}

func replaceSNI(exts []wire.Ext, name string) []wire.Ext {
	body := vec16(append([]byte{0}, vec16([]byte(name))...))
	return setExt(exts, wire.ExtSNI, body)
}

func withoutExt(exts []wire.Ext, t uint16) []wire.Ext {
	var out []wire.Ext
	for _, e := range exts {
		if e.Type != t {
			out = append(out, e)
		}
	}
	return out
}

func outerRefs(types ...uint16) wire.Ext {
	return wire.Ext{Type: wire.ExtECHOuterExts, Data: vec8(u16be(types...))}
}

var innerVariants = []innerVariant{
	{"valid", func(rg *mrand.Rand, in *wire.ClientHello, ie, oe []wire.Ext) ([]byte, []wire.Ext) {
		return encodeInner(in, ie, nil, make([]byte, rg.Intn(64))), oe
	}},
	{"valid_compressed", func(rg *mrand.Rand, in *wire.ClientHello, ie, oe []wire.Ext) ([]byte, []wire.Ext) {
		// reference key_share / supported_groups / sig_algs from the outer hello, in outer order
		var refs []uint16
		var kept []wire.Ext
		compress := map[uint16]bool{wire.ExtKeyShare: true, wire.ExtSupportedGroups: true, wire.ExtSigAlgs: true}
		for _, e := range oe {
			if compress[e.Type] {
				refs = append(refs, e.Type)
			}
		}
		placed := false
		for _, e := range ie {
			if compress[e.Type] {
				if !placed {
					kept = append(kept, outerRefs(refs...))
					placed = true
				}
				continue
			}
			kept = append(kept, e)
		}
		return encodeInner(in, kept, nil, nil), oe
	}},
	{"no_inner_marker", func(rg *mrand.Rand, in *wire.ClientHello, ie, oe []wire.Ext) ([]byte, []wire.Ext) {
		return encodeInner(in, withoutExt(ie, wire.ExtECH), nil, nil), oe
	}},
	{"inner_marker_is_outer_form", func(rg *mrand.Rand, in *wire.ClientHello, ie, oe []wire.Ext) ([]byte, []wire.Ext) {
		return encodeInner(in, setExt(cloneExts(ie), wire.ExtECH, echOuterBody(1, 9, randBytes(rg, 32), randBytes(rg, 40))), nil, nil), oe
	}},
	{"inner_marker_garbage", func(rg *mrand.Rand, in *wire.ClientHello, ie, oe []wire.Ext) ([]byte, []wire.Ext) {
		return encodeInner(in, setExt(cloneExts(ie), wire.ExtECH, [][]byte{nil, {0}, {2}, {1, 0}, randBytes(rg, 9)}[rg.Intn(5)]), nil, nil), oe
	}},
	{"nonempty_session_id", func(rg *mrand.Rand, in *wire.ClientHello, ie, oe []wire.Ext) ([]byte, []wire.Ext) {
		return encodeInner(in, ie, randBytes(rg, 1+rg.Intn(32)), nil), oe
	}},
	{"nonzero_padding", func(rg *mrand.Rand, in *wire.ClientHello, ie, oe []wire.Ext) ([]byte, []wire.Ext) {
		p := make([]byte, 1+rg.Intn(40))
		p[rg.Intn(len(p))] = byte(1 + rg.Intn(255))
		return encodeInner(in, ie, nil, p), oe
	}},
	{"outer_refs_hostile", func(rg *mrand.Rand, in *wire.ClientHello, ie, oe []wire.Ext) ([]byte, []wire.Ext) {
		var ref wire.Ext
		var types []uint16
		for _, e := range oe {
			types = append(types, e.Type)
		}
		switch rg.Intn(9) {
		case 0:
			ref = outerRefs(0x7777) // not in the outer hello
		case 1:
			ref = outerRefs(wire.ExtECH)
		case 2:
			ref = outerRefs(wire.ExtKeyShare, wire.ExtKeyShare, wire.ExtKeyShare)
		case 3: // reversed order
			var rev []uint16
			for i := len(types) - 1; i >= 0; i-- {
				if types[i] != wire.ExtECH {
					rev = append(rev, types[i])
				}
			}
			ref = outerRefs(rev...)
		case 4:
			ref = outerRefs()
		case 5:
			ref = wire.Ext{Type: wire.ExtECHOuterExts, Data: []byte{3, 0, 51, 0}} // odd length
		case 6:
			ref = wire.Ext{Type: wire.ExtECHOuterExts, Data: nil}
		case 7: // everything, twice
			var all []uint16
			for _, t := range types {
				if t != wire.ExtECH {
					all = append(all, t, t)
				}
			}
			if len(all) > 127 {
				all = all[:127]
			}
			ref = outerRefs(all...)
		case 8:
			ref = outerRefs(wire.ExtECHOuterExts)
		}
		ex := append(cloneExts(ie), ref)
		if rg.Intn(2) == 0 {
			ex = append([]wire.Ext{ref}, cloneExts(ie)...)
		}
		if rg.Intn(4) == 0 {
			ex = append(ex, ref) // two ech_outer_extensions
		}
		return encodeInner(in, ex, nil, nil), oe
	}},
	{"outer_refs_amplification", func(rg *mrand.Rand, in *wire.ClientHello, ie, oe []wire.Ext) ([]byte, []wire.Ext) {
		big := wire.Ext{Type: 0x7a7a, Data: make([]byte, []int{1000, 16000, 50000}[rg.Intn(3)])}
		o2 := append([]wire.Ext{big}, cloneExts(oe)...)
		var refs []uint16
		for i := 0; i < 1+rg.Intn(127); i++ {
			refs = append(refs, 0x7a7a)
		}
		return encodeInner(in, append(cloneExts(ie), outerRefs(refs...)), nil, nil), o2
	}},
	{"inner_tls12_only", func(rg *mrand.Rand, in *wire.ClientHello, ie, oe []wire.Ext) ([]byte, []wire.Ext) {
		ex := setExt(cloneExts(ie), wire.ExtSupportedVersions, vec8(u16be(0x0303)))
		if rg.Intn(2) == 0 {
			ex = setExt(cloneExts(ie), wire.ExtSupportedVersions, vec8(u16be(0x0304, 0x0303)))
		}
		return encodeInner(in, ex, nil, nil), oe
	}},
	{"inner_mutated", func(rg *mrand.Rand, in *wire.ClientHello, ie, oe []wire.Ext) ([]byte, []wire.Ext) {
		b := encodeInner(in, ie, nil, nil)
		for k := 1 + rg.Intn(3); k > 0; k-- {
			b = mutateBytes(rg, b)
		}
		return b, oe
	}},
	{"inner_truncated", func(rg *mrand.Rand, in *wire.ClientHello, ie, oe []wire.Ext) ([]byte, []wire.Ext) {
		b := encodeInner(in, ie, nil, nil)
		return b[:rg.Intn(len(b))], oe
	}},
	{"inner_random", func(rg *mrand.Rand, in *wire.ClientHello, ie, oe []wire.Ext) ([]byte, []wire.Ext) {
		return randBytes(rg, rg.Intn(600)), oe
	}},
	{"inner_ext_mutation", func(rg *mrand.Rand, in *wire.ClientHello, ie, oe []wire.Ext) ([]byte, []wire.Ext) {
		c := *in
		c.Exts = ie
		cm := chMutations[rg.Intn(len(chMutations))]
		m := cm.f(rg, &c, -1)
		if m == nil {
			return encodeInner(in, ie, nil, nil), oe
		}
		ch2, err := wire.ParseClientHello(m)
		if err != nil || rg.Intn(2) == 0 {
			// keep the mutated bytes as they are (minus header), session id and all
			return m[4:], oe
		}
		return encodeInner(ch2, setExt(cloneExts(ch2.Exts), wire.ExtECH, []byte{1}), nil, nil), oe
	}},
}

// c34ECHInner: workload D.
func c34ECHInner(r *mon.Run, servers []c34Server, pts []c34Probed, evaluate func(id string, res c34Result, sig map[string]string) string) {
	var echSv *c34Server
	for i := range servers {
		if servers[i].ech != nil {
			echSv = &servers[i]
		}
	}
	if echSv == nil {
		return
	}
	key := echSv.ech
	// only TLS 1.3 capable hellos can be inner hellos
	var base []*wire.ClientHello
	var names []string
	for _, p := range pts {
		if len(p.ch.Versions) > 0 && p.ch.Has(wire.ExtKeyShare) && !p.ch.Has(wire.ExtPreSharedKey) {
			base = append(base, p.ch)
			names = append(names, p.tg.Name)
		}
	}
	if len(base) == 0 {
		return
	}
	n := mon.Pick(6000, 200000)
	var decrypted atomic.Int64
	parallelW(n, func(w, k int) {
		if hangsSeen.Load() >= 5 {
			return
		}
		rg := Sub("C34ech", k)
		bi := rg.Intn(len(base))
		ch := base[bi]
		v := innerVariants[rg.Intn(len(innerVariants))]
		if k < 200 {
			v = innerVariants[k%2] // make sure the valid forms are exercised (floor)
		}
		aead := key.AEADs[rg.Intn(len(key.AEADs))]
		// inner: secret name, inner marker, TLS 1.3 only
		ie := replaceSNI(withoutExt(cloneExts(ch.Exts), wire.ExtECH), "secret.example.test")
		ie = setExt(ie, wire.ExtSupportedVersions, vec8(u16be(0x0304)))
		ie = append(ie, wire.Ext{Type: wire.ExtECH, Data: []byte{1}})
		oe := replaceSNI(withoutExt(cloneExts(ch.Exts), wire.ExtECH), key.PublicName)
		inner := *ch
		inner.Random = randBytes(rg, 32)
		encoded, oe := v.build(rg, &inner, ie, oe)
		info := append([]byte("tls ech\x00"), key.Config...)
		// AAD: outer hello with a zero payload of the final length
		zero := make([]byte, len(encoded)+16)
		encPub := key.Priv.PublicKey().Bytes()
		// need enc before computing AAD: seal twice is not possible (fresh ephemeral key), so
		// derive enc first with a dry run of the KEM inside hpkeSeal: do it by sealing with
		// a placeholder AAD, then redo with the same ephemeral key is not exposed; instead
		// compute AAD using the enc returned and seal again deterministically is impossible.
		// => hpkeSealWithAAD computes the AAD from enc through a callback.
		enc, ct, err := hpkeSealCB(encPub, aead, info, encoded, func(enc []byte) []byte {
			outerExts := append(cloneExts(oe), wire.Ext{Type: wire.ExtECH, Data: echOuterBody(aead, key.ConfigID, enc, zero)})
			return marshalCH(ch, outerExts, true)[4:]
		})
		if err != nil {
			return
		}
		if rg.Intn(25) == 0 {
			ct[rg.Intn(len(ct))] ^= 1 // decryption failure: the server must fall back to the outer hello
		}
		outerExts := append(cloneExts(oe), wire.Ext{Type: wire.ExtECH, Data: echOuterBody(aead, key.ConfigID, enc, ct)})
		msg := marshalCH(ch, outerExts, true)
		sv := *echSv
		baseCfg := sv.cfg
		sv.cfg = func() *tls.Config {
			c := baseCfg()
			c.GetConfigForClient = func(chi *tls.ClientHelloInfo) (*tls.Config, error) {
				if chi.ServerName == "secret.example.test" {
					decrypted.Add(1)
				}
				return nil, nil
			}
			return c
		}
		id := fmt.Sprintf("ech-inner|%s|%s|aead%d|%d", names[bi], v.name, aead, k)
		mon.JournalSlot(fmt.Sprintf("w%02d", w), id)
		pname, p2 := secondPhase(rg)
		phases := [][]byte{frameMsg(rg, msg, 0)}
		if p2 != nil {
			phases = append(phases, p2)
		}
		res := c34Scripted(sv, ch, phases, false)
		sig := map[string]string{"server": "ech", "target": family(names[bi]), "workload": "ech-inner", "mutation": v.name, "then": pname}
		class := evaluate(id, res, sig)
		r.Count("ech_inner_cases", 1)
		r.Count("ech_inner_"+v.name, 1)
		r.Case(fmt.Sprintf("D|%s|%s|%d|%s", family(names[bi]), v.name, aead, class), true)
		if k%1499 == 0 {
			r.Sample(map[string]any{"case": id, "outcome": class, "server_err": fmt.Sprint(res.serverErr), "encoded_inner_prefix": mon.Hex(encoded[:min(len(encoded), 48)])})
		}
	})
	r.Count("ech_inner_decrypted_by_server", decrypted.Load())
}

// hpkeSealCB is hpkeSeal with the AAD computed from the encapsulated key.
func hpkeSealCB(pkR []byte, aeadID uint16, info, pt []byte, aadOf func(enc []byte) []byte) (enc, ct []byte, err error) {
	pub, err := ecdh.X25519().NewPublicKey(pkR)
	if err != nil {
		return nil, nil, err
	}
	skE, err := ecdh.X25519().GenerateKey(rand.Reader)
	if err != nil {
		return nil, nil, err
	}
	dh, err := skE.ECDH(pub)
	if err != nil {
		return nil, nil, err
	}
	enc = skE.PublicKey().Bytes()
	kemSuite := append([]byte("KEM"), 0x00, 0x20)
	eaePRK := hpkeLabeledExtract(kemSuite, nil, "eae_prk", dh)
	shared := hpkeLabeledExpand(kemSuite, eaePRK, "shared_secret", append(append([]byte(nil), enc...), pkR...), 32)
	suite := append([]byte("HPKE"), 0x00, 0x20, 0x00, 0x01, byte(aeadID>>8), byte(aeadID))
	pskIDHash := hpkeLabeledExtract(suite, nil, "psk_id_hash", nil)
	infoHash := hpkeLabeledExtract(suite, nil, "info_hash", info)
	ksc := append(append([]byte{0}, pskIDHash...), infoHash...)
	secret := hpkeLabeledExtract(suite, shared, "secret", nil)
	nk := map[uint16]int{1: 16, 2: 32, 3: 32}[aeadID]
	if nk == 0 {
		return nil, nil, fmt.Errorf("aead %d", aeadID)
	}
	k := hpkeLabeledExpand(suite, secret, "key", ksc, nk)
	nonce := hpkeLabeledExpand(suite, secret, "base_nonce", ksc, 12)
	var a cipher.AEAD
	switch aeadID {
	case 1, 2:
		blk, e := aes.NewCipher(k)
		if e != nil {
			return nil, nil, e
		}
		a, err = cipher.NewGCM(blk)
	case 3:
		a, err = chacha20poly1305.New(k)
	}
	if err != nil {
		return nil, nil, err
	}
	return enc, a.Seal(nil, nonce, pt, aadOf(enc)), nil
}

var _ = peer.IODeadline
