package props

import (
	"bytes"
	"fmt"
	"testing"

	tls "github.com/refraction-networking/utls"
	"verifharness/mon"
	"verifharness/peer"
	"verifharness/wire"
)

// renegNever is a documented extension edit: keep renegotiation_info on the wire but
// disable renegotiation, so that exporters are available to parrots.
func renegNever(u *tls.UConn) error {
	for _, e := range u.Extensions {
		if ri, ok := e.(*tls.RenegotiationInfoExtension); ok {
			ri.Renegotiation = tls.RenegotiateNever
		}
	}
	return nil
}

// compareStates is the C11 oracle for one successful handshake.
func compareStates(r *mon.Run, h *peer.HS, label map[string]string, rep map[string]any, rgSeed int) {
	viol := func(kind, what string) {
		s := map[string]string{"kind": kind}
		for k, v := range label {
			s[k] = v
		}
		r.Violation(s, what, rep)
	}
	c, s := h.CState, h.SState
	if c.Version != s.Version {
		viol("version_disagree", fmt.Sprintf("client %#04x server %#04x", c.Version, s.Version))
	}
	if c.CipherSuite != s.CipherSuite {
		viol("suite_disagree", fmt.Sprintf("client %#04x server %#04x", c.CipherSuite, s.CipherSuite))
	}
	if c.NegotiatedProtocol != s.NegotiatedProtocol {
		viol("alpn_disagree", fmt.Sprintf("client %q server %q", c.NegotiatedProtocol, s.NegotiatedProtocol))
	}
	if c.DidResume != s.DidResume {
		viol("didresume_disagree", fmt.Sprintf("client %v server %v", c.DidResume, s.DidResume))
	}
	if c.ECHAccepted != s.ECHAccepted {
		viol("ech_disagree", fmt.Sprintf("client %v server %v", c.ECHAccepted, s.ECHAccepted))
	}
	cg, ok1 := stateCurve(c)
	sg, ok2 := stateCurve(s)
	if !ok1 || !ok2 {
		r.Count("curve_not_readable", 1)
	} else if cg != sg {
		viol("curve_disagree", fmt.Sprintf("client %#04x server %#04x", cg, sg))
	}
	// server name: the SNI actually sent (last ClientHello on the wire), empty if none
	hs := wire.ClientHellos(h.C2S)
	wireSNI := ""
	if len(hs) > 0 {
		if ch, err := wire.ParseClientHello(hs[len(hs)-1]); err == nil && ch.SNI != nil {
			wireSNI = *ch.SNI
		}
	}
	if !c.ECHAccepted {
		if s.ServerName != wireSNI {
			viol("server_sni_differs_from_wire", fmt.Sprintf("server reports %q, wire SNI %q", s.ServerName, wireSNI))
		}
		if c.ServerName != wireSNI {
			viol("client_servername_differs_from_wire", fmt.Sprintf("client ConnectionState.ServerName %q, SNI actually sent %q", c.ServerName, wireSNI))
		}
	} else if c.ServerName != s.ServerName {
		viol("servername_disagree", fmt.Sprintf("client %q server %q", c.ServerName, s.ServerName))
	}
	// exporters
	rg := Sub("C11ekm", rgSeed)
	for k := 0; k < 16; k++ {
		lbl := fmt.Sprintf("EXPORTER-verif-%x", rg.Int31())
		var ctx []byte
		switch rg.Intn(3) {
		case 0:
			ctx = nil
		case 1:
			ctx = []byte{}
		default:
			ctx = randBytes(rg, 1+rg.Intn(64))
		}
		n := []int{0, 1, 16, 32, 64, 255, 1024}[rg.Intn(7)]
		ce, cerr := c.ExportKeyingMaterial(lbl, ctx, n)
		se, serr := s.ExportKeyingMaterial(lbl, ctx, n)
		switch {
		case cerr == nil && serr == nil:
			r.Count("exporters_compared", 1)
			if !bytes.Equal(ce, se) || len(ce) != n {
				viol("exporter_disagree", fmt.Sprintf("ExportKeyingMaterial(%q, ctx %d bytes, %d) differs between client and server", lbl, len(ctx), n))
				return
			}
		case cerr != nil && serr != nil:
			r.Count("exporters_refused_both", 1)
		default:
			// one-sided refusal is the documented renegotiation / EMS case: must be an error, never bytes
			r.Count("exporters_refused_one_side", 1)
		}
	}
}

// C11 — Client and server agree on every negotiated parameter and exported key.
func TestC11(t *testing.T) {
	r := mon.New("C11", "successful handshakes of the C10 grid (parrots, Golang, randomized, fingerprinted, custom; version/group/suite/ALPN/cert sweeps), half of them with renegotiation disabled through a documented extension edit, plus resumed connections over a shared cache, RemoveSNIExtension/IP-literal name cases, and accepted ECH offers (three AEADs, directly and after a HelloRetryRequest, fresh and over a shared session cache): both ConnectionStates compared field by field (curve via reflection), ServerName against the SNI parsed from the wire, and ExportKeyingMaterial for 16 random (label, context, length) triples. distinct = (target family, dimension, value, resumed)")
	defer r.Finish(t)
	var targets []Target
	targets = append(targets, ParrotTargets(true)...)
	for i := 0; i < mon.Pick(40, 5000); i++ {
		targets = append(targets, RandomizedTarget(i))
	}
	for i := 0; i < mon.Pick(60, 10000); i++ {
		targets = append(targets, CustomTarget(i))
	}
	// hellos that carry an encrypted_client_hello extension of type "inner" in the clear (a spec
	// can say so; nothing is encrypted): no ECH is negotiated, both sides must say so
	for _, pn := range []string{"Firefox_105", "Chrome_102", "Chrome_120", "Safari_16_0"} {
		p := ParrotByName(pn)
		targets = append(targets, Target{Name: p.Name + "+ech-inner-marker", Spec: func() (*tls.ClientHelloSpec, error) {
			sp, err := tls.UTLSIdToSpec(p.ID)
			if err != nil {
				return nil, err
			}
			var exts []tls.TLSExtension
			for _, e := range sp.Extensions {
				if _, ok := e.(tls.EncryptedClientHelloExtension); ok {
					continue
				}
				exts = append(exts, e)
			}
			// before a trailing padding / pre_shared_key extension
			at := len(exts)
			for at > 0 {
				switch exts[at-1].(type) {
				case *tls.UtlsPaddingExtension, tls.PreSharedKeyExtension:
					at--
					continue
				}
				break
			}
			exts = append(exts[:at], append([]tls.TLSExtension{&tls.GenericExtension{Id: 0xfe0d, Data: []byte{1}}}, exts[at:]...)...)
			sp.Extensions = exts
			return &sp, nil
		}})
	}
	type job struct {
		t     Target
		gc    GridCase
		reneg bool
		sni   string
		noSNI bool
	}
	var jobs []job
	for ti, tg := range targets {
		ch, err := tg.Probe("example.test")
		if err != nil {
			continue
		}
		o := OfferOf(ch, targetMinVersion(tg))
		for gi, gc := range GridFor(o, mon.Thorough(), Sub("C11grid", ti)) {
			if !mon.Thorough() && gi%2 == 1 && ti > 5 {
				continue
			}
			j := job{t: tg, gc: gc, reneg: (ti+gi)%2 == 0, sni: "example.test"}
			jobs = append(jobs, j)
		}
		// name shapes
		base := GridCase{Dim: "name", Val: "ip", Server: peer.ServerConfig(), WantHRR: -1}
		jobs = append(jobs, job{t: tg, gc: base, reneg: true, sni: "192.0.2.33"})
		// names as callers write them: mixed case, trailing dot (both sides report what was sent)
		jobs = append(jobs, job{t: tg, gc: GridCase{Dim: "name", Val: "mixed-case", Server: peer.ServerConfig(), WantHRR: -1}, reneg: ti%2 == 0, sni: "Mixed.Example.TEST"})
		jobs = append(jobs, job{t: tg, gc: GridCase{Dim: "name", Val: "trailing-dot", Server: peer.ServerConfig(), WantHRR: -1}, reneg: ti%2 == 1, sni: "www.example.test."})
		if tg.ID.Client != tls.HelloGolang.Client || tg.Spec != nil {
			jobs = append(jobs, job{t: tg, gc: GridCase{Dim: "name", Val: "removed-sni", Server: peer.ServerConfig(), WantHRR: -1}, reneg: true, sni: "example.test", noSNI: true})
		}
	}
	r.Count("planned_cases", int64(len(jobs)))
	parallel(len(jobs), func(i int) {
		j := jobs[i]
		tg := j.t
		if j.reneg && tg.ID.Client != tls.HelloGolang.Client {
			tg.Edit = renegNever
		}
		if j.noSNI {
			prev := tg.Edit
			inner := tg
			inner.Edit = nil
			_ = inner
			tg.Edit = prev
		}
		extra := func(cfg *tls.Config) {
			if j.sni == "192.0.2.33" {
				cfg.InsecureSkipVerify = true
			}
		}
		opts := peer.Opts{}
		var h *peer.HS
		if j.noSNI {
			// RemoveSNIExtension must be called before the hello is built
			ccfg := peer.ClientConfig(j.sni)
			ccfg.OmitEmptyPsk = true
			prep := tg.Prepare()
			opts.Prepare = func(u *tls.UConn) error {
				if err := u.RemoveSNIExtension(); err != nil {
					return err
				}
				return prep(u)
			}
			h = peer.Run(ccfg, tg.ClientID(), j.gc.Server, opts)
		} else {
			h = RunCase(tg, j.gc, j.sni, extra, opts)
		}
		label := map[string]string{"target": family(j.t.Name), "dim": j.gc.Dim, "val": j.gc.Val}
		rep := map[string]any{"case": i, "target": j.t.Name, "dim": j.gc.Dim, "val": j.gc.Val, "sni": j.sni}
		if !h.OK() {
			r.Case(fmt.Sprintf("%s|%s|%s|failed", family(j.t.Name), j.gc.Dim, j.gc.Val), false)
			r.Count("handshake_failed", 1)
			return
		}
		r.Count("compared", 1)
		compareStates(r, h, label, rep, i)
		r.Case(fmt.Sprintf("%s|%s|%s|fresh", family(j.t.Name), j.gc.Dim, j.gc.Val), true)
		if i%301 == 0 {
			r.Sample(map[string]any{"target": j.t.Name, "dim": j.gc.Dim, "val": j.gc.Val, "version": fmt.Sprintf("%#04x", h.CState.Version), "suite": fmt.Sprintf("%#04x", h.CState.CipherSuite), "alpn": h.CState.NegotiatedProtocol, "server_name": h.SState.ServerName})
		}
	})
	// resumed connections
	var resumed int64
	for ti, tg := range targets {
		if !mon.Thorough() && ti%2 == 1 && ti > len(AllParrots) {
			continue
		}
		for _, maxv := range []uint16{tls.VersionTLS12, tls.VersionTLS13} {
			cache := tls.NewLRUClientSessionCache(4)
			scfg := peer.ServerConfig()
			scfg.MaxVersion = maxv
			for round := 0; round < 2; round++ {
				t2 := tg
				if tg.ID.Client != tls.HelloGolang.Client {
					t2.Edit = renegNever
				}
				h := RunCase(t2, GridCase{Server: scfg}, "example.test", func(c *tls.Config) { c.ClientSessionCache = cache }, peer.Opts{})
				if !h.OK() {
					break
				}
				if round == 1 {
					label := map[string]string{"target": family(tg.Name), "dim": "resumed", "val": fmt.Sprintf("%04x", maxv)}
					compareStates(r, h, label, map[string]any{"target": tg.Name, "resumed_round": round, "server_max": maxv}, ti*10+round)
					if h.CState.DidResume && h.SState.DidResume {
						resumed++
					}
					r.Case(fmt.Sprintf("%s|resumed|%04x|%v", family(tg.Name), maxv, h.CState.DidResume), true)
				}
			}
		}
	}
	r.Count("resumed_compared", resumed)
	// a session the server has to DECLINE: established by a spec without
	// extended_master_secret, offered by the same preset with the extension (specs that
	// change between connections over one cache): the full handshake that follows is not a
	// resumption for either side
	{
		var declined int64
		for ti, tg := range targets {
			if tg.ID.Client == tls.HelloGolang.Client || tg.Spec != nil || tg.Pre != nil || ti > len(AllParrots) {
				continue
			}
			if !specHas(tg, func(e tls.TLSExtension) bool { _, ok := e.(*tls.ExtendedMasterSecretExtension); return ok }) ||
				!specHas(tg, func(e tls.TLSExtension) bool { _, ok := e.(*tls.SessionTicketExtension); return ok }) {
				continue
			}
			id := tg.ID
			noEMS := Target{Name: tg.Name + "-ems", Spec: func() (*tls.ClientHelloSpec, error) {
				sp, err := tls.UTLSIdToSpec(id)
				if err != nil {
					return nil, err
				}
				var keep []tls.TLSExtension
				for _, e := range sp.Extensions {
					if _, ok := e.(*tls.ExtendedMasterSecretExtension); !ok {
						keep = append(keep, e)
					}
				}
				sp.Extensions = keep
				return &sp, nil
			}}
			cache := tls.NewLRUClientSessionCache(4)
			scfg := peer.ServerConfig()
			scfg.MaxVersion = tls.VersionTLS12
			withCache := func(c *tls.Config) { c.ClientSessionCache = cache }
			if h0 := RunCase(noEMS, GridCase{Server: scfg}, "example.test", withCache, peer.Opts{}); !h0.OK() {
				continue
			}
			h := RunCase(tg, GridCase{Server: scfg}, "example.test", withCache, peer.Opts{})
			if !h.OK() {
				continue
			}
			label := map[string]string{"target": family(tg.Name), "dim": "declined-resumption", "val": "ems-mismatch"}
			compareStates(r, h, label, map[string]any{"target": tg.Name}, ti*10+7)
			if !h.CState.DidResume && !h.SState.DidResume {
				declined++
			}
			r.Case(fmt.Sprintf("%s|declined-resumption|%v|%v", family(tg.Name), h.CState.DidResume, h.SState.DidResume), true)
		}
		r.Count("declined_resumptions_compared", declined)
		r.Floor("declined_resumptions_compared", 10)
	}

	// ECH: accepted offers (directly / after a HelloRetryRequest), fresh and resumed
	{
		f := peer.Fix()
		type ej struct {
			t    Target
			aead uint16
			hrr  bool
		}
		var ejobs []ej
		for _, tg := range echCapableTargets() {
			for _, aead := range []uint16{1, 2, 3} {
				for _, hrr := range []bool{false, true} {
					for k := 0; k < mon.Pick(2, 40); k++ {
						ejobs = append(ejobs, ej{tg, aead, hrr})
					}
				}
			}
		}
		parallel(len(ejobs), func(i int) {
			j := ejobs[i]
			rg := Sub("C11ech", i)
			secret := fmt.Sprintf("inner-%x.example.test", rg.Int63())
			public := "public.example.test"
			leaf := f.CA.Leaf(peer.LeafOpts{Kind: "ecdsa", Names: []string{secret, public}})
			key := peer.NewECHKey(uint8(rg.Intn(256)), public, []uint16{j.aead}, []uint8{0, 16, 64, 255}[rg.Intn(4)])
			scfg := peer.ServerConfig()
			scfg.Certificates = []tls.Certificate{leaf}
			scfg.NextProtos = []string{"h2", "http/1.1"}
			scfg.EncryptedClientHelloKeys = peer.ECHServerKeys(true, key)
			if j.hrr {
				probe, err := j.t.Probe("example.test")
				if err != nil {
					return
				}
				g := hrrGroupFor(probe)
				if g == 0 {
					g = tls.CurveP384
				}
				scfg.CurvePreferences = []tls.CurveID{g}
			}
			cache := tls.NewLRUClientSessionCache(4)
			// Config.ServerName as callers write it: the plain name, or with the trailing dot of
			// an absolute name (the name sent - and reported by the server - is the plain one)
			cfgName := secret
			if i%3 == 2 {
				cfgName = secret + "."
			}
			for round := 0; round < 2; round++ {
				h := RunCase(j.t, GridCase{Server: scfg}, cfgName, func(c *tls.Config) {
					c.EncryptedClientHelloConfigList = peer.ECHConfigList(key)
					c.NextProtos = []string{"h2", "http/1.1"}
					c.ClientSessionCache = cache
				}, peer.Opts{})
				val := fmt.Sprintf("aead%d/hrr=%v/round%d", j.aead, j.hrr, round)
				if !h.OK() {
					r.Count("ech_handshake_failed", 1)
					r.Case(fmt.Sprintf("%s|ech|%s|failed", family(j.t.Name), val), false)
					return
				}
				label := map[string]string{"target": family(j.t.Name), "dim": "ech", "val": val}
				compareStates(r, h, label, map[string]any{"target": j.t.Name, "ech": val, "secret": secret}, 5000+i*2+round)
				if h.CState.ECHAccepted && h.SState.ECHAccepted {
					r.Count("ech_accepted_compared", 1)
					if h.CState.ServerName != secret {
						r.Violation(map[string]string{"kind": "ech_server_name", "target": family(j.t.Name)}, fmt.Sprintf("%s: ECH accepted but ConnectionState.ServerName is %q, not the inner name %q", j.t.Name, h.CState.ServerName, secret), nil)
					}
					if h.CState.DidResume && h.SState.DidResume {
						r.Count("ech_resumed_compared", 1)
					}
				}
				r.Case(fmt.Sprintf("%s|ech|%s|accepted=%v|resumed=%v", family(j.t.Name), val, h.CState.ECHAccepted, h.CState.DidResume), true)
			}
		})
		r.Floor("ech_accepted_compared", int64(mon.Pick(40, 800)))
	}
	r.Floor("compared", 500)
	r.Floor("exporters_compared", 2000)
	r.Floor("resumed_compared", 20)
}
