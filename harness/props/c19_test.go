package props

import (
	"sync/atomic"
	"bytes"
	"fmt"
	"strings"
	"sync"
	"testing"
	"time"

	tls "github.com/refraction-networking/utls"
	"verifharness/mon"
	"verifharness/peer"
	"verifharness/wire"
)

type resConn struct {
	target Target
	sni    string
	clock  time.Duration // offset added to the logical clock
	before func()        // runs right before this connection (e.g. the server rotates its ticket keys)
	// insecure: Config.InsecureSkipVerify (the caller does not authenticate the server; which
	// sessions go to which name is still the library's business)
	insecure bool
}

// runHistory drives connections over one shared cache against one server config.
func runHistory(conns []resConn, scfg *tls.Config, cache tls.ClientSessionCache) []*peer.HS {
	var out []*peer.HS
	for _, c := range conns {
		off := c.clock
		if c.before != nil {
			c.before()
		}
		h := RunCase(c.target, GridCase{Server: scfg}, c.sni, func(cc *tls.Config) {
			cc.ClientSessionCache = cache
			cc.Time = func() time.Time { return peer.Now.Add(off) }
			if c.insecure {
				cc.InsecureSkipVerify = true
			}
		}, peer.Opts{})
		out = append(out, h)
	}
	return out
}

func specHas(tg Target, f func(e tls.TLSExtension) bool) bool {
	var spec tls.ClientHelloSpec
	if tg.Spec != nil {
		s, err := tg.Spec()
		if err != nil {
			return false
		}
		spec = *s
	} else {
		s, err := tls.UTLSIdToSpec(tg.ID)
		if err != nil {
			return false
		}
		spec = s
	}
	for _, e := range spec.Extensions {
		if f(e) {
			return true
		}
	}
	return false
}

// C19 — Session resumption works and never breaks the next handshake.
func TestC19(t *testing.T) {
	r := mon.New("C19", "histories of 2..5 connections over one ClientSessionCache x targets (parrots incl. the PSK parrots, Golang, seeded randomized specs mixed Roller-style) x servers {TLS 1.2, TLS 1.3, TLS 1.3 answering with HelloRetryRequest} x server names x logical clock steps (ticket expiry): same-target follow-up connections must resume on both sides; pre_shared_key last with consistent lengths (strict parser) and a binder the server accepts; over mixed specs no handshake may fail because of the offered session; a ticket obtained for one server name never appears on the wire for another; an expired ticket is not offered or is declined without failing. distinct = (target family, server, history shape, outcome)")
	defer r.Finish(t)
	hasTicket := func(tg Target) bool {
		if tg.ID.Client == tls.HelloGolang.Client && tg.Spec == nil {
			return true
		}
		return specHas(tg, func(e tls.TLSExtension) bool { _, ok := e.(*tls.SessionTicketExtension); return ok })
	}
	hasPSK := func(tg Target) bool {
		if tg.ID.Client == tls.HelloGolang.Client && tg.Spec == nil {
			return true
		}
		return specHas(tg, func(e tls.TLSExtension) bool {
			switch e.(type) {
			case *tls.UtlsPreSharedKeyExtension:
				return true
			}
			return false
		})
	}
	targets := ParrotTargets(true)
	type job struct {
		t      Target
		server string // tls12, tls13, tls13-hrr
	}
	var jobs []job
	for _, tg := range targets {
		for _, sv := range []string{"tls12", "tls13", "tls13-hrr", "tls11"} {
			jobs = append(jobs, job{tg, sv})
		}
	}
	var mu sync.Mutex
	resumedBy := map[string]int{}
	parallel(len(jobs), func(i int) {
		j := jobs[i]
		probe, err := j.t.Probe("example.test")
		if err != nil {
			return
		}
		o := OfferOf(probe, targetMinVersion(j.t))
		scfg := peer.ServerConfig()
		switch j.server {
		case "tls11":
			// RFC 5077 tickets are not tied to TLS 1.2: presets that still offer TLS 1.1
			if !o.Has(tls.VersionTLS11) || len(o.Suites12) == 0 {
				return
			}
			scfg.MaxVersion = tls.VersionTLS11
		case "tls12":
			if !o.Has(tls.VersionTLS12) || len(o.Suites12) == 0 {
				return
			}
			scfg.MaxVersion = tls.VersionTLS12
		default:
			if !o.Has(tls.VersionTLS13) || len(o.Suites13) == 0 {
				return
			}
			if j.server == "tls13-hrr" {
				g := hrrGroupFor(probe)
				if g == 0 {
					return
				}
				scfg.CurvePreferences = []tls.CurveID{g}
			}
		}
		var unwrapped int
		scfg.UnwrapSession = func(identity []byte, cs tls.ConnectionState) (*tls.SessionState, error) {
			unwrapped++
			return scfg.DecryptTicket(identity, cs)
		}
		cache := tls.NewLRUClientSessionCache(8)
		// the third connection inspects and edits the hello before the handshake
		// (BuildHandshakeState, SetClientRandom, Handshake): a documented use that must not break resumption
		edited := j.t
		if j.t.ID.Client != tls.HelloGolang.Client {
			edited.Edit = func(u *tls.UConn) error { return u.SetClientRandom(bytes.Repeat([]byte{0x5a}, 32)) }
		}
		// the fifth first looks at the hello through BuildHandshakeStateWithoutSession and then
		// just handshakes; the sixth does both
		inspected := j.t
		both := edited
		if j.t.ID.Client != tls.HelloGolang.Client {
			inspected.InspectFirst = true
			both.InspectFirst = true
		}
		// "the same server name": also in the spellings a caller may use for it (absolute
		// with a trailing dot, upper case) - one spelling per history
		name := []string{"example.test", "example.test.", "EXAMPLE.test", "www.example.test", "www.Example.Test."}[fnv32("C19name|"+j.t.Name+"|"+j.server)%5]
		conns := []resConn{{target: j.t, sni: name}, {target: j.t, sni: name, clock: time.Minute}, {target: edited, sni: name, clock: 2 * time.Minute}, {target: j.t, sni: name, clock: 3 * time.Minute},
			{target: inspected, sni: name, clock: 4 * time.Minute}, {target: both, sni: name, clock: 5 * time.Minute}, {target: j.t, sni: name, clock: 6 * time.Minute}}
		// a caller that removes extended_master_secret from the extension list before the hello
		// is built (a documented edit of uconn.Extensions): the cached session was established
		// with it, so it must not be offered - or the server has to abort
		noEMSAt := -1
		if j.t.ID.Client != tls.HelloGolang.Client && j.server != "tls13" && j.server != "tls13-hrr" {
			noEMS := j.t
			noEMS.Style = StylePlain
			noEMS.Pre = func(u *tls.UConn) error {
				if err := u.BuildHandshakeStateWithoutSession(); err != nil { // the preset is applied now
					return err
				}
				var keep []tls.TLSExtension
				for _, e := range u.Extensions {
					if _, ok := e.(*tls.ExtendedMasterSecretExtension); !ok {
						keep = append(keep, e)
					}
				}
				u.Extensions = keep
				return nil
			}
			noEMSAt = len(conns)
			conns = append(conns, resConn{target: noEMS, sni: name, clock: 6*time.Minute + 30*time.Second})
		}
		// ... then the server rotates its ticket keys: the session the next connection offers
		// is declined, which must end in an ordinary full handshake (never in a broken one),
		// and the connection after that resumes again
		rotatedAt := len(conns)
		conns = append(conns, resConn{target: j.t, sni: name, clock: 7 * time.Minute, before: func() {
			var k [32]byte
			copy(k[:], fmt.Sprintf("verif C19 rotated key %08x....", i))
			scfg.SetSessionTicketKeys([][32]byte{k})
		}}, resConn{target: j.t, sni: name, clock: 8 * time.Minute})
		hs := runHistory(conns, scfg, cache)
		mustResume := ((j.server == "tls12" || j.server == "tls11") && hasTicket(j.t)) || (strings.HasPrefix(j.server, "tls13") && hasPSK(j.t))
		sig := map[string]string{"target": family(j.t.Name), "server": j.server}
		for k, h := range hs {
			rep := map[string]any{"case": i, "target": j.t.Name, "server": j.server, "connection": k, "err": h.ErrString()}
			if h.ClientPanic != "" || h.ServerPanic != "" {
				s := map[string]string{"kind": "panic", "target": family(j.t.Name), "server": j.server}
				r.Violation(s, fmt.Sprintf("%s connection %d: %s", j.t.Name, k, firstLine(h.ClientPanic+h.ServerPanic)), rep)
				return
			}
			for _, hm := range wire.ClientHellos(h.C2S) {
				if _, err := wire.ParseClientHello(hm); err != nil {
					s := map[string]string{"kind": "invalid_hello_with_session", "target": family(j.t.Name), "server": j.server}
					r.Violation(s, fmt.Sprintf("%s connection %d: %v", j.t.Name, k, err), rep)
				}
			}
			if !h.OK() {
				allowed, class := classifyFailure(h)
				if !allowed {
					s := map[string]string{"kind": "follow_up_connection_failed", "target": family(j.t.Name), "server": j.server, "connection": fmt.Sprint(k)}
					if k == 0 {
						s["kind"] = "first_connection_failed"
					}
					r.Violation(s, fmt.Sprintf("%s vs %s server: connection %d over the shared cache failed (%s): %s", j.t.Name, j.server, k, class, h.ErrString()), rep)
				}
				continue
			}
			if k > 0 {
				if h.CState.DidResume != h.SState.DidResume {
					s := map[string]string{"kind": "didresume_disagree", "target": family(j.t.Name), "server": j.server}
					r.Violation(s, fmt.Sprintf("%s connection %d: client DidResume=%v server=%v", j.t.Name, k, h.CState.DidResume, h.SState.DidResume), rep)
				}
				if k == noEMSAt {
					r.Count("connections_with_ems_extension_removed", 1)
				} else if k == rotatedAt {
					if h.CState.DidResume {
						s := map[string]string{"kind": "resumed_with_rotated_keys", "target": family(j.t.Name), "server": j.server}
						r.Violation(s, fmt.Sprintf("%s connection %d: resumed although the server's ticket keys were replaced", j.t.Name, k), rep)
					} else {
						r.Count("declined_sessions_followed_by_a_full_handshake", 1)
					}
				} else if mustResume && !h.CState.DidResume {
					s := map[string]string{"kind": "not_resumed", "target": family(j.t.Name), "server": j.server}
					r.Violation(s, fmt.Sprintf("%s vs %s server: connection %d followed a successful one to the same name with the same parrot but did not resume", j.t.Name, j.server, k), rep)
				}
				if h.CState.DidResume {
					mu.Lock()
					resumedBy[j.server]++
					mu.Unlock()
					r.Count("resumed", 1)
				}
			}
		}
		_ = sig
		r.Case(fmt.Sprintf("%s|%s|same|%s", family(j.t.Name), j.server, name), true)
	})
	for k, v := range resumedBy {
		r.Count("resumed_"+k, int64(v))
	}

	// mixed specs over one cache (Roller style), several names, clock steps
	var setSNIConns atomic.Int64
	nh := mon.Pick(500, 60000)
	parallel(nh, func(i int) {
		rg := Sub("C19mix", i)
		pool := []Target{}
		for k := 0; k < 4; k++ {
			switch rg.Intn(3) {
			case 0:
				pool = append(pool, RandomizedTarget(rg.Intn(1000)))
			case 1:
				p := AllParrots[rg.Intn(len(AllParrots))]
				pool = append(pool, Target{Name: p.Name, ID: p.ID})
			default:
				pool = append(pool, Target{Name: "Golang", ID: tls.HelloGolang})
			}
		}
		names := []string{"example.test", "a.test", "verif.test"}
		scfg := peer.ServerConfig()
		server := []string{"tls12", "tls13", "any"}[rg.Intn(3)]
		if server == "tls12" {
			scfg.MaxVersion = tls.VersionTLS12
		}
		cache := tls.NewLRUClientSessionCache(8)
		n := 2 + rg.Intn(4)
		var conns []resConn
		clock := time.Duration(0)
		for k := 0; k < n; k++ {
			switch rg.Intn(6) {
			case 0:
				clock += 8 * 24 * time.Hour // beyond the 7-day ticket lifetime
			case 1:
				clock += time.Hour
			default:
				clock += time.Second
			}
			rc := resConn{target: pool[rg.Intn(len(pool))], sni: names[rg.Intn(2)], clock: clock, insecure: i%5 == 4}
			if rc.insecure && rg.Intn(3) == 0 && rc.target.ID.Client != tls.HelloGolang.Client {
				// the caller builds the hello for one name and then points the connection at
				// another one with the documented setter: a session picked up for the first
				// name must not travel to the second
				real := names[(rg.Intn(2)+1)%3]
				if real != rc.sni {
					rc.target.Style = StylePlain
					rc.target.Edit = func(u *tls.UConn) error { u.SetSNI(real); return nil }
					setSNIConns.Add(1)
				}
			}
			conns = append(conns, rc)
		}
		if len(conns) > 0 && conns[0].insecure {
			// and one such pair for certain: a plain visit of one name, then the same preset
			// built for that name and pointed at another one
			base := conns[len(conns)-1]
			if base.target.ID.Client == tls.HelloGolang.Client || base.target.Edit != nil {
				base.target = Target{Name: "Chrome_102", ID: tls.HelloChrome_102}
			}
			base.clock += time.Second
			moved := base
			moved.clock += time.Second
			real := "verif.test"
			moved.target.Style = StylePlain
			moved.target.Edit = func(u *tls.UConn) error { u.SetSNI(real); return nil }
			conns = append(conns, base, moved)
			setSNIConns.Add(1)
		}
		hs := runHistory(conns, scfg, cache)
		ticketsByName := map[string][][]byte{} // session identities seen on the wire per name
		var shape []string
		for k, h := range hs {
			shape = append(shape, fmt.Sprintf("%s@%s", family(conns[k].target.Name), conns[k].sni))
			rep := map[string]any{"case": i, "history": shape, "connection": k, "err": h.ErrString(), "server": server}
			if h.ClientPanic != "" {
				r.Violation(map[string]string{"kind": "panic", "target": family(conns[k].target.Name)}, firstLine(h.ClientPanic), rep)
				return
			}
			for _, hm := range wire.ClientHellos(h.C2S) {
				ch, err := wire.ParseClientHello(hm)
				if err != nil {
					r.Violation(map[string]string{"kind": "invalid_hello_with_session", "target": family(conns[k].target.Name)}, err.Error(), rep)
					continue
				}
				var ids [][]byte
				if len(ch.Ticket) > 0 {
					ids = append(ids, ch.Ticket)
				}
				for _, p := range ch.PSKIds {
					ids = append(ids, p.Identity)
				}
				wireName := conns[k].sni
				if ch.SNI != nil {
					wireName = *ch.SNI // (SetSNI after the build: the name that counts is the one sent)
				}
				for _, id := range ids {
					for other, list := range ticketsByName {
						if other == wireName {
							continue
						}
						for _, seen := range list {
							if bytes.Equal(seen, id) {
								r.Violation(map[string]string{"kind": "ticket_offered_for_other_name"}, fmt.Sprintf("a session identity first seen for %q was offered to %q", other, wireName), rep)
							}
						}
					}
					ticketsByName[wireName] = append(ticketsByName[wireName], id)
				}
			}
			if !h.OK() && h.ClientErr != nil && strings.Contains(h.ClientErr.Error(), "after a cached session for") && conns[k].target.Edit != nil {
				// the documented refusal: SetSNI moved the connection to another name after a
				// session for the first one had been attached; nothing was sent
				r.Count("refused_to_move_a_session_to_another_name", 1)
				if len(h.C2S) != 0 {
					r.Violation(map[string]string{"kind": "bytes_sent_before_refusal"}, "the connection was refused because of its attached session, but bytes had been written", rep)
				}
			} else if !h.OK() {
				if allowed, class := classifyFailure(h); !allowed {
					prev := "first"
					if k > 0 {
						prev = family(conns[k-1].target.Name)
					}
					r.Violation(map[string]string{"kind": "mixed_history_connection_failed", "target": family(conns[k].target.Name), "server": server, "class": class},
						fmt.Sprintf("connection %d (%s to %s, previous: %s) over a shared cache failed (%s): %s", k, conns[k].target.Name, conns[k].sni, prev, class, h.ErrString()), rep)
				}
			} else if h.CState.DidResume {
				r.Count("mixed_resumed", 1)
			}
		}
		r.Case(fmt.Sprintf("mix|%s|%d", server, n), true)
		if i%41 == 0 {
			r.Sample(map[string]any{"history": shape, "server": server})
		}
	})
	r.Count("connections_pointed_elsewhere_with_setsni_after_the_build", setSNIConns.Load())
	r.Floor("connections_pointed_elsewhere_with_setsni_after_the_build", 50)
	// independent server (optional): tickets and PSKs issued and verified by OpenSSL
	{
		var ots []Target
		for _, tg := range targets {
			if PSKParrots[tg.Name] || tg.Name == "Golang" || mon.Thorough() || len(ots)%1 == 0 && (tg.Name == "Chrome_120" || tg.Name == "Firefox_105" || tg.Name == "IOS_14" || tg.Name == "Chrome_83" || tg.Name == "Edge_106" || tg.Name == "Safari_16_0" || tg.Name == "Firefox_65") {
				ots = append(ots, tg)
			}
		}
		opensslResumption(r, ots, func(tg Target, tls13 bool) bool {
			if tls13 {
				return hasPSK(tg)
			}
			return hasTicket(tg)
		})
		if r.Counter("openssl_available") > 0 {
			r.Floor("openssl_resumed_tls13", 5)
			r.Floor("openssl_resumed_tls12", 5)
		}
	}
	// specs that carry only ONE of the two session extensions, meeting a server of the other
	// kind over a shared cache (documented switch PreferSkipResumptionOnNilExtension): the
	// cached session cannot be offered, and every connection is a full, successful handshake
	{
		drop := func(pn string, keepPSK bool) Target {
			p := ParrotByName(pn)
			name := p.Name + map[bool]string{true: "-without-session_ticket", false: "-without-pre_shared_key"}[keepPSK]
			return Target{Name: name, Spec: func() (*tls.ClientHelloSpec, error) {
				sp, err := tls.UTLSIdToSpec(p.ID)
				if err != nil {
					return nil, err
				}
				var exts []tls.TLSExtension
				for _, e := range sp.Extensions {
					if _, ok := e.(tls.ISessionTicketExtension); ok && keepPSK {
						continue
					}
					if _, ok := e.(tls.PreSharedKeyExtension); ok && !keepPSK {
						continue
					}
					exts = append(exts, e)
				}
				sp.Extensions = exts
				return &sp, nil
			}}
		}
		for _, tg := range []Target{drop("Chrome_100_PSK", true), drop("Chrome_112_PSK_Shuf", true), drop("Chrome_100_PSK", false), drop("Chrome_115_PQ_PSK", false)} {
			for _, maxv := range []uint16{tls.VersionTLS12, tls.VersionTLS13} {
				cache := tls.NewLRUClientSessionCache(4)
				scfg := peer.ServerConfig()
				scfg.MaxVersion = maxv
				// the cache already holds a session of this server, stored by another client of the
				// application (the complete parrot)
				warm := ParrotByName("Chrome_100_PSK")
				if w := RunCase(Target{Name: warm.Name, ID: warm.ID}, GridCase{Server: scfg}, "example.test", func(c *tls.Config) { c.ClientSessionCache = cache }, peer.Opts{}); !w.OK() {
					r.Count("one_session_extension_warmup_failed", 1)
				}
				for k := 0; k < 3; k++ {
					h := RunCase(tg, GridCase{Server: scfg}, "example.test", func(c *tls.Config) {
						c.ClientSessionCache = cache
						c.PreferSkipResumptionOnNilExtension = true
					}, peer.Opts{})
					rep := map[string]any{"target": tg.Name, "connection": k, "server_max": maxv, "err": h.ErrString()}
					if h.ClientPanic != "" {
						r.Violation(map[string]string{"kind": "panic", "target": tg.Name, "mode": "one_session_extension"}, fmt.Sprintf("%s connection %d (server max %#04x): %s", tg.Name, k, maxv, firstLine(h.ClientPanic)), rep)
						break
					}
					if !h.OK() {
						if allowed, class := classifyFailure(h); !allowed {
							r.Violation(map[string]string{"kind": "next_handshake_broken", "target": tg.Name, "mode": "one_session_extension"}, fmt.Sprintf("%s connection %d (server max %#04x) failed (%s): %s", tg.Name, k, maxv, class, h.ErrString()), rep)
						}
						break
					}
					r.Count("one_session_extension_connections_ok", 1)
					r.Case(fmt.Sprintf("%s|%04x|conn%d|resumed=%v", tg.Name, maxv, k, h.CState.DidResume), true)
				}
			}
		}
		r.Floor("one_session_extension_connections_ok", 12)
	}
	// ONE spec object for consecutive connections over a shared cache (sequentially): the
	// session an earlier connection attached to the spec's session extension must not be in
	// the way of the next one
	{
		pskParrots := []string{"Chrome_100_PSK", "Chrome_112_PSK_Shuf", "Chrome_114_Padding_PSK_Shuf", "Chrome_115_PQ_PSK"}
		var shared []Target
		for _, pn := range pskParrots {
			if p := ParrotByName(pn); p.Name != "" {
				shared = append(shared, SharedSpecTarget(Target{Name: p.Name, ID: p.ID}))
			}
		}
		shared = append(shared, SharedSpecTargets()...)
		for _, tg := range shared {
			for _, maxv := range []uint16{tls.VersionTLS13, tls.VersionTLS12} {
				cache := tls.NewLRUClientSessionCache(4)
				scfg := peer.ServerConfig()
				scfg.MaxVersion = maxv
				prev := false
				for k := 0; k < 4; k++ {
					h := RunCase(tg, GridCase{Server: scfg}, "example.test", func(c *tls.Config) {
						c.ClientSessionCache = cache
						c.PreferSkipResumptionOnNilExtension = true // documented switch for specs without the session extension
					}, peer.Opts{})
					rep := map[string]any{"target": tg.Name, "connection": k, "server_max": maxv, "err": h.ErrString()}
					if h.ClientPanic != "" {
						r.Violation(map[string]string{"kind": "panic", "target": family(tg.Name), "mode": "reused_spec"}, fmt.Sprintf("%s connection %d with the same spec object: %s", tg.Name, k, firstLine(h.ClientPanic)), rep)
						break
					}
					if !h.OK() {
						if allowed, class := classifyFailure(h); !allowed {
							r.Violation(map[string]string{"kind": "reused_spec_connection_fails", "target": family(tg.Name)}, fmt.Sprintf("%s connection %d with the same spec object fails (%s): %s", tg.Name, k, class, h.ErrString()), rep)
						}
						break
					}
					if k > 0 && prev && !h.CState.DidResume {
						// the connection before resumed or completed with a ticket-capable spec; a later one that does not is the no-resume class below
						r.Count("reused_spec_not_resumed_after_resumed", 1)
					}
					if h.CState.DidResume {
						r.Count("reused_spec_resumed", 1)
						prev = true
					}
					r.Case(fmt.Sprintf("%s|%04x|conn%d|resumed=%v", tg.Name, maxv, k, h.CState.DidResume), true)
				}
			}
		}
		r.Floor("reused_spec_resumed", 20)
	}
	r.Floor("resumed", 40)
	r.Floor("mixed_resumed", 20)
}
