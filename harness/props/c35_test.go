package props

import (
	"bytes"
	"crypto/aes"
	"crypto/cipher"
	"crypto/hmac"
	"crypto/sha256"
	"fmt"
	"net"
	"sync"
	"testing"
	"time"

	tls "github.com/refraction-networking/utls"
	"verifharness/mon"
	"verifharness/peer"
)

// mapCache is a trivial ClientSessionCache that records Put calls.
type mapCache struct {
	mu   sync.Mutex
	m    map[string]*tls.ClientSessionState
	puts []string
	gets []string
}

func newMapCache() *mapCache { return &mapCache{m: map[string]*tls.ClientSessionState{}} }
func (c *mapCache) Get(k string) (*tls.ClientSessionState, bool) {
	c.mu.Lock()
	defer c.mu.Unlock()
	c.gets = append(c.gets, k)
	s, ok := c.m[k]
	return s, ok
}
func (c *mapCache) Put(k string, s *tls.ClientSessionState) {
	c.mu.Lock()
	defer c.mu.Unlock()
	c.puts = append(c.puts, k)
	if s == nil {
		delete(c.m, k)
	} else {
		c.m[k] = s
	}
}
func (c *mapCache) Any() *tls.ClientSessionState {
	c.mu.Lock()
	defer c.mu.Unlock()
	for _, s := range c.m {
		return s
	}
	return nil
}

// harvestStates runs real handshakes and collects server- and client-side SessionStates.
func harvestStates(r *mon.Run) (states []*tls.SessionState) {
	type cfg struct {
		maxv  uint16
		suite uint16
		id    tls.ClientHelloID
		// extra: the peers send a superfluous, unrelated second certificate, so that the
		// state's certificate list is not a prefix of its verified chain (and the server
		// asks for a client certificate: its states hold a client chain of that shape)
		extra bool
	}
	var cfgs []cfg
	for _, s := range []uint16{tls.TLS_ECDHE_ECDSA_WITH_AES_128_GCM_SHA256, tls.TLS_ECDHE_RSA_WITH_AES_256_GCM_SHA384, tls.TLS_ECDHE_RSA_WITH_CHACHA20_POLY1305_SHA256, tls.TLS_RSA_WITH_AES_128_CBC_SHA, tls.TLS_ECDHE_ECDSA_WITH_AES_128_CBC_SHA} {
		cfgs = append(cfgs, cfg{tls.VersionTLS12, s, tls.HelloGolang, false})
	}
	cfgs = append(cfgs, cfg{tls.VersionTLS13, 0, tls.HelloGolang, false}, cfg{tls.VersionTLS13, 0, tls.HelloChrome_120, false}, cfg{tls.VersionTLS12, 0, tls.HelloFirefox_105, false}, cfg{tls.VersionTLS11, 0, tls.HelloGolang, false},
		cfg{tls.VersionTLS12, 0, tls.HelloGolang, true}, cfg{tls.VersionTLS13, 0, tls.HelloGolang, true}, cfg{tls.VersionTLS13, 0, tls.HelloChrome_120, true})
	var mu sync.Mutex
	for _, c := range cfgs {
		scfg := peer.ServerConfig()
		scfg.MaxVersion = c.maxv
		if c.suite != 0 {
			scfg.CipherSuites = []uint16{c.suite}
		}
		scfg.WrapSession = func(cs tls.ConnectionState, ss *tls.SessionState) ([]byte, error) {
			mu.Lock()
			states = append(states, ss)
			mu.Unlock()
			return scfg.EncryptTicket(cs, ss)
		}
		ccfg := peer.ClientConfig("example.test")
		cache := newMapCache()
		ccfg.ClientSessionCache = cache
		ccfg.MinVersion = tls.VersionTLS10
		if c.extra {
			f := peer.Fix()
			other := f.CA.Leaf(peer.LeafOpts{Kind: "ecdsa", Names: []string{"unrelated.test"}})
			sc := f.ECDSA
			sc.Certificate = append(append([][]byte(nil), sc.Certificate...), other.Certificate[0])
			scfg.Certificates = []tls.Certificate{sc}
			cc := f.ECDSA
			cc.Certificate = append(append([][]byte(nil), cc.Certificate...), other.Certificate[0])
			ccfg.Certificates = []tls.Certificate{cc}
			scfg.ClientAuth = tls.RequireAnyClientCert
		}
		h := peer.Run(ccfg, c.id, scfg, peer.Opts{})
		if !h.OK() {
			r.Note("harvest handshake failed: " + h.ErrString())
			continue
		}
		if c.extra {
			r.Count("states_with_a_superfluous_certificate", 1)
		}
		if cs := cache.Any(); cs != nil {
			if _, st, _ := cs.ResumptionState(); st != nil {
				states = append(states, st)
			}
		}
	}
	return states
}

func independentOpen(key tls.TicketKey, ticket []byte) []byte {
	if len(ticket) < 16+32 {
		return nil
	}
	iv, ct, macb := ticket[:16], ticket[16:len(ticket)-32], ticket[len(ticket)-32:]
	m := hmac.New(sha256.New, key.HmacKey[:])
	m.Write(ticket[:len(ticket)-32])
	if !hmac.Equal(m.Sum(nil), macb) {
		return nil
	}
	blk, _ := aes.NewCipher(key.AesKey[:])
	pt := make([]byte, len(ct))
	cipher.NewCTR(blk, iv).XORKeyStream(pt, ct)
	return pt
}

// C35 — Session tickets are authenticated and round-trip.
func TestC35(t *testing.T) {
	r := mon.New("C35", "session states harvested from real handshakes of several versions/suites (server and client side) with random Extra data x key sets of 1..4 keys x rotations; every single-bit flip and every truncation of sampled tickets; independent AES-CTR/HMAC-SHA256 open with TicketKeyFromBytes; forged ClientSessionState resumption (TLS 1.2 master secrets; TLS 1.3 PSKs of SHA-256 and SHA-384 suites) and field exactness of forged states for secrets of any length. distinct = (state kind, key-set shape, check) combinations")
	defer r.Finish(t)
	base := harvestStates(r)
	r.Count("harvested_states", int64(len(base)))
	if len(base) < 8 {
		r.Inconclusive(fmt.Sprintf("only %d session states harvested", len(base)))
		return
	}
	n := mon.Pick(500, 20000)
	fullMutations := mon.Pick(24, 200) // tickets on which *every* bit flip / truncation is tried
	for i := 0; i < n; i++ {
		rg := Sub("C35", i)
		st := base[i%len(base)]
		// diversify through the exported fields
		st.Extra = nil
		for k := rg.Intn(4); k > 0; k-- {
			st.Extra = append(st.Extra, randBytes(rg, rg.Intn(300)))
		}
		want, err := st.Bytes()
		if err != nil {
			r.Violation(map[string]string{"kind": "state_bytes_error"}, err.Error(), nil)
			continue
		}
		nk := 1 + rg.Intn(4)
		keys := make([][32]byte, nk)
		for k := range keys {
			rg.Read(keys[k][:])
		}
		cfg := &tls.Config{Time: peer.FixedTime}
		cfg.SetSessionTicketKeys(keys)
		ticket, err := cfg.EncryptTicket(tls.ConnectionState{}, st)
		if err != nil {
			r.Violation(map[string]string{"kind": "encrypt_error"}, err.Error(), nil)
			continue
		}
		viol := func(kind, what string) {
			r.Violation(map[string]string{"kind": kind}, what, map[string]any{"case": i, "ticket": mon.Hex(ticket), "nkeys": nk})
		}
		got, err := cfg.DecryptTicket(ticket, tls.ConnectionState{})
		if err != nil || got == nil {
			viol("roundtrip_failed", fmt.Sprintf("DecryptTicket(EncryptTicket(s)) = (%v, %v)", got, err))
			continue
		}
		gb, _ := got.Bytes()
		if !bytes.Equal(gb, want) {
			viol("roundtrip_differs", "decrypted state differs from the original")
		}
		// independent open with the first key
		pt := independentOpen(tls.TicketKeyFromBytes(keys[0]), ticket)
		if pt == nil {
			viol("independent_open_failed", "ticket does not open with AES-CTR/HMAC-SHA256 keyed by TicketKeyFromBytes(first key)")
		} else if !bytes.Equal(pt, want) {
			viol("independent_open_differs", "independently opened plaintext differs from SessionState.Bytes()")
		}
		// the installed keys equal TicketKeyFromBytes
		inst := tls.VerifServerTicketKeys(cfg)
		if len(inst) != nk {
			viol("installed_key_count", fmt.Sprintf("%d keys installed, %d configured", len(inst), nk))
		} else {
			for k := range keys {
				d := tls.TicketKeyFromBytes(keys[k])
				if inst[k].AesKey != d.AesKey || inst[k].HmacKey != d.HmacKey {
					viol("ticketkeyfrombytes_differs", fmt.Sprintf("key %d: TicketKeyFromBytes derives different keys than SetSessionTicketKeys installed", k))
				}
			}
		}
		// rotation: still listed at any position => decrypts; rotated out => nil
		pos := rg.Intn(4)
		rot := make([][32]byte, 0, 5)
		for k := 0; k < 4; k++ {
			if k == pos {
				rot = append(rot, keys[0])
			} else {
				var x [32]byte
				rg.Read(x[:])
				rot = append(rot, x)
			}
		}
		cfg2 := &tls.Config{Time: peer.FixedTime}
		cfg2.SetSessionTicketKeys(rot)
		if s2, _ := cfg2.DecryptTicket(ticket, tls.ConnectionState{}); s2 == nil {
			viol("rotation_listed_key_rejected", fmt.Sprintf("key still listed at position %d but the ticket no longer decrypts", pos))
		} else if b2, _ := s2.Bytes(); !bytes.Equal(b2, want) {
			viol("rotation_listed_key_differs", "state differs after rotation")
		}
		rot[pos] = [32]byte{1, 2, 3}
		cfg3 := &tls.Config{Time: peer.FixedTime}
		cfg3.SetSessionTicketKeys(rot)
		if s3, _ := cfg3.DecryptTicket(ticket, tls.ConnectionState{}); s3 != nil {
			viol("rotated_out_key_accepted", "ticket sealed with a key that is no longer configured still decrypts")
		}
		// a ticket sealed under keys[1] (not first) must still open when listed
		// mutations
		tryMut := func(mt []byte, what string) {
			s, err := cfg.DecryptTicket(mt, tls.ConnectionState{})
			if s != nil || err != nil {
				viol("mutated_ticket_accepted", fmt.Sprintf("%s yields (%v, %v)", what, s != nil, err))
			}
		}
		if i < fullMutations {
			for bit := 0; bit < len(ticket)*8; bit++ {
				mt := append([]byte(nil), ticket...)
				mt[bit/8] ^= 1 << uint(bit%8)
				tryMut(mt, fmt.Sprintf("flip of bit %d", bit))
			}
			for l := 0; l < len(ticket); l++ {
				tryMut(ticket[:l], fmt.Sprintf("truncation to %d bytes", l))
			}
			r.Count("mutations_tried", int64(len(ticket)*9))
		} else {
			for k := 0; k < 64; k++ {
				bit := rg.Intn(len(ticket) * 8)
				mt := append([]byte(nil), ticket...)
				mt[bit/8] ^= 1 << uint(bit%8)
				tryMut(mt, fmt.Sprintf("flip of bit %d", bit))
				tryMut(ticket[:rg.Intn(len(ticket))], "truncation")
			}
			r.Count("mutations_tried", 128)
		}
		tryMut(append(append([]byte(nil), ticket...), 0), "one appended byte")
		tryMut(nil, "empty ticket")
		r.Case(fmt.Sprintf("%d|%d|%d|%d", i%len(base), nk, len(st.Extra), pos), true)
		if i < 2 {
			r.Sample(map[string]any{"state_len": len(want), "ticket_len": len(ticket), "keys": nk, "listed_pos": pos})
		}
	}

	// forged ClientSessionState resumption (TLS 1.2, EMS and non-EMS suites)
	forged := 0
	rounds := mon.Pick(30, 120)
	for i := 0; i < rounds; i++ {
		rg := Sub("C35forge", i)
		suites := []uint16{tls.TLS_ECDHE_ECDSA_WITH_AES_128_GCM_SHA256, tls.TLS_ECDHE_RSA_WITH_AES_256_GCM_SHA384, tls.TLS_ECDHE_RSA_WITH_CHACHA20_POLY1305_SHA256, tls.TLS_ECDHE_RSA_WITH_AES_128_CBC_SHA}
		suite := suites[rg.Intn(len(suites))]
		ids := []tls.ClientHelloID{tls.HelloGolang, tls.HelloChrome_102, tls.HelloFirefox_105, tls.HelloIOS_14}
		id := ids[rg.Intn(len(ids))]
		var key [32]byte
		rg.Read(key[:])
		scfg := peer.ServerConfig()
		scfg.MaxVersion = tls.VersionTLS12
		scfg.CipherSuites = []uint16{suite}
		scfg.SetSessionTicketKeys([][32]byte{key})
		var captured *tls.SessionState
		scfg.WrapSession = func(cs tls.ConnectionState, ss *tls.SessionState) ([]byte, error) {
			captured = ss
			return scfg.EncryptTicket(cs, ss)
		}
		cache := newMapCache()
		ccfg := peer.ClientConfig("example.test")
		ccfg.ClientSessionCache = cache
		h := peer.Run(ccfg, id, scfg, peer.Opts{})
		if !h.OK() || captured == nil || cache.Any() == nil {
			r.Note(fmt.Sprintf("forge setup handshake failed: %s", h.ErrString()))
			continue
		}
		orig := cache.Any()
		// re-seal the server-side state in a fresh ticket and forge the client state
		freshTicket, err := scfg.EncryptTicket(tls.ConnectionState{}, captured)
		if err != nil {
			r.Violation(map[string]string{"kind": "encrypt_error"}, err.Error(), nil)
			continue
		}
		ms := append([]byte(nil), orig.MasterSecret()...)
		f := tls.MakeClientSessionState(freshTicket, orig.Vers(), orig.CipherSuite(), ms, orig.ServerCertificates(), orig.VerifiedChains())
		f.SetEMS(orig.EMS())
		if i%2 == 1 {
			// the other documented way: a zero ClientSessionState filled in through its
			// setters, in an order the PRNG chooses
			z := &tls.ClientSessionState{}
			setters := []func(){
				func() { z.SetSessionTicket(freshTicket) },
				func() { z.SetVers(orig.Vers()) },
				func() { z.SetCipherSuite(orig.CipherSuite()) },
				func() { z.SetMasterSecret(ms) },
				func() { z.SetServerCertificates(orig.ServerCertificates()) },
				func() { z.SetVerifiedChains(orig.VerifiedChains()) },
				func() { z.SetEMS(orig.EMS()) },
			}
			panicked, pv := recoverPanic(func() {
				first := (i / 2) % len(setters) // every setter gets to be the first call on the zero value
				setters[first]()
				for _, k := range rg.Perm(len(setters)) {
					if k != first {
						setters[k]()
					}
				}
			})
			if panicked {
				r.Violation(map[string]string{"kind": "forging_through_setters_panicked"}, fmt.Sprintf("filling a zero ClientSessionState through its setters panicked: %v", pv), map[string]any{"case": i})
				continue
			}
			f = z
			r.Count("forged_through_setters", 1)
		}
		cache2 := newMapCache()
		cache2.Put("example.test", f)
		ccfg2 := peer.ClientConfig("example.test")
		ccfg2.ClientSessionCache = cache2
		scfg.WrapSession = nil
		h2 := peer.Run(ccfg2, id, scfg, peer.Opts{KeepOpen: true})
		sig := map[string]string{"kind": "forged_session_not_resumed", "suite": fmt.Sprintf("%#04x", suite)}
		if !h2.OK() {
			r.Violation(map[string]string{"kind": "forged_session_handshake_failed"}, "handshake with a forged ClientSessionState failed: "+h2.ErrString(), map[string]any{"case": i})
		} else {
			if !h2.SState.DidResume || !h2.CState.DidResume {
				r.Violation(sig, fmt.Sprintf("forged session (id %s) not resumed: client DidResume=%v server DidResume=%v", id.Str(), h2.CState.DidResume, h2.SState.DidResume), map[string]any{"case": i})
			} else {
				forged++
				if h2.SState.Version != orig.Vers() || h2.SState.CipherSuite != orig.CipherSuite() {
					r.Violation(map[string]string{"kind": "forged_session_params"}, fmt.Sprintf("resumed at %#04x/%#04x, forged state says %#04x/%#04x", h2.SState.Version, h2.SState.CipherSuite, orig.Vers(), orig.CipherSuite()), nil)
				}
				if !bytes.Equal(h2.Client.HandshakeState.MasterSecret, ms) {
					r.Violation(map[string]string{"kind": "forged_session_master_secret"}, "client master secret after resumption differs from the supplied one", nil)
				}
			}
		}
		h2.Client.Close()
		h2.Server.Close()
		r.Case(fmt.Sprintf("forge|%s|%04x", id.Str(), suite), true)
	}
	r.Count("forged_resumptions", int64(forged))
	// forged states carry exactly what they were given, whatever the secret's length (48-byte
	// TLS 1.2 master secrets, 32- and 48-byte TLS 1.3 PSKs, anything else a caller hands in)
	for i := 0; i < mon.Pick(200, 5000); i++ {
		rg := Sub("C35forge-fields", i)
		sec := randBytes(rg, []int{0, 1, 16, 31, 32, 33, 47, 48, 49, 64, 200}[rg.Intn(11)])
		tick := randBytes(rg, 1+rg.Intn(300))
		vers := []uint16{tls.VersionTLS10, tls.VersionTLS12, tls.VersionTLS13}[rg.Intn(3)]
		suite := []uint16{tls.TLS_AES_128_GCM_SHA256, tls.TLS_AES_256_GCM_SHA384, tls.TLS_ECDHE_RSA_WITH_AES_128_GCM_SHA256, 0xffff}[rg.Intn(4)]
		f := tls.MakeClientSessionState(append([]byte(nil), tick...), vers, suite, append([]byte(nil), sec...), nil, nil)
		if rg.Intn(2) == 0 {
			sec = randBytes(rg, []int{0, 32, 48, 33}[rg.Intn(4)])
			f.SetMasterSecret(append([]byte(nil), sec...))
		}
		if !bytes.Equal(f.MasterSecret(), sec) || !bytes.Equal(f.SessionTicket(), tick) || f.Vers() != vers || f.CipherSuite() != suite {
			r.Violation(map[string]string{"kind": "forged_state_fields"}, fmt.Sprintf("forged ClientSessionState reports secret %d bytes / ticket %d bytes / %#04x / %#04x, supplied %d / %d / %#04x / %#04x", len(f.MasterSecret()), len(f.SessionTicket()), f.Vers(), f.CipherSuite(), len(sec), len(tick), vers, suite), map[string]any{"case": i})
		}
		r.Case(fmt.Sprintf("forge-fields|%d|%04x", len(sec), vers), true)
	}
	// forged TLS 1.3 sessions: ticket, suite and PSK taken from a real session, everything else
	// (creation time, use-by, age_add) chosen by the forger; SHA-256 and SHA-384 suites
	forged13 := 0
	for i := 0; i < mon.Pick(16, 120); i++ {
		rg := Sub("C35forge13", i)
		suite := []uint16{tls.TLS_AES_128_GCM_SHA256, tls.TLS_AES_256_GCM_SHA384, tls.TLS_CHACHA20_POLY1305_SHA256}[i%3]
		id := []tls.ClientHelloID{tls.HelloGolang, tls.HelloChrome_100_PSK, tls.HelloChrome_112_PSK_Shuf}[(i/3)%3]
		var key [32]byte
		rg.Read(key[:])
		scfg := peer.ServerConfig()
		scfg.MinVersion = tls.VersionTLS13
		scfg.SetSessionTicketKeys([][32]byte{key})
		cache := newMapCache()
		ccfg := peer.ClientConfig("example.test")
		ccfg.ClientSessionCache = cache
		ccfg.OmitEmptyPsk = true
		h := peer.Run(ccfg, id, scfg, peer.Opts{ServerSetup: func(s *tls.Conn, _ net.Conn) { tls.VerifAttach(s, &tls.VerifPlan{ForceSuite13: suite}) }})
		if !h.OK() || cache.Any() == nil || cache.Any().Vers() != tls.VersionTLS13 {
			r.Note(fmt.Sprintf("forge13 setup failed: %s", h.ErrString()))
			continue
		}
		orig := cache.Any()
		psk := append([]byte(nil), orig.MasterSecret()...)
		f := tls.MakeClientSessionState(append([]byte(nil), orig.SessionTicket()...), tls.VersionTLS13, orig.CipherSuite(), psk, orig.ServerCertificates(), orig.VerifiedChains())
		now := peer.Now
		f.SetCreatedAt(uint64(now.Unix()))
		f.SetUseBy(uint64(now.Add(time.Hour).Unix()))
		f.SetAgeAdd(rg.Uint32())
		if !bytes.Equal(f.MasterSecret(), psk) {
			r.Violation(map[string]string{"kind": "forged_state_fields"}, fmt.Sprintf("forged TLS 1.3 state reports a %d-byte secret, supplied %d", len(f.MasterSecret()), len(psk)), nil)
		}
		cache2 := newMapCache()
		cache2.Put("example.test", f)
		ccfg2 := peer.ClientConfig("example.test")
		ccfg2.ClientSessionCache = cache2
		ccfg2.OmitEmptyPsk = true
		h2 := peer.Run(ccfg2, id, scfg, peer.Opts{ServerSetup: func(s *tls.Conn, _ net.Conn) { tls.VerifAttach(s, &tls.VerifPlan{ForceSuite13: suite}) }})
		if !h2.OK() {
			r.Violation(map[string]string{"kind": "forged_session_handshake_failed", "version": "0304"}, fmt.Sprintf("handshake with a forged TLS 1.3 ClientSessionState (%s, suite %#04x, %d-byte PSK) failed: %s", id.Str(), orig.CipherSuite(), len(psk), h2.ErrString()), map[string]any{"case": i})
		} else if !h2.SState.DidResume || !h2.CState.DidResume {
			r.Violation(map[string]string{"kind": "forged_session_not_resumed", "version": "0304"}, fmt.Sprintf("forged TLS 1.3 session (%s, suite %#04x) not resumed: client %v server %v", id.Str(), orig.CipherSuite(), h2.CState.DidResume, h2.SState.DidResume), map[string]any{"case": i})
		} else {
			forged13++
			if h2.SState.CipherSuite != orig.CipherSuite() {
				r.Violation(map[string]string{"kind": "forged_session_params", "version": "0304"}, fmt.Sprintf("resumed with suite %#04x, forged state says %#04x", h2.SState.CipherSuite, orig.CipherSuite()), nil)
			}
		}
		r.Case(fmt.Sprintf("forge13|%s|%04x", id.Str(), orig.CipherSuite()), true)
	}
	r.Count("forged_tls13_resumptions", int64(forged13))
	r.Floor("forged_tls13_resumptions", int64(mon.Pick(8, 60)))
	// ---- histories over several Configs related by Clone ----
	// Model: every Config owns its key list (Clone copies it); SetSessionTicketKeys replaces
	// the list of that Config only; a ticket opens on a Config iff the key it was sealed under
	// is in that Config's list at that moment.
	{
		nh := mon.Pick(300, 20000)
		for hi := 0; hi < nh; hi++ {
			rg := Sub("C35clone", hi)
			type cfgModel struct {
				cfg  *tls.Config
				keys [][32]byte
			}
			newKeys := func() [][32]byte {
				ks := make([][32]byte, 1+rg.Intn(3))
				for k := range ks {
					rg.Read(ks[k][:])
				}
				return ks
			}
			first := &cfgModel{cfg: &tls.Config{Time: peer.FixedTime}}
			first.keys = newKeys()
			var trace []string
			// the deprecated Config.SessionTicketKey field: on its own it is the one key in
			// force; explicit keys (SetSessionTicketKeys), set before or later, replace it
			switch hi % 3 {
			case 1:
				rg.Read(first.cfg.SessionTicketKey[:])
				first.cfg.SessionTicketKey[0] |= 1
				first.cfg.SetSessionTicketKeys(first.keys)
				trace = append(trace, "cfg0.SessionTicketKey set, then cfg0.SetSessionTicketKeys")
				r.Count("clone_histories_with_legacy_key_field", 1)
			case 2:
				rg.Read(first.cfg.SessionTicketKey[:])
				first.cfg.SessionTicketKey[0] |= 1
				first.keys = [][32]byte{first.cfg.SessionTicketKey}
				trace = append(trace, "cfg0.SessionTicketKey set (no explicit keys yet)")
				r.Count("clone_histories_with_legacy_key_field", 1)
			default:
				first.cfg.SetSessionTicketKeys(first.keys)
			}
			cfgs := []*cfgModel{first}
			type sealedT struct {
				ticket []byte
				key    [32]byte
				want   []byte
			}
			var tickets []sealedT
			for step := 0; step < 4+rg.Intn(10); step++ {
				ci := rg.Intn(len(cfgs))
				c := cfgs[ci]
				switch rg.Intn(5) {
				case 0:
					if len(cfgs) < 4 {
						cl := &cfgModel{cfg: c.cfg.Clone(), keys: append([][32]byte(nil), c.keys...)}
						cfgs = append(cfgs, cl)
						trace = append(trace, fmt.Sprintf("cfg%d=Clone(cfg%d)", len(cfgs)-1, ci))
					}
				case 1:
					c.keys = newKeys()
					if rg.Intn(3) == 0 && len(tickets) > 0 { // keep an old key at a later position
						c.keys = append(c.keys, tickets[rg.Intn(len(tickets))].key)
					}
					c.cfg.SetSessionTicketKeys(c.keys)
					trace = append(trace, fmt.Sprintf("cfg%d.SetSessionTicketKeys(%d keys)", ci, len(c.keys)))
				default:
					st := base[rg.Intn(len(base))]
					want, _ := st.Bytes()
					tk, err := c.cfg.EncryptTicket(tls.ConnectionState{}, st)
					if err != nil {
						r.Violation(map[string]string{"kind": "clone_history_encrypt_error"}, err.Error(), map[string]any{"history": hi, "trace": trace})
						continue
					}
					tickets = append(tickets, sealedT{tk, c.keys[0], want})
					trace = append(trace, fmt.Sprintf("t%d=cfg%d.EncryptTicket", len(tickets)-1, ci))
				}
				// every ticket against every config
				for ti, tk := range tickets {
					for cj, cm := range cfgs {
						expect := false
						for _, k := range cm.keys {
							if k == tk.key {
								expect = true
							}
						}
						got, err := cm.cfg.DecryptTicket(tk.ticket, tls.ConnectionState{})
						opened := err == nil && got != nil
						r.Count("clone_history_opens_tried", 1)
						if opened != expect {
							kind := "clone_history_ticket_rejected"
							if opened {
								kind = "clone_history_ticket_opens_without_key"
							}
							r.Violation(map[string]string{"kind": kind}, fmt.Sprintf("history %d: ticket t%d on cfg%d: opened=%v, but the key it was sealed under is configured there=%v", hi, ti, cj, opened, expect),
								map[string]any{"history": hi, "trace": append([]string(nil), trace...)})
						} else if opened {
							if gb, _ := got.Bytes(); !bytes.Equal(gb, tk.want) {
								r.Violation(map[string]string{"kind": "clone_history_state_differs"}, fmt.Sprintf("history %d: state differs", hi), map[string]any{"history": hi, "trace": trace})
							}
						}
					}
				}
				// the installed keys of every config are what TicketKeyFromBytes derives from its list
				for cj, cm := range cfgs {
					inst := tls.VerifServerTicketKeys(cm.cfg)
					ok := len(inst) == len(cm.keys)
					for k := 0; ok && k < len(inst); k++ {
						d := tls.TicketKeyFromBytes(cm.keys[k])
						ok = inst[k].AesKey == d.AesKey && inst[k].HmacKey == d.HmacKey
					}
					if !ok {
						r.Violation(map[string]string{"kind": "clone_history_installed_keys_differ"}, fmt.Sprintf("history %d: cfg%d no longer holds the keys derived from the key set configured on it", hi, cj),
							map[string]any{"history": hi, "trace": append([]string(nil), trace...)})
					}
				}
			}
			r.Case(fmt.Sprintf("clone|%d cfgs|%d tickets", len(cfgs), len(tickets)), len(cfgs) > 1 && len(tickets) > 0)
			if hi < 2 {
				r.Sample(map[string]any{"clone_history": trace})
			}
		}
		r.Floor("clone_history_opens_tried", 2000)
	}
	// ---- automatically managed keys under a logical clock ----
	// Documented behaviour (Config.SessionTicketKey): without configured keys the server
	// rotates its ticket key every day and drops keys after seven days.  Histories of
	// clock steps and seal/open calls; the oracle only asserts the two regions every
	// reading of that sentence agrees on: a ticket opens while it is younger than 6 days
	// (its key was at most one day old when it sealed), and never opens once it is 8 days
	// old (by then a rotation that saw the key older than 7 days has certainly happened).
	{
		hist := mon.Pick(400, 60000)
		day := 24 * time.Hour
		for hi := 0; hi < hist; hi++ {
			rg := Sub("C35auto", hi)
			now := peer.FixedTime()
			cfg := &tls.Config{Time: func() time.Time { return now }}
			type sealed struct {
				ticket []byte
				want   []byte
				at     time.Time
			}
			var tickets []sealed
			var trace []string
			steps := 4 + rg.Intn(20)
			for k := 0; k < steps; k++ {
				var d time.Duration
				switch rg.Intn(8) {
				case 0:
					d = time.Duration(rg.Intn(3600)) * time.Second
				case 1, 2, 3:
					d = day + time.Duration(rg.Intn(7200))*time.Second // the daily rhythm that makes keys expire together later
				case 4:
					d = time.Duration(1+rg.Intn(47)) * time.Hour
				case 5:
					d = time.Duration(2+rg.Intn(5)) * day
				case 6:
					d = time.Duration(8+rg.Intn(30)) * day // idle gap: several keys expire at once
				case 7:
					d = 0
				}
				now = now.Add(d)
				trace = append(trace, fmt.Sprintf("+%s", d))
				if rg.Intn(4) > 0 {
					st := base[rg.Intn(len(base))]
					want, _ := st.Bytes()
					tk, err := cfg.EncryptTicket(tls.ConnectionState{}, st)
					if err != nil {
						r.Violation(map[string]string{"kind": "auto_encrypt_error"}, err.Error(), map[string]any{"history": hi, "trace": trace})
						continue
					}
					tickets = append(tickets, sealed{tk, want, now})
					trace = append(trace, "seal")
				}
				// open every ticket sealed so far
				for ti, tk := range tickets {
					age := now.Sub(tk.at)
					got, err := cfg.DecryptTicket(tk.ticket, tls.ConnectionState{})
					opened := err == nil && got != nil
					r.Count("auto_key_opens_tried", 1)
					switch {
					case age < 6*day:
						r.Count("auto_key_young_tickets", 1)
						if !opened {
							r.Violation(map[string]string{"kind": "auto_key_young_ticket_rejected"}, fmt.Sprintf("history %d: a ticket sealed %s ago under an automatically managed key no longer opens (%v)", hi, age, err),
								map[string]any{"history": hi, "trace": trace, "ticket_index": ti})
						} else if gb, _ := got.Bytes(); !bytes.Equal(gb, tk.want) {
							r.Violation(map[string]string{"kind": "auto_key_roundtrip_differs"}, fmt.Sprintf("history %d: state differs", hi), map[string]any{"history": hi, "trace": trace})
						}
					case age >= 8*day:
						r.Count("auto_key_expired_tickets", 1)
						if opened {
							r.Violation(map[string]string{"kind": "auto_key_expired_ticket_opens"}, fmt.Sprintf("history %d: a ticket sealed %s ago still opens although ticket keys are dropped after seven days", hi, age),
								map[string]any{"history": hi, "trace": trace, "ticket_index": ti})
						}
					default:
						r.Count("auto_key_unspecified_age", 1)
					}
				}
			}
			r.Case(fmt.Sprintf("auto|%d steps|%d tickets", steps, len(tickets)), len(tickets) > 1)
			if hi < 2 {
				r.Sample(map[string]any{"auto_key_history": trace})
			}
		}
		r.Floor("auto_key_expired_tickets", 200)
		r.Floor("auto_key_young_tickets", 200)
	}
	r.Floor("forged_resumptions", int64(rounds/2))
	r.Floor("mutations_tried", 1000)
}
