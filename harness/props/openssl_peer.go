package props

import (
	"bytes"
	"fmt"
	"net"
	"strings"
	"time"

	tls "github.com/refraction-networking/utls"
	"verifharness/mon"
	"verifharness/peer"
	"verifharness/wire"
)

// OpenSSL s_server as an independent compliant peer (optional; see peer/openssl.go).

type osslConfig struct {
	name  string
	leaf  string
	args  []string
	want  func(o Offer, ch *wire.ClientHello) bool // does the hello offer what this server needs?
	vers  uint16                                   // expected version (0 = whatever)
	group uint16                                   // expected TLS 1.3 group (0 = whatever)
	suite uint16
	alpn  string
}

func offersSuite(ch *wire.ClientHello, ids ...uint16) bool {
	for _, s := range ch.Suites {
		for _, id := range ids {
			if s == id {
				return true
			}
		}
	}
	return false
}

func listsGroup(ch *wire.ClientHello, g uint16) bool {
	for _, x := range ch.Groups {
		if x == g {
			return true
		}
	}
	return false
}

func osslConfigs() []osslConfig {
	t13 := func(o Offer, ch *wire.ClientHello) bool { return has13x(o) }
	t12 := func(o Offer, ch *wire.ClientHello) bool { return o.Has(tls.VersionTLS12) && len(o.Suites12) > 0 }
	grp := func(g uint16) func(o Offer, ch *wire.ClientHello) bool {
		return func(o Offer, ch *wire.ClientHello) bool { return has13x(o) && listsGroup(ch, g) }
	}
	return []osslConfig{
		{name: "default-ecdsa", leaf: "ecdsa", want: func(o Offer, ch *wire.ClientHello) bool { return certOffered("ecdsa", o) }},
		{name: "default-rsa", leaf: "rsa", want: func(o Offer, ch *wire.ClientHello) bool { return certOffered("rsa", o) }},
		{name: "tls13-only", leaf: "ecdsa", args: []string{"-tls1_3"}, want: func(o Offer, ch *wire.ClientHello) bool { return t13(o, ch) && certOffered("ecdsa", o) }, vers: tls.VersionTLS13},
		{name: "tls12-only-rsa", leaf: "rsa", args: []string{"-tls1_2"}, want: func(o Offer, ch *wire.ClientHello) bool { return t12(o, ch) && certOffered("rsa", o) }, vers: tls.VersionTLS12},
		{name: "tls12-only-ecdsa", leaf: "ecdsa", args: []string{"-tls1_2"}, want: func(o Offer, ch *wire.ClientHello) bool {
			return t12(o, ch) && certOffered("ecdsa", o) && offersSuite(ch, 0xc02b, 0xc02c, 0xcca9, 0xc009, 0xc00a, 0xc023)
		}, vers: tls.VersionTLS12},
		{name: "group-x25519", leaf: "rsa", args: []string{"-tls1_3", "-groups", "X25519"}, want: func(o Offer, ch *wire.ClientHello) bool {
			return grp(0x001d)(o, ch) && certOffered("rsa", o)
		}, vers: tls.VersionTLS13, group: 0x001d},
		{name: "group-p256", leaf: "rsa", args: []string{"-tls1_3", "-groups", "P-256"}, want: func(o Offer, ch *wire.ClientHello) bool {
			return grp(0x0017)(o, ch) && certOffered("rsa", o)
		}, vers: tls.VersionTLS13, group: 0x0017},
		{name: "group-p384", leaf: "rsa", args: []string{"-tls1_3", "-groups", "P-384"}, want: func(o Offer, ch *wire.ClientHello) bool {
			return grp(0x0018)(o, ch) && certOffered("rsa", o)
		}, vers: tls.VersionTLS13, group: 0x0018},
		{name: "group-p521", leaf: "rsa", args: []string{"-tls1_3", "-groups", "P-521"}, want: func(o Offer, ch *wire.ClientHello) bool {
			return grp(0x0019)(o, ch) && certOffered("rsa", o)
		}, vers: tls.VersionTLS13, group: 0x0019},
		{name: "group-x25519mlkem768", leaf: "rsa", args: []string{"-tls1_3", "-groups", "X25519MLKEM768"}, want: func(o Offer, ch *wire.ClientHello) bool {
			return grp(0x11ec)(o, ch) && certOffered("rsa", o)
		}, vers: tls.VersionTLS13, group: 0x11ec},
		{name: "suite-chacha", leaf: "rsa", args: []string{"-tls1_3", "-ciphersuites", "TLS_CHACHA20_POLY1305_SHA256"}, want: func(o Offer, ch *wire.ClientHello) bool {
			return has13x(o) && offersSuite(ch, 0x1303) && certOffered("rsa", o)
		}, vers: tls.VersionTLS13, suite: 0x1303},
		{name: "suite-aes256", leaf: "rsa", args: []string{"-tls1_3", "-ciphersuites", "TLS_AES_256_GCM_SHA384"}, want: func(o Offer, ch *wire.ClientHello) bool {
			return has13x(o) && offersSuite(ch, 0x1302) && certOffered("rsa", o)
		}, vers: tls.VersionTLS13, suite: 0x1302},
		{name: "tls12-ecdhe-rsa-aes128gcm", leaf: "rsa", args: []string{"-tls1_2", "-cipher", "ECDHE-RSA-AES128-GCM-SHA256"}, want: func(o Offer, ch *wire.ClientHello) bool {
			return t12(o, ch) && offersSuite(ch, 0xc02f) && certOffered("rsa", o)
		}, vers: tls.VersionTLS12, suite: 0xc02f},
		{name: "tls12-ecdhe-rsa-chacha", leaf: "rsa", args: []string{"-tls1_2", "-cipher", "ECDHE-RSA-CHACHA20-POLY1305"}, want: func(o Offer, ch *wire.ClientHello) bool {
			return t12(o, ch) && offersSuite(ch, 0xcca8) && certOffered("rsa", o)
		}, vers: tls.VersionTLS12, suite: 0xcca8},
		{name: "tls12-ecdhe-ecdsa-aes256gcm", leaf: "ecdsa", args: []string{"-tls1_2", "-cipher", "ECDHE-ECDSA-AES256-GCM-SHA384"}, want: func(o Offer, ch *wire.ClientHello) bool {
			return t12(o, ch) && offersSuite(ch, 0xc02c) && certOffered("ecdsa", o)
		}, vers: tls.VersionTLS12, suite: 0xc02c},
		{name: "tls12-rsa-aes128gcm", leaf: "rsa", args: []string{"-tls1_2", "-cipher", "AES128-GCM-SHA256"}, want: func(o Offer, ch *wire.ClientHello) bool {
			return t12(o, ch) && offersSuite(ch, 0x009c) && certOffered("rsa", o)
		}, vers: tls.VersionTLS12, suite: 0x009c},
		{name: "tls12-ecdhe-rsa-aes256cbc", leaf: "rsa", args: []string{"-tls1_2", "-cipher", "ECDHE-RSA-AES256-SHA"}, want: func(o Offer, ch *wire.ClientHello) bool {
			return t12(o, ch) && offersSuite(ch, 0xc014) && certOffered("rsa", o)
		}, vers: tls.VersionTLS12, suite: 0xc014},
		{name: "alpn-h2", leaf: "rsa", args: []string{"-alpn", "h2,http/1.1"}, want: func(o Offer, ch *wire.ClientHello) bool {
			ok := false
			for _, p := range o.ALPN {
				if p == "h2" {
					ok = true
				}
			}
			return ok && certOffered("rsa", o)
		}, alpn: "h2"},
		{name: "ed25519-leaf", leaf: "ed25519", want: func(o Offer, ch *wire.ClientHello) bool { return certOffered("ed25519", o) }},
	}
}

// TLS <= 1.2 suites utls implements, by their OpenSSL names.
const opensslImplementedTLS12 = "ECDHE-ECDSA-AES128-GCM-SHA256:ECDHE-RSA-AES128-GCM-SHA256:ECDHE-ECDSA-AES256-GCM-SHA384:ECDHE-RSA-AES256-GCM-SHA384:" +
	"ECDHE-ECDSA-CHACHA20-POLY1305:ECDHE-RSA-CHACHA20-POLY1305:ECDHE-ECDSA-AES128-SHA:ECDHE-RSA-AES128-SHA:ECDHE-ECDSA-AES256-SHA:ECDHE-RSA-AES256-SHA:" +
	"AES128-GCM-SHA256:AES256-GCM-SHA384:AES128-SHA:AES256-SHA:ECDHE-ECDSA-AES128-SHA256:ECDHE-RSA-AES128-SHA256:AES128-SHA256"

type osslResult struct {
	err       error
	panicked  string
	state     tls.ConnectionState
	echoOK    bool
	echoErr   error
	c2s, s2c  []byte
	serverLog string
	startErr  error
}

// runAgainstOpenSSL drives one handshake + line echo (s_server -rev answers each line
// reversed) with the target against a fresh s_server process.
func runAgainstOpenSSL(tg Target, cfg osslConfig, sni string, extraClient func(c *tls.Config)) (res osslResult) {
	args := cfg.args
	pinned := false
	for _, a := range args {
		if a == "-cipher" {
			pinned = true
		}
	}
	if !pinned {
		// the statement quantifies over server choices utls implements: keep s_server away from
		// suites a mimicked hello lists but the library cannot run (DHE, CCM, ...)
		args = append(append([]string(nil), args...), "-cipher", opensslImplementedTLS12)
	}
	srv, err := peer.StartOpenSSL(cfg.leaf, args...)
	if err != nil {
		res.startErr = err
		return res
	}
	defer func() { res.serverLog = srv.Stop() }()
	raw, err := net.DialTimeout("tcp", srv.Addr, 5*time.Second)
	if err != nil {
		res.startErr = err
		return res
	}
	rc := &peer.RecConn{Conn: raw}
	defer rc.Close()
	rc.SetDeadline(time.Now().Add(peer.IODeadline))
	ccfg := peer.ClientConfig(sni)
	ccfg.OmitEmptyPsk = true
	if extraClient != nil {
		extraClient(ccfg)
	}
	u := tls.UClient(rc, ccfg, tg.ClientID())
	func() {
		defer func() {
			if r := recover(); r != nil {
				res.panicked = fmt.Sprint(r)
				res.err = fmt.Errorf("panic: %v", r)
			}
		}()
		if prep := tg.Prepare(); prep != nil {
			if err := prep(u); err != nil {
				res.err = fmt.Errorf("prepare: %w", err)
				return
			}
		}
		res.err = u.Handshake()
	}()
	if res.err == nil {
		res.state = u.ConnectionState()
		msg := []byte("verif-openssl-echo-0123456789")
		if _, err := u.Write(append(msg, '\n')); err != nil {
			res.echoErr = err
		} else {
			want := make([]byte, len(msg))
			for i := range msg {
				want[len(msg)-1-i] = msg[i]
			}
			got := make([]byte, 0, len(msg)+1)
			buf := make([]byte, 256)
			for len(got) < len(msg)+1 {
				n, err := u.Read(buf)
				got = append(got, buf[:n]...)
				if err != nil {
					res.echoErr = err
					break
				}
			}
			if res.echoErr == nil {
				if bytes.Equal(bytes.TrimRight(got, "\r\n"), want) {
					res.echoOK = true
				} else {
					res.echoErr = fmt.Errorf("echo mismatch: got %q", got)
				}
			}
		}
		u.Close()
	}
	res.c2s, res.s2c = rc.Snapshot()
	return res
}

// opensslSweep runs targets x configurations against s_server and applies C10's oracle
// (complete + data round trip unless the server's first record is a plaintext refusal),
// plus C11-style agreement between the negotiated parameters the client reports and what
// the server was restricted to.
func opensslSweep(r *mon.Run, targets []Target, perTarget int, label string) {
	if !peer.OpenSSLAvailable() {
		r.Note("openssl not found on PATH: the independent-peer pass was skipped")
		r.Count("openssl_available", 0)
		return
	}
	if r.Counter("openssl_available") == 0 {
		r.Count("openssl_available", 1)
		r.Note("independent peer: " + strings.TrimSpace(peer.OpenSSLVersion()))
	}
	defer peer.OpenSSLCleanup()
	cfgs := osslConfigs()
	type job struct {
		t  Target
		ch *wire.ClientHello
		c  osslConfig
	}
	var jobs []job
	for ti, tg := range targets {
		ch, err := tg.Probe("example.test")
		if err != nil {
			continue
		}
		o := OfferOf(ch, targetMinVersion(tg))
		var app []osslConfig
		for _, c := range cfgs {
			if c.want == nil || c.want(o, ch) {
				app = append(app, c)
			}
		}
		if perTarget > 0 && len(app) > perTarget {
			rg := Sub("openssl-select-"+label, ti)
			app = pickSubset(rg, app, perTarget, perTarget)
		}
		for _, c := range app {
			jobs = append(jobs, job{tg, ch, c})
		}
	}
	r.Count("openssl_cases_planned", int64(len(jobs)))
	parallel(len(jobs), func(i int) {
		j := jobs[i]
		res := runAgainstOpenSSL(j.t, j.c, "example.test", nil)
		for retry := 0; retry < 2 && res.startErr == nil && res.err != nil && len(res.s2c) == 0; retry++ {
			// not a single byte from the server: a TCP-level event, not a TLS answer; try a fresh server
			res = runAgainstOpenSSL(j.t, j.c, "example.test", nil)
		}
		if res.startErr == nil && res.err != nil && len(res.s2c) == 0 && res.panicked == "" {
			// still nothing: cannot be attributed to either side at the TLS level
			r.Count("openssl_no_response", 1)
			r.Note(fmt.Sprintf("openssl s_server %s answered %s with no TLS record at all (%v); not a verdict", j.c.name, j.t.Name, res.err))
			return
		}
		if res.startErr != nil {
			r.Count("openssl_start_failed", 1)
			return
		}
		sig := map[string]string{"peer": "openssl", "target": family(j.t.Name), "config": j.c.name}
		rep := map[string]any{"target": j.t.Name, "config": j.c.name, "args": j.c.args, "client_err": fmt.Sprint(res.err), "echo_err": fmt.Sprint(res.echoErr), "s_server_log": res.serverLog, "hello": mon.Hex(j.ch.Raw)}
		outcome := "ok"
		switch {
		case res.panicked != "":
			sig["kind"] = "panic"
			r.Violation(sig, fmt.Sprintf("%s vs openssl %s: %s", j.t.Name, j.c.name, firstLine(res.panicked)), rep)
			outcome = "panic"
		case res.err == nil && res.echoOK:
			r.Count("openssl_completed", 1)
			if sawHRR(res.s2c) {
				r.Count("openssl_hrr_completed", 1)
			}
			cs := res.state
			if j.c.vers != 0 && cs.Version != j.c.vers {
				sig["kind"] = "version_disagrees_with_server_restriction"
				r.Violation(sig, fmt.Sprintf("%s vs openssl %s: client reports version %#04x, the server only speaks %#04x", j.t.Name, j.c.name, cs.Version, j.c.vers), rep)
			}
			if j.c.suite != 0 && cs.CipherSuite != j.c.suite {
				sig["kind"] = "suite_disagrees_with_server_restriction"
				r.Violation(sig, fmt.Sprintf("%s vs openssl %s: client reports suite %#04x, the server only has %#04x", j.t.Name, j.c.name, cs.CipherSuite, j.c.suite), rep)
			}
			if j.c.alpn != "" && cs.NegotiatedProtocol != j.c.alpn {
				// the server picks by its own preference among the client's list: h2 first
				sig["kind"] = "alpn_disagrees"
				r.Violation(sig, fmt.Sprintf("%s vs openssl %s: negotiated protocol %q", j.t.Name, j.c.name, cs.NegotiatedProtocol), rep)
			}
			if g, ok := stateCurve(cs); ok && j.c.group != 0 && cs.Version == tls.VersionTLS13 && g != j.c.group {
				sig["kind"] = "group_disagrees_with_server_restriction"
				r.Violation(sig, fmt.Sprintf("%s vs openssl %s: client reports group %#04x, the server only has %#04x", j.t.Name, j.c.name, g, j.c.group), rep)
			}
		case res.err == nil:
			sig["kind"] = "data_roundtrip_failed"
			r.Violation(sig, fmt.Sprintf("%s vs openssl %s: handshake completed but the echo failed: %v", j.t.Name, j.c.name, res.echoErr), rep)
			outcome = "echo"
		default:
			h := &peer.HS{C2S: res.c2s, S2C: res.s2c}
			allowed, class := classifyFailure(h)
			outcome = class
			// precondition of the statement: the server's choice must be something utls implements
			if msgs, _, _, _ := wire.PlainHandshake(res.s2c); !allowed {
				for _, m := range msgs {
					if m.Type != 2 {
						continue
					}
					if sh, err := wire.ParseServerHello(m.Raw); err == nil && !sh.IsHRR {
						_, ok12 := serverSuites12[sh.Suite]
						if !ok12 && sh.Suite != 0x1301 && sh.Suite != 0x1302 && sh.Suite != 0x1303 && sh.Suite != tls.OLD_TLS_ECDHE_RSA_WITH_CHACHA20_POLY1305_SHA256 && sh.Suite != tls.OLD_TLS_ECDHE_ECDSA_WITH_CHACHA20_POLY1305_SHA256 {
							r.Count("openssl_chose_unimplemented_suite", 1)
							r.Case(fmt.Sprintf("openssl|%s|%s|void", family(j.t.Name), j.c.name), false)
							return
						}
					}
				}
			}
			if allowed {
				r.Count("openssl_refused", 1)
				r.Note(fmt.Sprintf("openssl refused %s / %s: %s", family(j.t.Name), j.c.name, class))
			} else {
				sig["kind"] = "handshake_with_independent_server_failed"
				sig["class"] = class
				r.Violation(sig, fmt.Sprintf("%s vs openssl s_server %s %v: handshake failed although the hello offers what the server needs (%s): client=%v", j.t.Name, j.c.name, j.c.args, class, res.err), rep)
			}
		}
		r.Case(fmt.Sprintf("openssl|%s|%s|%s", family(j.t.Name), j.c.name, outcome), outcome == "ok")
		if i%97 == 0 {
			r.Sample(map[string]any{"peer": "openssl s_server", "target": j.t.Name, "config": j.c.name, "args": j.c.args, "outcome": outcome, "version": fmt.Sprintf("%#04x", res.state.Version), "suite": fmt.Sprintf("%#04x", res.state.CipherSuite)})
		}
	})
}

// opensslResumption: histories of connections of one target over a shared client cache
// against ONE s_server process (TLS 1.2 tickets / TLS 1.3 PSKs issued and checked by an
// independent implementation).  Asserted: no follow-up connection fails (a wrong binder,
// a ticket offered in a form the server must reject, a hello whose length changed when
// the binder was inserted all make OpenSSL abort); counted: how many resumed.
func opensslResumption(r *mon.Run, targets []Target, mustResume func(tg Target, tls13 bool) bool) {
	if !peer.OpenSSLAvailable() {
		r.Count("openssl_available", 0)
		return
	}
	if r.Counter("openssl_available") == 0 {
		r.Count("openssl_available", 1)
		r.Note("independent peer for resumption: " + strings.TrimSpace(peer.OpenSSLVersion()))
	}
	defer peer.OpenSSLCleanup()
	type job struct {
		t     Target
		tls13 bool
	}
	var jobs []job
	for _, tg := range targets {
		ch, err := tg.Probe("example.test")
		if err != nil {
			continue
		}
		o := OfferOf(ch, targetMinVersion(tg))
		if has13x(o) && certOffered("rsa", o) {
			jobs = append(jobs, job{tg, true})
		}
		if o.Has(tls.VersionTLS12) && len(o.Suites12) > 0 && certOffered("rsa", o) {
			jobs = append(jobs, job{tg, false})
		}
	}
	parallel(len(jobs), func(i int) {
		j := jobs[i]
		const nconn = 4
		args := []string{"-naccept", fmt.Sprint(nconn)}
		vers := "tls13"
		if !j.tls13 {
			args = append(args, "-tls1_2")
			vers = "tls12"
		} else {
			args = append(args, "-tls1_3")
		}
		srv, err := peer.StartOpenSSL("rsa", args...)
		if err != nil {
			r.Count("openssl_start_failed", 1)
			return
		}
		log := ""
		defer func() { log = srv.Stop(); _ = log }()
		cache := tls.NewLRUClientSessionCache(8)
		sig := map[string]string{"peer": "openssl", "target": family(j.t.Name), "server": vers}
		for k := 0; k < nconn; k++ {
			tg := j.t
			if k == 2 && tg.ID.Client != tls.HelloGolang.Client {
				tg.InspectFirst = true
			}
			raw, err := net.DialTimeout("tcp", srv.Addr, 5*time.Second)
			if err != nil {
				r.Count("openssl_dial_failed", 1)
				return
			}
			rc := &peer.RecConn{Conn: raw}
			rc.SetDeadline(time.Now().Add(peer.IODeadline))
			ccfg := peer.ClientConfig("example.test")
			ccfg.OmitEmptyPsk = true
			ccfg.ClientSessionCache = cache
			ccfg.PreferSkipResumptionOnNilExtension = true
			u := tls.UClient(rc, ccfg, tg.ClientID())
			var herr error
			var pn string
			func() {
				defer func() {
					if x := recover(); x != nil {
						pn = fmt.Sprint(x)
					}
				}()
				if prep := tg.Prepare(); prep != nil {
					if herr = prep(u); herr != nil {
						return
					}
				}
				herr = u.Handshake()
			}()
			c2s, s2c := rc.Snapshot()
			rep := map[string]any{"target": j.t.Name, "server": vers, "connection": k, "client_err": fmt.Sprint(herr)}
			if pn != "" {
				sig["kind"] = "panic"
				r.Violation(sig, fmt.Sprintf("%s connection %d vs openssl: %s", j.t.Name, k, pn), rep)
				rc.Close()
				return
			}
			if herr != nil {
				if len(s2c) == 0 {
					r.Count("openssl_no_response", 1)
					rc.Close()
					return
				}
				allowed, class := classifyFailure(&peer.HS{C2S: c2s, S2C: s2c})
				if !allowed {
					sig["kind"] = "connection_over_shared_cache_failed_with_independent_server"
					sig["connection"] = fmt.Sprint(k)
					sig["class"] = class
					r.Violation(sig, fmt.Sprintf("%s vs openssl s_server (%s): connection %d over the shared cache failed (%s): %v", j.t.Name, vers, k, class, herr), rep)
				}
				rc.Close()
				return
			}
			// one echo round trip: TLS 1.3 tickets arrive with / before it
			msg := []byte("resume-probe\n")
			u.Write(msg)
			buf := make([]byte, 256)
			got := 0
			for got < len(msg) {
				n, err := u.Read(buf)
				got += n
				if err != nil {
					break
				}
			}
			cs := u.ConnectionState()
			u.Close()
			rc.Close()
			if k > 0 && cs.DidResume {
				r.Count("openssl_resumed_"+vers, 1)
			}
			if k > 0 && !cs.DidResume && mustResume(j.t, j.tls13) {
				r.Count("openssl_not_resumed_"+vers, 1)
				r.Note(fmt.Sprintf("%s vs openssl %s: connection %d completed without resuming", j.t.Name, vers, k))
			}
			r.Case(fmt.Sprintf("openssl-resume|%s|%s|%d|%v", family(j.t.Name), vers, k, cs.DidResume), k > 0)
		}
	})
}
