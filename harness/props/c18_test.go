package props

import (
	"fmt"
	"strings"
	"sync"
	"testing"

	tls "github.com/refraction-networking/utls"
	"verifharness/mon"
	"verifharness/peer"
	"verifharness/wire"
)

// C18 — Key shares are fresh, correctly sized, and backed by the matching private key.
func TestC18(t *testing.T) {
	r := mon.New("C18", "parrots, Golang, seeded randomized and generated custom specs, and specs carrying every ordered pair of shareable groups (classical and hybrid) x N connections (fresh spec per connection, and one spec object reused for consecutive connections): key_exchange sizes per group from the strictly parsed extension; exactly-once monitor (hash set) over every non-GREASE key_exchange value, client random and session id of the whole run; QUIC hellos carry an empty session id; and for every share a hello carries, a server pinned to that group (CurvePreferences) completes the handshake with data echo (equal secrets). distinct = (target family, group, outcome)")
	defer r.Finish(t)
	var targets []Target
	targets = append(targets, ParrotTargets(true)...)
	// fingerprinted copies of the hybrid-share parrots (the captured share must not be replayed)
	for _, pn := range []string{"Chrome_115_PQ", "Chrome_120_PQ", "Chrome_131", "Chrome_133", "Firefox_120", "Chrome_102"} {
		p := ParrotByName(pn)
		if ft, err := FingerprintedTarget(Target{Name: p.Name, ID: p.ID}, "example.test"); err == nil {
			targets = append(targets, ft)
		}
	}
	for i := 0; i < mon.Pick(90, 600); i++ {
		targets = append(targets, RandomizedTarget(i))
	}
	for i := 0; i < mon.Pick(120, 1000); i++ {
		targets = append(targets, CustomTarget(i))
	}
	// every ordered pair of shareable groups in one hello (a Chrome spec with its
	// supported_groups / key_share replaced): whichever of the two the server selects, the
	// client must hold that share's private key
	pairGroups := []tls.CurveID{tls.X25519, tls.CurveP256, tls.CurveP384, tls.CurveP521, tls.X25519MLKEM768, tls.X25519Kyber768Draft00}
	for _, g1 := range pairGroups {
		for _, g2 := range pairGroups {
			if g1 == g2 {
				continue
			}
			g1, g2 := g1, g2
			targets = append(targets, Target{Name: fmt.Sprintf("pair-%04x-%04x", uint16(g1), uint16(g2)), Spec: func() (*tls.ClientHelloSpec, error) {
				sp, err := tls.UTLSIdToSpec(tls.HelloChrome_120)
				if err != nil {
					return nil, err
				}
				for i, e := range sp.Extensions {
					switch e.(type) {
					case *tls.SupportedCurvesExtension:
						sp.Extensions[i] = &tls.SupportedCurvesExtension{Curves: []tls.CurveID{tls.GREASE_PLACEHOLDER, g1, g2, tls.X25519, tls.CurveP256}}
					case *tls.KeyShareExtension:
						sp.Extensions[i] = &tls.KeyShareExtension{KeyShares: []tls.KeyShare{{Group: tls.GREASE_PLACEHOLDER, Data: []byte{0}}, {Group: g1}, {Group: g2}}}
					}
				}
				return &sp, nil
			}})
		}
	}
	conns := mon.Pick(32, 1500)
	var mu sync.Mutex
	seenKey := map[string]string{}
	seenRandom := map[string]string{}
	seenSID := map[string]string{}
	observe := func(tname string, ch *wire.ClientHello, raw []byte) {
		viol := func(kind, what string) {
			r.Violation(map[string]string{"kind": kind, "target": family(tname)}, tname+": "+what, map[string]any{"hello": mon.Hex(raw)})
		}
		mu.Lock()
		defer mu.Unlock()
		for _, ks := range ch.KeyShares {
			if wire.IsGREASE(ks.Group) {
				continue
			}
			if want := KeyShareSize(ks.Group); want > 0 && len(ks.Key) != want {
				viol("key_share_size", fmt.Sprintf("group %#04x share has %d bytes, needs %d", ks.Group, len(ks.Key), want))
			}
			k := string(ks.Key)
			if prev, dup := seenKey[k]; dup {
				viol("key_share_repeated", fmt.Sprintf("key_exchange for group %#04x was already sent by %s", ks.Group, prev))
			}
			seenKey[k] = tname
			r.Count("key_shares_observed", 1)
		}
		if prev, dup := seenRandom[string(ch.Random)]; dup {
			viol("client_random_repeated", "client random already used by "+prev)
		}
		seenRandom[string(ch.Random)] = tname
		if len(ch.SessionID) > 0 {
			if prev, dup := seenSID[string(ch.SessionID)]; dup {
				viol("session_id_repeated", "legacy session id already used by "+prev)
			}
			seenSID[string(ch.SessionID)] = tname
		}
		r.Count("hellos_observed", 1)
	}
	// (1) many hellos per target, no server
	parallel(len(targets), func(ti int) {
		tg := targets[ti]
		for k := 0; k < conns; k++ {
			ch, err := tg.Probe("example.test")
			if err != nil {
				r.Note(fmt.Sprintf("%s: %v", tg.Name, err))
				return
			}
			observe(tg.Name, ch, ch.Raw)
		}
	})
	// (1b) returning clients: the cache holds ONE TLS 1.2 ticket / TLS 1.3 session, and several
	// hellos are built from that same cache state (connections opened side by side before any
	// of them completes): random, session id and key shares are fresh in each of them
	for ti, tg := range targets {
		if ti%mon.Pick(4, 1) != 0 && ti >= len(AllParrots) {
			continue
		}
		for _, maxv := range []uint16{tls.VersionTLS12, tls.VersionTLS13} {
			cache := tls.NewLRUClientSessionCache(4)
			scfg := peer.ServerConfig()
			scfg.MaxVersion = maxv
			withCache := func(c *tls.Config) {
				c.ClientSessionCache = cache
				c.PreferSkipResumptionOnNilExtension = true
			}
			if h := RunCase(tg, GridCase{Server: scfg}, "example.test", withCache, peer.Opts{}); !h.OK() {
				continue
			}
			for k := 0; k < 4; k++ {
				cfg := peer.ClientConfig("example.test")
				cfg.OmitEmptyPsk = true
				withCache(cfg)
				raw, _, err, pn := buildHello(cfg, tg.ClientID(), tg.Prepare())
				if err != nil || pn != "" {
					break
				}
				if ch, err := wire.ParseClientHello(raw); err == nil {
					observe(tg.Name+"(returning)", ch, raw)
					if len(ch.Ticket) > 0 || len(ch.PSKIds) > 0 {
						r.Count("returning_hellos_offering_a_session", 1)
					}
				}
			}
		}
	}
	r.Floor("returning_hellos_offering_a_session", 100)
	// (2) every share really works: pin the server to the share's group
	type job struct {
		t   Target
		g   uint16
		ech bool
	}
	var jobs []job
	for _, tg := range targets {
		ch, err := tg.Probe("example.test")
		if err != nil {
			continue
		}
		o := OfferOf(ch, targetMinVersion(tg))
		if !o.Has(tls.VersionTLS13) || len(o.Suites13) == 0 {
			continue
		}
		for _, g := range o.Shares {
			if !serverGroups[g] && g != 0x6399 {
				r.Count("shares_without_server", 1)
				continue
			}
			if g == 0x6399 {
				r.Count("kyber_draft00_shares_exercised_via_hooked_server", 1) // no stock server implements it: hook H7
			}
			jobs = append(jobs, job{tg, g, false})
			if g != 0x6399 && tg.Pre == nil && tg.Edit == nil && tg.Spec == nil && targetHasECH(tg) {
				// (parrots only: the inner hello always offers crypto/tls's three TLS 1.3 suites,
				// so a custom spec that offers fewer fails on the suite, not on the share)
				// the same share on a connection whose (real) ECH offer is accepted: the hello
				// that is answered is the inner one, and every share sent must still be usable
				jobs = append(jobs, job{tg, g, true})
			}
		}
	}
	parallel(len(jobs), func(i int) {
		j := jobs[i]
		scfg := peer.ServerConfig()
		var extra func(c *tls.Config)
		if j.ech {
			scfg.EncryptedClientHelloKeys = peer.ECHServerKeys(true, gridECHKey())
			extra = func(c *tls.Config) { c.EncryptedClientHelloConfigList = peer.ECHConfigList(gridECHKey()) }
			r.Count("shares_exercised_under_accepted_ech_planned", 1)
		}
		gc := GridCase{Server: scfg}
		if j.g == 0x6399 {
			gc.Plan = &tls.VerifPlan{ForceGroup: tls.X25519Kyber768Draft00}
		} else {
			scfg.CurvePreferences = []tls.CurveID{tls.CurveID(j.g)}
		}
		h := RunCase(j.t, gc, "example.test", extra, peer.Opts{})
		if j.ech && h.OK() && h.CState.ECHAccepted {
			r.Count("shares_exercised_under_accepted_ech", 1)
		}
		outcome := "ok"
		for _, hm := range wire.ClientHellos(h.C2S) {
			if ch, err := wire.ParseClientHello(hm); err == nil {
				observe(j.t.Name, ch, hm)
			}
		}
		if !h.OK() {
			allowed, class := classifyFailure(h)
			outcome = class
			if !allowed {
				r.Violation(map[string]string{"kind": "share_not_usable", "target": family(j.t.Name), "group": fmt.Sprintf("%04x", j.g)},
					fmt.Sprintf("%s sent a key share for group %#04x but the handshake with a server pinned to that group fails (%s): client=%v server=%v", j.t.Name, j.g, class, h.ClientErr, h.ServerErr),
					map[string]any{"case": i, "target": j.t.Name, "group": j.g})
			}
		} else {
			r.Count("shares_exercised", 1)
			if g, ok := stateCurve(h.SState); ok && g != j.g {
				r.Violation(map[string]string{"kind": "share_group_mismatch", "target": family(j.t.Name)}, fmt.Sprintf("server pinned to %#04x negotiated %#04x", j.g, g), nil)
			}
			if sawHRR(h.S2C) {
				r.Violation(map[string]string{"kind": "hrr_despite_share", "target": family(j.t.Name), "group": fmt.Sprintf("%04x", j.g)}, fmt.Sprintf("%s: server asked for a retry although a share for %#04x was on the wire", j.t.Name, j.g), nil)
			}
		}
		r.Case(fmt.Sprintf("%s|%04x|%s", family(j.t.Name), j.g, outcome), true)
		if i%97 == 0 {
			r.Sample(map[string]any{"target": j.t.Name, "group": fmt.Sprintf("%#04x", j.g), "outcome": outcome})
		}
	})
	// (2b) ONE spec object used for consecutive connections (sequentially: ApplyPreset writes
	// into the spec): what an earlier connection left in the spec's extension objects must
	// not be sent again, and every connection must hold the private keys of what it sends
	for _, tg := range SharedSpecTargets() {
		for k := 0; k < 4; k++ {
			scfg := peer.ServerConfig()
			h := RunCase(tg, GridCase{Server: scfg}, []string{"example.test", "www.example.test"}[k%2], nil, peer.Opts{})
			for hi, hm := range wire.ClientHellos(h.C2S) {
				if hi > 0 {
					break // a second hello after a HelloRetryRequest repeats the random by design
				}
				if ch, err := wire.ParseClientHello(hm); err == nil {
					observe(tg.Name, ch, hm)
					wantSNI := []string{"example.test", "www.example.test"}[k%2]
					if strings.HasSuffix(tg.Name, "+named-sni") {
						wantSNI = "example.test" // the spec names the host itself: that name is sent, whatever the Config says
					}
					if ch.SNI != nil && *ch.SNI != wantSNI {
						r.Violation(map[string]string{"kind": "stale_server_name_from_reused_spec", "target": family(tg.Name)},
							fmt.Sprintf("%s connection %d: SNI %q on the wire, expected %q", tg.Name, k, *ch.SNI, wantSNI), nil)
					}
				}
			}
			outcome := "ok"
			if !h.OK() {
				allowed, class := classifyFailure(h)
				outcome = class
				if !allowed {
					r.Violation(map[string]string{"kind": "reused_spec_connection_fails", "target": family(tg.Name)},
						fmt.Sprintf("%s: connection %d made with the same spec object fails (%s): client=%v server=%v", tg.Name, k, class, h.ClientErr, h.ServerErr), map[string]any{"target": tg.Name, "connection": k})
				}
			} else {
				r.Count("reused_spec_connections_ok", 1)
			}
			r.Case(fmt.Sprintf("%s|conn%d|%s", tg.Name, k, outcome), true)
		}
	}
	r.Floor("reused_spec_connections_ok", 20)
	// (3) QUIC: empty legacy session id
	for i := 0; i < mon.Pick(400, 3000); i++ {
		rg := Sub("C18quic", i)
		spec, _ := GenSpec(rg, GenOpts{QUIC: true, ForHandshake: true})
		cfg := &tls.Config{ServerName: "example.test", MinVersion: tls.VersionTLS13, NextProtos: []string{"h3"}}
		raw, err, pn, hung := quicFirstHello(cfg, spec)
		if hung || err != nil || pn != "" {
			continue
		}
		ch, err := wire.ParseClientHello(raw)
		if err != nil {
			continue
		}
		r.Count("quic_hellos", 1)
		if len(ch.SessionID) != 0 {
			r.Violation(map[string]string{"kind": "quic_session_id"}, fmt.Sprintf("QUIC ClientHello has a %d-byte legacy session id", len(ch.SessionID)), mon.Hex(raw))
		}
		observe("quic", ch, raw)
	}
	r.Floor("key_shares_observed", 1000)
	r.Floor("shares_exercised", 60)
	r.Floor("shares_exercised_under_accepted_ech", 4)
	r.Floor("quic_hellos", 50)
	r.Assume("X25519Kyber768Draft00 has no stock server: its server side is the verif hook H7 (ML-KEM-768 encapsulation + Kyber round-3 KDF written independently of the client's code)")
}
