package props

import (
	"bytes"
	"context"
	"errors"
	"fmt"
	"io"
	"math/rand"
	"strings"
	"sync"
	"sync/atomic"
	"testing"
	"time"

	tls "github.com/refraction-networking/utls"
	"verifharness/mon"
	"verifharness/peer"
	"verifharness/wire"
)

// edit is one documented mutation applied between BuildHandshakeState and Handshake,
// together with the check that it is visible in the parsed wire hello.
type helloEdit struct {
	name    string
	apply   func(u *tls.UConn) error
	visible func(ch *wire.ClientHello) string // "" = visible
}

func genEdit(rg *rand.Rand, u *tls.UConn) *helloEdit { return genEditKind(rg, u, rg.Intn(12)) }

const c01EditKinds = 12

func genEditKind(rg *rand.Rand, u *tls.UConn, kind int) *helloEdit {
	switch kind {
	case 8: // direct edit of the server_name extension object (in place, or replaced by a new one)
		name := []string{"direct.example.test", "edited.test", "d.e.f.example.test"}[rg.Intn(3)]
		replace := rg.Intn(2) == 0
		changed := false
		return &helloEdit{"Extensions[SNI].ServerName", func(u *tls.UConn) error {
			for i, e := range u.Extensions {
				if sn, ok := e.(*tls.SNIExtension); ok {
					if replace {
						u.Extensions[i] = &tls.SNIExtension{ServerName: name}
					} else {
						sn.ServerName = name
					}
					changed = true
				}
			}
			return nil
		}, func(ch *wire.ClientHello) string {
			if changed && (ch.SNI == nil || *ch.SNI != name) {
				return fmt.Sprintf("SNI on the wire is %v, the SNIExtension in Extensions was edited to %q", ch.SNI, name)
			}
			return ""
		}}
	case 9: // drop the last signature algorithm
		var want []uint16
		changed := false
		return &helloEdit{"Extensions[signature_algorithms]", func(u *tls.UConn) error {
			for _, e := range u.Extensions {
				if sa, ok := e.(*tls.SignatureAlgorithmsExtension); ok && len(sa.SupportedSignatureAlgorithms) > 3 {
					sa.SupportedSignatureAlgorithms = sa.SupportedSignatureAlgorithms[:len(sa.SupportedSignatureAlgorithms)-1]
					want = nil
					for _, x := range sa.SupportedSignatureAlgorithms {
						want = append(want, uint16(x))
					}
					changed = true
				}
			}
			return nil
		}, func(ch *wire.ClientHello) string {
			if changed && fmt.Sprint(ch.SigAlgs) != fmt.Sprint(want) {
				return fmt.Sprintf("signature_algorithms on the wire %04x, edited to %04x", ch.SigAlgs, want)
			}
			return ""
		}}
	case 10: // append a group to supported_groups
		var want []uint16
		changed := false
		return &helloEdit{"Extensions[supported_groups]", func(u *tls.UConn) error {
			for _, e := range u.Extensions {
				if sc, ok := e.(*tls.SupportedCurvesExtension); ok {
					has := false
					for _, c := range sc.Curves {
						if c == tls.CurveP521 {
							has = true
						}
					}
					if has {
						continue
					}
					sc.Curves = append(append([]tls.CurveID(nil), sc.Curves...), tls.CurveP521)
					changed = true
				}
			}
			return nil
		}, func(ch *wire.ClientHello) string {
			_ = want
			if !changed {
				return ""
			}
			if len(ch.Groups) == 0 || ch.Groups[len(ch.Groups)-1] != uint16(tls.CurveP521) {
				return fmt.Sprintf("supported_groups on the wire %04x: the appended P-521 is missing", ch.Groups)
			}
			return ""
		}}
	case 11: // change the list of compress_certificate algorithms / psk modes / record size limit
		changed := ""
		return &helloEdit{"Extensions[misc field]", func(u *tls.UConn) error {
			for _, e := range u.Extensions {
				switch x := e.(type) {
				case *tls.UtlsCompressCertExtension:
					if changed == "" {
						x.Algorithms = []tls.CertCompressionAlgo{tls.CertCompressionZlib, tls.CertCompressionBrotli}
						changed = "cc"
					}
				case *tls.FakeRecordSizeLimitExtension:
					if changed == "" {
						x.Limit = 0x3fff
						changed = "rsl"
					}
				}
			}
			return nil
		}, func(ch *wire.ClientHello) string {
			switch changed {
			case "cc":
				if fmt.Sprint(ch.CertCompAlgs) != fmt.Sprint([]uint16{1, 2}) {
					return fmt.Sprintf("compress_certificate on the wire %v, edited to [1 2]", ch.CertCompAlgs)
				}
			case "rsl":
				if ch.RecordLimit != 0x3fff {
					return fmt.Sprintf("record_size_limit on the wire %d, edited to 16383", ch.RecordLimit)
				}
			}
			return ""
		}}
	case 0:
		rnd := randBytes(rg, 32)
		return &helloEdit{"SetClientRandom", func(u *tls.UConn) error { return u.SetClientRandom(rnd) }, func(ch *wire.ClientHello) string {
			if !bytes.Equal(ch.Random, rnd) {
				return "client random on the wire is not the one set"
			}
			return ""
		}}
	case 1:
		name := []string{"a.test", "verif.test", "public.example.test", "x.example.test"}[rg.Intn(4)]
		return &helloEdit{"SetSNI(" + name + ")", func(u *tls.UConn) error { u.SetSNI(name); return nil }, func(ch *wire.ClientHello) string {
			if ch.Has(wire.ExtSNI) && (ch.SNI == nil || *ch.SNI != name) {
				return fmt.Sprintf("SNI on the wire is %v, SetSNI(%q) was called", ch.SNI, name)
			}
			return ""
		}}
	case 2:
		var want []uint16
		return &helloEdit{"Hello.CipherSuites", func(u *tls.UConn) error {
			cs := append([]uint16(nil), u.HandshakeState.Hello.CipherSuites...)
			if len(cs) > 4 {
				k := 3 + rg.Intn(len(cs)-3) // keep the leading (TLS 1.3 / GREASE) suites
				cs = append(cs[:k], cs[k+1:]...)
			}
			cs = append(cs, 0x00ff) // SCSV marker the server ignores
			want = cs
			u.HandshakeState.Hello.CipherSuites = cs
			return nil
		}, func(ch *wire.ClientHello) string {
			if fmt.Sprint(ch.Suites) != fmt.Sprint(want) {
				return fmt.Sprintf("cipher suites on the wire %04x, assigned %04x", ch.Suites, want)
			}
			return ""
		}}
	case 3:
		sid := randBytes(rg, 32)
		return &helloEdit{"Hello.SessionId", func(u *tls.UConn) error { u.HandshakeState.Hello.SessionId = sid; return nil }, func(ch *wire.ClientHello) string {
			if !bytes.Equal(ch.SessionID, sid) {
				return "session id on the wire is not the one assigned"
			}
			return ""
		}}
	case 4:
		id := uint16(0x7700 + rg.Intn(200))
		data := randBytes(rg, 1+rg.Intn(8))
		return &helloEdit{fmt.Sprintf("Extensions+=Generic(%#04x)", id), func(u *tls.UConn) error {
			// an unused type: an earlier edit of the same sequence may have drawn the same one
			for _, e := range u.Extensions {
				if ge, ok := e.(*tls.GenericExtension); ok && ge.Id == id {
					id++
				}
			}
			g := &tls.GenericExtension{Id: id, Data: data}
			n := len(u.Extensions)
			pos := n
			for pos > 0 {
				switch u.Extensions[pos-1].(type) {
				case tls.PreSharedKeyExtension, *tls.UtlsPaddingExtension:
					pos--
					continue
				}
				break
			}
			ex := append([]tls.TLSExtension(nil), u.Extensions[:pos]...)
			ex = append(ex, g)
			u.Extensions = append(ex, u.Extensions[pos:]...)
			return nil
		}, func(ch *wire.ClientHello) string {
			e := ch.Ext(id)
			if e == nil || !bytes.Equal(e.Data, data) {
				return fmt.Sprintf("appended extension %#04x is not on the wire", id)
			}
			return ""
		}}
	case 5:
		var dropped uint16
		had := false
		return &helloEdit{"Extensions-=status_request/SCT", func(u *tls.UConn) error {
			var ex []tls.TLSExtension
			for _, e := range u.Extensions {
				if !had {
					if _, ok := e.(*tls.StatusRequestExtension); ok {
						dropped, had = wire.ExtStatusRequest, true
						continue
					}
					if _, ok := e.(*tls.SCTExtension); ok {
						dropped, had = wire.ExtSCT, true
						continue
					}
				}
				ex = append(ex, e)
			}
			u.Extensions = ex
			return nil
		}, func(ch *wire.ClientHello) string {
			if had && ch.Has(dropped) {
				return fmt.Sprintf("dropped extension %d is still on the wire", dropped)
			}
			return ""
		}}
	case 6:
		var a, b uint16
		swapped := false
		return &helloEdit{"Extensions swap", func(u *tls.UConn) error {
			var idx []int
			for i, e := range u.Extensions {
				switch e.(type) {
				case tls.PreSharedKeyExtension, *tls.UtlsPaddingExtension, *tls.UtlsGREASEExtension, *tls.SNIExtension:
					continue
				}
				if ty, ok := ExtTypeOf(e); ok && ty != 0x0a0a {
					idx = append(idx, i)
				}
			}
			if len(idx) < 2 {
				return nil
			}
			i, j := idx[rg.Intn(len(idx))], idx[rg.Intn(len(idx))]
			if i == j {
				return nil
			}
			a, _ = ExtTypeOf(u.Extensions[i])
			b, _ = ExtTypeOf(u.Extensions[j])
			u.Extensions[i], u.Extensions[j] = u.Extensions[j], u.Extensions[i]
			if i > j {
				a, b = b, a
			}
			// after the swap the extension that was at the later index comes first
			a, b = b, a
			swapped = true
			return nil
		}, func(ch *wire.ClientHello) string {
			if !swapped {
				return ""
			}
			pa, pb := -1, -1
			for k, e := range ch.Exts {
				if e.Type == a && pa < 0 {
					pa = k
				}
				if e.Type == b && pb < 0 {
					pb = k
				}
			}
			if pa < 0 || pb < 0 {
				return "" // one of them has a zero-length encoding
			}
			if pa > pb {
				return fmt.Sprintf("swapped extensions %d and %d appear in the old order on the wire", a, b)
			}
			return ""
		}}
	default:
		var want []string
		changed := false
		return &helloEdit{"ALPN list", func(u *tls.UConn) error {
			for _, e := range u.Extensions {
				if al, ok := e.(*tls.ALPNExtension); ok && len(al.AlpnProtocols) > 0 {
					want = append([]string{"verif/1"}, al.AlpnProtocols...)
					al.AlpnProtocols = want
					changed = true
				}
			}
			return nil
		}, func(ch *wire.ClientHello) string {
			if changed && strings.Join(ch.ALPN, ",") != strings.Join(want, ",") {
				return fmt.Sprintf("ALPN on the wire %v, edited to %v", ch.ALPN, want)
			}
			return ""
		}}
	}
}

var c01ECHKey = sync.OnceValue(func() *peer.ECHKey { return peer.NewECHKey(9, "public.example.test", []uint16{1, 3}, 32) })

// C01 — The ClientHello on the wire is exactly the hello the caller built and inspected.
func TestC01(t *testing.T) {
	r := mon.New("C01", "non-Golang targets (every parrot, seeded randomized, generated custom specs) x edit sequences of length 0..4 over the documented mutators (SetClientRandom, SetSNI, Hello.CipherSuites, Hello.SessionId, Extensions append/drop/swap/ALPN) applied between BuildHandshakeState and Handshake x {plain server, HRR server} x {first visit, returning client with a cached TLS 1.2 / 1.3 session}: the first tapped ClientHello equals Hello.Raw as it stands when the server receives it and the snapshot taken after the last explicit BuildHandshakeState; every edit is visible in the strictly parsed wire hello; after a successful handshake Hello.Raw equals the last ClientHello on the wire. distinct = (target family, edit names, server behaviour)")
	defer r.Finish(t)
	var targets []Target
	targets = append(targets, ParrotTargets(false)...)
	for i := 0; i < mon.Pick(60, 5000); i++ {
		targets = append(targets, RandomizedTarget(i))
	}
	for i := 0; i < mon.Pick(60, 5000); i++ {
		targets = append(targets, CustomTarget(i))
	}
	seqs := mon.Pick(6, 60)
	type job struct {
		t   Target
		k   int
		hrr bool
		// single: exactly this one edit kind (-1: a random sequence of k%5 edits)
		single int
		// visit: 0 per the job index, 1 first visit, 2 returning (TLS 1.2 server), 3 returning (default server)
		visit int
	}
	var jobs []job
	for _, tg := range targets {
		for k := 0; k < seqs; k++ {
			jobs = append(jobs, job{tg, k, false, -1, 0}, job{tg, k, true, -1, 0})
		}
	}
	// every edit kind on its own, for every parrot (and a sample of the other targets), as a
	// first visit and as a returning client of a TLS 1.2 / a default server
	for ti, tg := range targets {
		if ti >= len(AllParrots)-1 && ti%mon.Pick(8, 1) != 0 {
			continue
		}
		for kind := 0; kind < c01EditKinds; kind++ {
			for visit := 1; visit <= 3; visit++ {
				jobs = append(jobs, job{tg, kind, false, kind, visit})
			}
		}
	}
	var mu sync.Mutex
	hrrSeen := map[string]int{}
	editSeen := map[string]int{}
	parallel(len(jobs), func(i int) {
		j := jobs[i]
		rg := Sub("C01", i)
		scfg := peer.ServerConfig()
		if j.hrr {
			ch, err := j.t.Probe("example.test")
			if err != nil {
				return
			}
			o := OfferOf(ch, targetMinVersion(j.t))
			g := hrrGroupFor(ch)
			if g == 0 || !o.Has(tls.VersionTLS13) || len(o.Suites13) == 0 {
				return
			}
			scfg.CurvePreferences = []tls.CurveID{g}
		}
		var snapshot, atServer []byte
		var edits []*helloEdit
		var uc *tls.UConn
		scfg.GetConfigForClient = func(*tls.ClientHelloInfo) (*tls.Config, error) {
			if atServer == nil && uc != nil {
				atServer = append([]byte{}, uc.HandshakeState.Hello.Raw...)
			}
			return nil, nil
		}
		nEdits := j.k % 5
		tg := j.t
		// one connection in eight is made with an ECH config list in the Config (the server
		// holds the key): the caller sees and the wire carries the outer hello.  Edits are left
		// out there (the names they set / check belong to the inner hello); a target whose spec
		// has no ECH extension cannot encode the offer and has to say so.
		echFlavour := i%8 == 5 && j.single < 0
		// ... except single edits of fields the outer hello carries as they are (client random,
		// cipher suites, session id, an appended extension, ALPN): a third of those jobs, first
		// visits only, also run over an ECH config list
		echEdit := j.single >= 0 && j.visit == 1 && i%3 == 0 && (j.single == 0 || j.single == 2 || j.single == 3 || j.single == 4 || j.single == 7) && targetHasECH(tg)
		if echFlavour || echEdit {
			if !echEdit {
				nEdits = 0
			}
			echFlavour = true
			scfg.EncryptedClientHelloKeys = peer.ECHServerKeys(true, c01ECHKey())
			if echEdit {
				r.Count("ech_connections_with_an_edit", 1)
			}
		}
		prep := tg.Prepare()
		opts := peer.Opts{Prepare: func(u *tls.UConn) error {
			uc = u
			if err := prep(u); err != nil {
				return err
			}
			if err := u.BuildHandshakeState(); err != nil {
				return err
			}
			usedClass := map[string]bool{}
			if j.single >= 0 {
				nEdits = 1
			}
			for e := 0; e < nEdits; e++ {
				ed := genEdit(rg, u)
				if j.single >= 0 {
					ed = genEditKind(rg, u, j.single)
				}
				// two edits of the same field in one sequence would hide each other: one per class
				class := strings.SplitN(strings.SplitN(ed.name, "(", 2)[0], "+=", 2)[0]
				if class == "SetSNI" || class == "Extensions[SNI].ServerName" {
					class = "sni"
				}
				if class != "Extensions" && usedClass[class] {
					continue
				}
				usedClass[class] = true
				if err := ed.apply(u); err != nil {
					return fmt.Errorf("%s: %w", ed.name, err)
				}
				edits = append(edits, ed)
			}
			if rg.Intn(2) == 0 || nEdits == 0 {
				// explicit rebuild and snapshot (the caller "inspects" the hello)
				if err := u.BuildHandshakeState(); err != nil {
					return err
				}
				snapshot = append([]byte{}, u.HandshakeState.Hello.Raw...)
			}
			return nil
		}}
		ccfg := peer.ClientConfig("example.test")
		ccfg.OmitEmptyPsk = true
		returning12 := j.visit == 2 || j.visit == 0 && i%8 == 6 && !j.hrr
		returning := returning12 || j.visit == 3 || j.visit == 0 && i%8 == 2
		if returning {
			// a returning client: the session cache holds a session from an earlier, clean
			// connection to this server (TLS 1.2 ticket or TLS 1.3 PSK), so the hello that is
			// built, edited and sent carries resumption material
			if returning12 {
				scfg.MaxVersion = tls.VersionTLS12
			}
			ccfg.ClientSessionCache = tls.NewLRUClientSessionCache(4)
			ccfg.PreferSkipResumptionOnNilExtension = true
			if w := peer.Run(ccfg, tg.ClientID(), scfg, peer.Opts{Prepare: prep}); w.OK() {
				r.Count("returning_clients", 1)
			}
		}
		if echFlavour {
			ccfg.EncryptedClientHelloConfigList = peer.ECHConfigList(c01ECHKey())
			r.Count("connections_with_ech_config", 1)
		}
		h := peer.Run(ccfg, tg.ClientID(), scfg, opts)
		var names []string
		for _, e := range edits {
			names = append(names, strings.SplitN(e.name, "(", 2)[0])
		}
		label := strings.Join(names, "+")
		sig := func(kind string) map[string]string {
			return map[string]string{"kind": kind, "target": family(tg.Name), "hrr": fmt.Sprint(j.hrr)}
		}
		rep := map[string]any{"case": i, "target": tg.Name, "edits": names, "hrr": j.hrr, "err": h.ErrString()}
		if h.ClientPanic != "" {
			r.Violation(sig("panic"), tg.Name+": "+firstLine(h.ClientPanic), rep)
			return
		}
		hellos := wire.ClientHellos(h.C2S)
		if len(hellos) == 0 {
			if h.ClientErr != nil && strings.HasPrefix(h.ClientErr.Error(), "prepare:") {
				r.Count("prepare_errors", 1)
				r.Case("prepare-error|"+label, false)
				return
			}
			var cve *tls.CertificateVerificationError
			if returning && (errors.As(h.ClientErr, &cve) || strings.Contains(h.ClientErr.Error(), "after a cached session for")) {
				// the cached session's certificate does not cover the name an edit put in force:
				// the client refuses before sending anything (C14's subject, not a C01 failure)
				r.Count("returning_client_refused_stale_session", 1)
				r.Case("refused-stale-session|"+label, false)
				return
			}
			r.Violation(sig("no_hello_on_wire"), fmt.Sprintf("%s: no ClientHello on the wire: %s", tg.Name, h.ErrString()), rep)
			return
		}
		ch1 := hellos[0]
		rep["ch1"] = mon.Hex(ch1)
		if atServer != nil && !bytes.Equal(ch1, atServer) {
			r.Violation(sig("wire_differs_from_raw"), fmt.Sprintf("%s [%s]: the first ClientHello on the wire (%d bytes) is not HandshakeState.Hello.Raw (%d bytes)", tg.Name, label, len(ch1), len(atServer)), rep)
		}
		if atServer != nil {
			r.Count("raw_at_server_compared", 1)
		}
		if snapshot != nil && !echFlavour {
			// (with a real ECH offer every build draws a new inner random and HPKE
			// encapsulation, so only Raw "as rebuilt at handshake start" is comparable)
			r.Count("snapshot_compared", 1)
			if !bytes.Equal(ch1, snapshot) {
				r.Violation(sig("wire_differs_from_inspected_hello"), fmt.Sprintf("%s [%s]: the hello sent differs from Hello.Raw as inspected after the last BuildHandshakeState (%d vs %d bytes)", tg.Name, label, len(ch1), len(snapshot)), rep)
			}
		}
		pch, err := wire.ParseClientHello(ch1)
		if err != nil {
			r.Violation(sig("unparseable_hello"), err.Error(), rep)
			return
		}
		// only the last edit of each kind is decisive
		last := map[string]*helloEdit{}
		for _, e := range edits {
			last[strings.SplitN(e.name, "(", 2)[0]] = e
		}
		for kname, e := range last {
			mu.Lock()
			editSeen[kname]++
			mu.Unlock()
			if kname == "Extensions swap" && len(edits) > 1 {
				continue // later structural edits may legitimately reorder again
			}
			if msg := e.visible(pch); msg != "" {
				s := sig("edit_not_visible")
				s["edit"] = kname
				r.Violation(s, fmt.Sprintf("%s: edit %s not visible on the wire: %s", tg.Name, e.name, msg), rep)
			}
		}
		if h.ClientErr == nil && h.ServerErr == nil {
			lastHello := hellos[len(hellos)-1]
			raw := h.Client.HandshakeState.Hello.Raw
			if !bytes.Equal(raw, lastHello) {
				which := "first"
				if bytes.Equal(raw, ch1) && len(hellos) > 1 {
					which = "still the FIRST hello"
				}
				r.Violation(sig("raw_after_handshake_differs"), fmt.Sprintf("%s [%s]: after a successful handshake with %d ClientHello(s) Hello.Raw is not the last one sent (%s)", tg.Name, label, len(hellos), which), rep)
			}
			r.Count("completed", 1)
			if len(hellos) == 2 {
				mu.Lock()
				hrrSeen[family(tg.Name)]++
				mu.Unlock()
				r.Count("hrr_completed", 1)
			}
		} else {
			r.Count("handshake_failed", 1)
			if allowed, class := classifyFailure(h); !allowed && len(edits) == 0 {
				r.Note(fmt.Sprintf("%s hrr=%v failed without edits: %s (%s)", tg.Name, j.hrr, class, h.ErrString()))
			}
		}
		r.Case(fmt.Sprintf("%s|%s|%v", family(tg.Name), label, j.hrr), true)
		if i%211 == 0 {
			r.Sample(map[string]any{"target": tg.Name, "edits": names, "hrr": j.hrr, "hellos": len(hellos), "ok": h.OK()})
		}
	})
	// several goroutines start the handshake of one connection at once (Handshake, Read and
	// Write all do): whoever ends up waiting must not rebuild the hello once it is over -
	// afterwards Hello.Raw is still the ClientHello that was sent
	concurrent := 0
	for i := 0; i < mon.Pick(80, 2000); i++ {
		rg := Sub("C01concurrent", i)
		tg := targets[rg.Intn(len(targets))]
		scfg := peer.ServerConfig()
		if i%2 == 1 {
			scfg.MaxVersion = tls.VersionTLS12
		}
		c, s, tap := peer.Pipe()
		dl := time.Now().Add(peer.IODeadline)
		c.SetDeadline(dl)
		s.SetDeadline(dl)
		srv := tls.Server(s, scfg)
		go func() {
			if srv.Handshake() == nil {
				io.Copy(io.Discard, srv)
			}
		}()
		ccfg := peer.ClientConfig("example.test")
		ccfg.OmitEmptyPsk = true
		u := tls.UClient(c, ccfg, tg.ClientID())
		if err := tg.Prepare()(u); err != nil {
			c.Close()
			s.Close()
			continue
		}
		// widen the window between the fast path and the handshake mutex (hook H10)
		// the delays are drawn before the callers start: the hook runs on every caller's goroutine
		delays := make([]time.Duration, 64)
		for k := range delays {
			delays[k] = time.Duration(rg.Intn(300)) * time.Microsecond
		}
		var delayIdx atomic.Int64
		tls.VerifAttach(u.Conn, &tls.VerifPlan{Yield: func(point string) { time.Sleep(delays[int(delayIdx.Add(1))%len(delays)]) }})
		var wg sync.WaitGroup
		errs := make([]error, 3+rg.Intn(3))
		for k := range errs {
			wg.Add(1)
			go func(k int) {
				defer wg.Done()
				switch k % 3 {
				case 0:
					errs[k] = u.Handshake()
				case 1:
					_, errs[k] = u.Write([]byte("x"))
				default:
					errs[k] = u.HandshakeContext(context.Background())
				}
			}(k)
		}
		wg.Wait()
		ok := true
		for _, e := range errs {
			if e != nil {
				ok = false
			}
		}
		c2s, _ := tap.Snapshot()
		hellos := wire.ClientHellos(c2s)
		if ok && len(hellos) > 0 {
			concurrent++
			if raw := u.HandshakeState.Hello.Raw; !bytes.Equal(raw, hellos[len(hellos)-1]) {
				r.Violation(map[string]string{"kind": "raw_after_handshake_differs", "target": family(tg.Name), "mode": "concurrent-callers"},
					fmt.Sprintf("%s: %d goroutines started the handshake together; afterwards Hello.Raw (%d bytes) is not the ClientHello that was sent (%d bytes)", tg.Name, len(errs), len(raw), len(hellos[len(hellos)-1])), map[string]any{"case": i, "target": tg.Name})
			}
		}
		u.Close()
		c.Close()
		s.Close()
		r.Case(fmt.Sprintf("concurrent|%s|%v", family(tg.Name), ok), true)
	}
	r.Count("concurrent_caller_handshakes", int64(concurrent))
	r.Floor("concurrent_caller_handshakes", int64(mon.Pick(40, 1000)))
	for k, v := range editSeen {
		r.Count("edit_"+strings.ReplaceAll(k, " ", "_"), int64(v))
		if v < 1 {
			r.Inconclusive("edit kind never exercised: " + k)
		}
	}
	r.Count("targets_with_hrr", int64(len(hrrSeen)))
	r.Floor("hrr_completed", 30)
	r.Floor("completed", 200)
	r.Floor("raw_at_server_compared", 200)
	if len(editSeen) < 8 {
		r.Inconclusive(fmt.Sprintf("only %d of 8 edit kinds exercised", len(editSeen)))
	}
	r.Assume("with a real ECH configuration (one connection in eight) the hello compared is the outer one and no edits are applied; what the inner hello carries is C15's subject")
}

// targetHasECH: the target's spec carries an ECH extension (GREASE or real), so that a
// connection with an ECH config list can encode its offer.
func targetHasECH(tg Target) bool {
	if tg.Spec != nil {
		sp, err := tg.Spec()
		return err == nil && specHasECH(sp)
	}
	sp, err := tls.UTLSIdToSpec(tg.ID)
	return err == nil && specHasECH(&sp)
}
