package props

import (
	"encoding/hex"
	"encoding/json"
	"fmt"
	"math/rand"
	"os"
	"path/filepath"
	"strings"
	"testing"

	tls "github.com/refraction-networking/utls"
	"verifharness/mon"
	"verifharness/wire"
)

// mutateBytes applies one structure-agnostic mutation.
func mutateBytes(rg *rand.Rand, b []byte) []byte {
	b = append([]byte(nil), b...)
	if len(b) == 0 {
		return randBytes(rg, rg.Intn(50))
	}
	switch rg.Intn(9) {
	case 0: // bit flip
		i := rg.Intn(len(b))
		b[i] ^= 1 << uint(rg.Intn(8))
	case 1: // truncate
		b = b[:rg.Intn(len(b))]
	case 2: // byte set to extreme
		b[rg.Intn(len(b))] = []byte{0, 1, 0x7f, 0x80, 0xff}[rg.Intn(5)]
	case 3: // 16-bit field to extreme
		if len(b) > 2 {
			i := rg.Intn(len(b) - 1)
			v := []uint16{0, 1, 0xffff, 0xfffe, 0x8000, uint16(len(b))}[rg.Intn(6)]
			b[i], b[i+1] = byte(v>>8), byte(v)
		}
	case 4: // +-1 on a byte
		i := rg.Intn(len(b))
		b[i] += byte(rg.Intn(3)) - 1
	case 5: // duplicate a slice
		i := rg.Intn(len(b))
		j := i + rg.Intn(len(b)-i)
		b = append(b[:j], append(append([]byte(nil), b[i:j]...), b[j:]...)...)
	case 6: // delete a slice
		i := rg.Intn(len(b))
		j := i + rg.Intn(len(b)-i)
		b = append(b[:i], b[j:]...)
	case 7: // insert random
		i := rg.Intn(len(b))
		b = append(b[:i], append(randBytes(rg, 1+rg.Intn(8)), b[i:]...)...)
	case 8: // append
		b = append(b, randBytes(rg, 1+rg.Intn(20))...)
	}
	return b
}

// fixRecordLen rewrites record and handshake lengths so that mutations reach deeper code.
func fixRecordLen(rec []byte) []byte {
	if len(rec) < 9 {
		return rec
	}
	rec = append([]byte(nil), rec...)
	n := len(rec) - 5
	rec[3], rec[4] = byte(n>>8), byte(n)
	m := n - 4
	rec[6], rec[7], rec[8] = byte(m>>16), byte(m>>8), byte(m)
	return rec
}

func mutateJSON(rg *rand.Rand, doc []byte) []byte {
	s := string(doc)
	switch rg.Intn(8) {
	case 0:
		return mutateBytes(rg, doc)
	case 1: // type confusion: a string becomes a number / object
		reps := []string{"123", "{}", "[]", "null", "true", "-1", "1e400", "\"\"", "[[[[]]]]", "{\"name\":7}"}
		i := strings.Index(s[rg.Intn(len(s)):], "\"")
		if i >= 0 {
			at := strings.Index(s, s[len(s)-len(s[rg.Intn(len(s)):]):])
			_ = at
		}
		parts := strings.Split(s, "\"")
		if len(parts) > 3 {
			k := 1 + 2*rg.Intn(len(parts)/2)
			if k < len(parts) {
				parts[k] = ""
				return []byte(strings.Join(parts[:k], "\"") + reps[rg.Intn(len(reps))] + strings.Join(parts[k+1:], "\""))
			}
		}
		return doc
	case 2: // delete a key
		keys := []string{"cipher_suites", "compression_methods", "extensions", "name", "named_group_list", "client_shares", "versions", "len", "key_exchange", "group"}
		k := keys[rg.Intn(len(keys))]
		return []byte(strings.Replace(s, "\""+k+"\"", "\"x"+k+"\"", 1+rg.Intn(2)))
	case 3: // huge numbers
		return []byte(strings.Replace(s, "0", []string{"99999999999999999999", "-5", "4294967296", "65536", "1.5"}[rg.Intn(5)], 1))
	case 4: // unknown names
		names := []string{"server_name", "supported_groups", "key_share", "padding", "GREASE", "x25519", "TLS 1.3", "h2"}
		n := names[rg.Intn(len(names))]
		return []byte(strings.Replace(s, n, n+"_zz", 1))
	case 5: // duplicate an extension object
		i := strings.Index(s, "{\"name\"")
		if i >= 0 {
			j := strings.Index(s[i:], "}")
			if j > 0 {
				return []byte(s[:i] + s[i:i+j+1] + "," + s[i:])
			}
		}
		return doc
	case 6: // replace an array by a scalar
		i := strings.Index(s[rg.Intn(len(s)):], "[")
		if i >= 0 {
			at := len(s) - len(s[rg.Intn(len(s)):]) + i
			if at < len(s) {
				return []byte(s[:at] + "7" + s[at:])
			}
		}
		return doc
	default:
		return []byte(s[:rg.Intn(len(s))])
	}
}

// describesValidHello: the map's extension list could come from a syntactically valid
// ClientHello (no extension type twice apart from GREASE placeholders, pre_shared_key last).
func describesValidHello(m map[string][]byte) bool {
	e := m["extensions"]
	if len(e)%2 != 0 {
		return false
	}
	seen := map[uint16]bool{}
	n := len(e) / 2
	for i := 0; i < n; i++ {
		t := uint16(e[2*i])<<8 | uint16(e[2*i+1])
		if wire.IsGREASE(t) {
			continue
		}
		if seen[t] {
			return false
		}
		seen[t] = true
		if t == 41 && i != n-1 {
			return false
		}
	}
	return true
}

// specDescribesValidHello: the imported spec has no extension type twice (GREASE apart) and
// pre_shared_key, if any, last - i.e. it can describe a syntactically valid ClientHello.
func specDescribesValidHello(sp *tls.ClientHelloSpec) bool {
	seen := map[uint16]bool{}
	for i, e := range sp.Extensions {
		if _, ok := e.(*tls.UtlsGREASEExtension); ok {
			continue
		}
		if _, ok := e.(tls.PreSharedKeyExtension); ok && i != len(sp.Extensions)-1 {
			return false
		}
		t, ok := ExtTypeOf(e)
		if !ok {
			if g, isG := e.(*tls.GenericExtension); isG {
				t = g.Id
			} else {
				continue
			}
		}
		if seen[t] {
			return false
		}
		seen[t] = true
	}
	return true
}

// C07 — Spec importers never panic and valid captures always yield usable specs.
func TestC07(t *testing.T) {
	r := mon.New("C07", "hostile inputs to FingerprintClientHello/FromRaw (random bytes, mutated valid hellos incl. truncation at every offset and length-field extremes, re-framed mutations), every extension's Write (hostile bodies), ClientHelloSpec.UnmarshalJSON (mutated testdata and harness-rendered documents) and ImportTLSClientHello(FromJSON) (every key at lengths 0..9 and random bytes); panic = violation (input journaled before each call, child process); for inputs the strict parser accepts the returned spec must survive ApplyPreset+BuildHandshakeState without panicking. distinct = (target, outcome, input length bucket)")
	defer r.Finish(t)
	var calls int64
	guard := func(target string, input []byte, f func() error) (err error, panicked bool) {
		mon.Journal(target + " " + hex.EncodeToString(input))
		calls++
		pn, pv := recoverPanic(func() { err = f() })
		if pn {
			cls := fmt.Sprint(pv)
			if i := strings.Index(cls, "["); i > 0 {
				cls = cls[:i]
			}
			r.Violation(map[string]string{"kind": "importer_panic", "target": target, "panic": strings.TrimSpace(cls)},
				fmt.Sprintf("%s panicked: %v", target, pv), map[string]any{"input_hex": mon.Hex(input)})
			return nil, true
		}
		out := "ok"
		if err != nil {
			out = "err"
		}
		r.Case(fmt.Sprintf("%s|%s|%d", target, out, len(input)/16), true)
		return err, false
	}
	applySpec := func(target string, input []byte, spec *tls.ClientHelloSpec) {
		guard(target+"+apply", input, func() error {
			u := tls.UClient(nil, &tls.Config{ServerName: "example.test", OmitEmptyPsk: true}, tls.HelloCustom)
			if err := u.ApplyPreset(spec); err != nil {
				return err
			}
			return u.BuildHandshakeState()
		})
	}

	// seeds: valid hellos
	var valid [][]byte
	for i, p := range AllParrots {
		raw, _, err, _ := buildHello(&tls.Config{ServerName: []string{"example.test", "a.test"}[i%2], OmitEmptyPsk: true}, p.ID, nil)
		if err == nil {
			valid = append(valid, raw)
		}
	}
	for i := 0; i < 40; i++ {
		rg := Sub("C07seed", i)
		msg, _ := ForeignHello(rg, "example.test")
		valid = append(valid, msg)
		spec, _ := GenSpec(rg, GenOpts{Boundary: false})
		if raw, _, err, _ := buildHello(&tls.Config{ServerName: "example.test", OmitEmptyPsk: true}, tls.HelloCustom, func(u *tls.UConn) error { return u.ApplyPreset(spec) }); err == nil {
			valid = append(valid, raw)
		}
	}
	r.Count("seed_hellos", int64(len(valid)))

	fpFlags := []tls.Fingerprinter{{}, {AllowBluntMimicry: true}, {AlwaysAddPadding: true}, {RealPSKResumption: true}, {AllowBluntMimicry: true, AlwaysAddPadding: true, RealPSKResumption: true}}
	tryRaw := func(i int, rec []byte) {
		f := fpFlags[i%len(fpFlags)]
		var spec *tls.ClientHelloSpec
		err, pn := guard("FingerprintClientHello", rec, func() error {
			var e error
			spec, e = f.FingerprintClientHello(rec)
			return e
		})
		if pn {
			return
		}
		var s2 tls.ClientHelloSpec
		guard("FromRaw", rec, func() error { return s2.FromRaw(rec, i%2 == 0, i%3 == 0) })
		if err == nil && spec != nil && len(rec) > 5 {
			if _, perr := wire.ParseClientHello(rec[5:]); perr == nil {
				r.Count("valid_inputs_applied", 1)
				applySpec("FingerprintClientHello", rec, spec)
			}
			// (a spec the importer returned for an input that is NOT a valid ClientHello - duplicate
			// extensions, pre_shared_key not last - is outside the second sentence of the statement:
			// ApplyPreset answers those with its explanatory panics, which is not a violation)
		}
	}

	// (1a) every truncation of a few valid hellos
	for vi, v := range valid {
		if vi%mon.Pick(8, 1) != 0 {
			continue
		}
		rec := recordOf(v)
		for l := 0; l <= len(rec); l++ {
			tryRaw(l, rec[:l])
			if l > 9 && l%3 == 0 {
				tryRaw(l, fixRecordLen(rec[:l]))
			}
		}
	}
	// (1a') valid captures applied under every server-name length (length-dependent paths:
	// padding policies pinned by the importer)
	for vi, v := range valid {
		if vi%mon.Pick(3, 1) != 0 {
			continue
		}
		rec := recordOf(v)
		for fi := range fpFlags {
			f := fpFlags[fi]
			spec0, err := f.FingerprintClientHello(rec)
			if err != nil || spec0 == nil {
				continue
			}
			for l := 3; l <= 253; l++ {
				spec, _ := f.FingerprintClientHello(rec)
				name := sniOfLen(l, l)
				guard("FingerprintClientHello+apply(sni-length-sweep)", rec, func() error {
					u := tls.UClient(nil, &tls.Config{ServerName: name, OmitEmptyPsk: true}, tls.HelloCustom)
					if err := u.ApplyPreset(spec); err != nil {
						return err
					}
					return u.BuildHandshakeState()
				})
			}
			if !mon.Thorough() {
				break
			}
		}
	}
	// (1a'') valid hellos in which only version fields vary: every (record-layer version,
	// client_version) pair of 0x0300..0x0304, with and without a supported_versions extension -
	// the record-layer version is arbitrary per RFC 8446, so all of these are valid inputs
	for vi, v := range valid {
		if vi%mon.Pick(6, 1) != 0 {
			continue
		}
		ch0, err := wire.ParseClientHello(v)
		if err != nil {
			continue
		}
		for _, strip := range []bool{false, true} {
			exts := ch0.Exts
			if strip {
				exts = nil
				for _, e := range ch0.Exts {
					if e.Type != wire.ExtSupportedVersions && e.Type != wire.ExtKeyShare && e.Type != wire.ExtPSKModes && e.Type != wire.ExtPreSharedKey {
						exts = append(exts, e)
					}
				}
			}
			for rv := uint16(0x0300); rv <= 0x0304; rv++ {
				for cv := uint16(0x0300); cv <= 0x0304; cv++ {
					c2 := *ch0
					c2.Version = cv
					msg := marshalCH(&c2, exts, true)
					if _, err := wire.ParseClientHello(msg); err != nil {
						continue
					}
					rec := append([]byte{22, byte(rv >> 8), byte(rv), byte(len(msg) >> 8), byte(len(msg))}, msg...)
					r.Count("version_field_variants", 1)
					for fi := range fpFlags {
						f := fpFlags[fi]
						var spec *tls.ClientHelloSpec
						err, pn := guard("FingerprintClientHello(version fields)", rec, func() error {
							var e error
							spec, e = f.FingerprintClientHello(rec)
							return e
						})
						if !pn && err == nil && spec != nil {
							applySpec("FingerprintClientHello(version fields)", rec, spec)
						}
						if fi == 0 {
							var s2 tls.ClientHelloSpec
							if e, p := guard("FromRaw(version fields)", rec, func() error { return s2.FromRaw(rec, true, true) }); !p && e == nil {
								applySpec("FromRaw(version fields)", rec, &s2)
							}
						}
						if !mon.Thorough() {
							break
						}
					}
				}
			}
		}
	}
	// (1b) random mutations (1-3 stacked), half of them re-framed
	nm := mon.Pick(30000, 1500000)
	for i := 0; i < nm; i++ {
		rg := Sub("C07raw", i)
		rec := recordOf(valid[rg.Intn(len(valid))])
		for k := 1 + rg.Intn(3); k > 0; k-- {
			rec = mutateBytes(rg, rec)
		}
		if rg.Intn(2) == 0 {
			rec = fixRecordLen(rec)
		}
		tryRaw(i, rec)
	}
	// (1c) random bytes with a plausible prefix
	for i := 0; i < mon.Pick(3000, 100000); i++ {
		rg := Sub("C07rnd", i)
		b := randBytes(rg, rg.Intn(300))
		if rg.Intn(2) == 0 && len(b) > 50 {
			copy(b, []byte{22, 3, 1, 0, 0, 1, 0, 0, 0, 3, 3})
			b = fixRecordLen(b)
		}
		tryRaw(i, b)
	}

	// (2) every extension's Write with hostile bodies
	var bodies [][]byte // (type, body) pairs harvested from valid hellos
	var types []uint16
	for _, v := range valid {
		if ch, err := wire.ParseClientHello(v); err == nil {
			for _, e := range ch.Exts {
				types = append(types, e.Type)
				bodies = append(bodies, e.Data)
			}
		}
	}
	allTypes := []uint16{0, 5, 10, 11, 13, 16, 17, 18, 21, 23, 24, 27, 28, 34, 35, 41, 43, 45, 50, 51, 57, 13172, 17513, 17613, 30031, 30032, 0xfe0d, 0xff01, 0x0a0a}
	nw := mon.Pick(30000, 1000000)
	for i := 0; i < nw; i++ {
		rg := Sub("C07write", i)
		k := rg.Intn(len(bodies))
		ty, body := types[k], bodies[k]
		if rg.Intn(3) == 0 {
			ty = allTypes[rg.Intn(len(allTypes))] // body of another extension
		}
		for m := rg.Intn(3); m > 0; m-- {
			body = mutateBytes(rg, body)
		}
		if rg.Intn(10) == 0 {
			body = randBytes(rg, rg.Intn(40))
		}
		ext := tls.ExtensionFromID(ty)
		w, ok := ext.(tls.TLSExtensionWriter)
		if !ok {
			continue
		}
		if ty == 41 && rg.Intn(2) == 0 {
			w = &tls.UtlsPreSharedKeyExtension{}
		}
		target := fmt.Sprintf("%T.Write", w)
		_, pn := guard(target, body, func() error { _, e := w.Write(body); return e })
		if !pn && rg.Intn(4) == 0 {
			// a decoded extension must also encode without panicking
			guard(fmt.Sprintf("%T.Len/Read", w), body, func() error {
				n := w.Len()
				if n < 0 || n > 1<<20 {
					return fmt.Errorf("Len()=%d", n)
				}
				buf := make([]byte, n)
				_, e := w.Read(buf)
				if e != nil && e.Error() == "EOF" {
					e = nil
				}
				return e
			})
		}
	}

	// (3) JSON specs
	var docs [][]byte
	files, _ := filepath.Glob(filepath.Join(repoDir(), "testdata", "ClientHello-JSON-*.json"))
	for _, f := range files {
		if b, err := os.ReadFile(f); err == nil {
			docs = append(docs, b)
		}
	}
	for _, v := range valid {
		if ch, err := wire.ParseClientHello(v); err == nil {
			if d, ok, _ := renderJSON(ch); ok {
				docs = append(docs, d)
			}
		}
	}
	r.Count("json_seed_docs", int64(len(docs)))
	if len(docs) < 4 {
		r.Inconclusive("fewer than 4 JSON seed documents (testdata not found?)")
	} else {
		nj := mon.Pick(20000, 500000)
		for i := 0; i < nj; i++ {
			rg := Sub("C07json", i)
			d := docs[rg.Intn(len(docs))]
			for m := rg.Intn(3); m > 0; m-- {
				d = mutateJSON(rg, d)
				if len(d) == 0 {
					d = []byte("{}")
				}
			}
			var spec tls.ClientHelloSpec
			err, pn := guard("ClientHelloSpec.UnmarshalJSON", d, func() error { return json.Unmarshal(d, &spec) })
			if !pn && err == nil && i%3 == 0 && specDescribesValidHello(&spec) && jsonSpecInLimits(&spec) {
				applySpec("ClientHelloSpec.UnmarshalJSON", d, &spec)
			}
			if i%5 == 0 {
				f := &tls.Fingerprinter{AllowBluntMimicry: i%2 == 0}
				guard("Fingerprinter.UnmarshalJSONClientHello", d, func() error { _, e := f.UnmarshalJSONClientHello(d); return e })
			}
		}
	}

	// (4) tlsfingerprint.io maps
	keys := []string{"cipher_suites", "compression_methods", "extensions", "pt_fmts", "sig_algs", "supported_versions", "curves", "alpn", "key_share", "psk_key_exchange_modes", "cert_compression_algs", "record_size_limit"}
	base := map[string][]byte{
		"cipher_suites": {10, 10, 19, 1, 19, 2, 192, 43}, "compression_methods": {0},
		"extensions": {10, 10, 0, 0, 0, 23, 255, 1, 0, 10, 0, 11, 0, 35, 0, 16, 0, 5, 0, 13, 0, 18, 0, 51, 0, 45, 0, 43, 0, 27, 0, 28, 68, 105, 10, 10, 0, 21},
		"pt_fmts":    {1, 0}, "sig_algs": {0, 4, 4, 3, 8, 4}, "supported_versions": {10, 10, 3, 4, 3, 3}, "curves": {0, 6, 10, 10, 0, 29, 0, 23},
		"alpn": {0, 12, 2, 104, 50, 8, 104, 116, 116, 112, 47, 49, 46, 49}, "key_share": {10, 10, 0, 1, 0, 29, 0, 32}, "psk_key_exchange_modes": {1},
		"cert_compression_algs": {0, 2}, "record_size_limit": {64, 1},
	}
	tryMap := func(m map[string][]byte, tag string) {
		var flat []byte
		for _, k := range keys {
			flat = append(flat, []byte(k+"=")...)
			flat = append(flat, m[k]...)
			flat = append(flat, ';')
		}
		var spec tls.ClientHelloSpec
		err, pn := guard("ImportTLSClientHello", flat, func() error { return spec.ImportTLSClientHello(m) })
		if !pn && err == nil && describesValidHello(m) {
			applySpec("ImportTLSClientHello", flat, &spec)
		}
		if jb, e := json.Marshal(m); e == nil {
			var s2 tls.ClientHelloSpec
			guard("ImportTLSClientHelloFromJSON", jb, func() error { return s2.ImportTLSClientHelloFromJSON(jb) })
		}
	}
	clone := func() map[string][]byte {
		m := map[string][]byte{}
		for k, v := range base {
			m[k] = append([]byte(nil), v...)
		}
		return m
	}
	tryMap(clone(), "base")
	for _, k := range keys {
		for l := 0; l <= 9; l++ {
			for rep := 0; rep < 6; rep++ {
				rg := Sub("C07map"+k, l*10+rep)
				m := clone()
				v := randBytes(rg, l)
				if rep%2 == 0 && l <= len(base[k]) {
					v = append([]byte(nil), base[k][:l]...)
				}
				m[k] = v
				if rep == 5 {
					delete(m, k)
				}
				tryMap(m, k)
			}
		}
	}
	for i := 0; i < mon.Pick(5000, 200000); i++ {
		rg := Sub("C07maprnd", i)
		m := clone()
		for n := 1 + rg.Intn(3); n > 0; n-- {
			k := keys[rg.Intn(len(keys))]
			m[k] = mutateBytes(rg, m[k])
		}
		tryMap(m, "rnd")
	}
	// hostile JSON for the map importer
	for i := 0; i < mon.Pick(2000, 50000); i++ {
		rg := Sub("C07mapjson", i)
		jb, _ := json.Marshal(base)
		jb = mutateJSON(rg, jb)
		var s2 tls.ClientHelloSpec
		guard("ImportTLSClientHelloFromJSON", jb, func() error { return s2.ImportTLSClientHelloFromJSON(jb) })
	}
	r.Count("guarded_calls", calls)
	r.Floor("guarded_calls", 50000)
	r.Floor("valid_inputs_applied", 200)
}
