package props

import (
	"encoding/json"
	"fmt"
	"strings"
	"sync"
	"testing"

	tls "github.com/refraction-networking/utls"
	"verifharness/mon"
	"verifharness/peer"
	"verifharness/wire"
)

// validateHello is the C02 oracle for one emitted hello.
func validateHello(r *mon.Run, raw []byte, sig map[string]string, replay any, seenExt map[uint16]int) *wire.ClientHello {
	ch, err := wire.ParseClientHello(raw)
	if err != nil {
		s := map[string]string{"kind": "invalid_clienthello"}
		for k, v := range sig {
			s[k] = v
		}
		what := err.Error()
		// coarse error class for the signature (so that distinct defects stay distinct)
		cls := what
		if i := strings.Index(cls, ":"); i > 0 {
			cls = cls[:i]
		}
		s["error"] = cls
		r.Violation(s, "emitted ClientHello is not valid TLS: "+what, map[string]any{"hello": mon.Hex(raw), "case": replay})
		return nil
	}
	if seenExt != nil {
		for _, e := range ch.Exts {
			t := e.Type
			if wire.IsGREASE(t) {
				t = 0x0a0a
			}
			seenExt[t]++
		}
	}
	return ch
}

// C02 — Every ClientHello utls emits is syntactically valid TLS.
func TestC02(t *testing.T) {
	r := mon.New("C02", "(i) every parrot/Golang x Config variants (16 ServerName shapes, NextProtos lists, session cache with TLS1.2/1.3 sessions, OmitEmptyPsk, QUIC); (ii) randomized IDs x seeds x weight corners; (iii) generated custom specs (each extension type at most once, RFC-limit field values incl. boundary vectors), and specs whose extensions are each within limits while the extensions block as a whole is around or beyond 65535 bytes (valid hello or an error); (iv) specs fingerprinted / JSON-imported from syntactically valid foreign hellos written by the harness' own encoder; every emitted hello (Hello.Raw and, sampled, the tapped wire bytes) parsed by the independent strict parser; (vi) both ClientHellos of handshakes behind a HelloRetryRequest with and without a cookie. distinct = normalised hello shapes")
	defer r.Finish(t)
	seenExt := map[uint16]int{}
	var emitted, errored int64
	check := func(part string, label string, caseID int, raw []byte, err error, p string) *wire.ClientHello {
		sig := map[string]string{"part": part, "label": label}
		if p != "" {
			sig["kind"] = "build_panic"
			r.Violation(sig, fmt.Sprintf("%s/%s: building the ClientHello panicked: %s", part, label, p), map[string]any{"case": caseID})
			return nil
		}
		if err != nil {
			errored++
			r.Case("err|"+part+"|"+label, false)
			return nil
		}
		emitted++
		ch := validateHello(r, raw, sig, caseID, seenExt)
		if ch != nil {
			r.Case(part+"|"+NormHello(ch, NormOpts{}), true)
		}
		return ch
	}

	// sessions for the cache variants: one TLS 1.2 and one TLS 1.3 session per server name
	sessCache := map[string]tls.ClientSessionCache{}
	for _, v := range []uint16{tls.VersionTLS12, tls.VersionTLS13} {
		scfg := peer.ServerConfig()
		scfg.MaxVersion = v
		cache := tls.NewLRUClientSessionCache(8)
		ccfg := peer.ClientConfig("example.test")
		ccfg.ClientSessionCache = cache
		h := peer.Run(ccfg, tls.HelloChrome_100_PSK, scfg, peer.Opts{Prepare: func(u *tls.UConn) error { return nil }})
		ccfg.OmitEmptyPsk = true
		if !h.OK() {
			// retry with OmitEmptyPsk
			ccfg2 := peer.ClientConfig("example.test")
			ccfg2.ClientSessionCache = cache
			ccfg2.OmitEmptyPsk = true
			h = peer.Run(ccfg2, tls.HelloChrome_100_PSK, scfg, peer.Opts{})
		}
		if h.OK() {
			// read a little so that TLS 1.3 tickets are processed
			sessCache[fmt.Sprintf("%04x", v)] = cache
		} else {
			r.Note("session priming failed: " + h.ErrString())
		}
	}

	// (i) IDs x config variants
	ids := append([]Parrot{{"Golang", tls.HelloGolang}}, AllParrots...)
	alpns := [][]string{nil, {"h2"}, {"h2", "http/1.1"}, {strings.Repeat("q", 255), "x"}, {"a", "b", "c", "d", "e", "f", "g", "h"}}
	k := 0
	for _, p := range ids {
		for si, sni := range sniVariants() {
			for _, variant := range []string{"plain", "alpn", "cache12", "cache13", "noomit"} {
				k++
				if variant != "plain" && (si+k)%mon.Pick(4, 1) != 0 {
					continue
				}
				cfg := &tls.Config{ServerName: sni, OmitEmptyPsk: variant != "noomit", InsecureSkipVerify: true}
				switch variant {
				case "alpn":
					cfg.NextProtos = alpns[k%len(alpns)]
				case "cache12":
					cfg.ClientSessionCache = sessCache["0303"]
					cfg.ServerName = "example.test"
				case "cache13":
					cfg.ClientSessionCache = sessCache["0304"]
					cfg.ServerName = "example.test"
				}
				if (variant == "cache12" || variant == "cache13") && cfg.ClientSessionCache == nil {
					continue
				}
				label := p.Name + "/" + variant
				if p.Name == "Golang" {
					hs, _, herr, pn := sendHello(cfg, p.ID, nil)
					if pn != "" {
						check("i", label, k, nil, nil, pn)
					} else if len(hs) > 0 {
						check("i", label, k, hs[0], nil, "")
					} else {
						check("i", label, k, nil, fmt.Errorf("no hello sent: %v", herr), "")
					}
					continue
				}
				raw, _, err, pn := buildHello(cfg, p.ID, nil)
				ch := check("i", label, k, raw, err, pn)
				if ch != nil && k%7 == 0 {
					// the wire carries the same valid bytes
					hs, _, _, pn2 := sendHello(cfg, p.ID, nil)
					if pn2 != "" {
						check("i-wire", label, k, nil, nil, pn2)
					} else if len(hs) > 0 {
						check("i-wire", label, k, hs[0], nil, "")
						r.Count("wire_hellos", 1)
					}
				}
				if ch != nil && k%97 == 0 {
					r.Sample(map[string]any{"label": label, "sni": sni, "ext_types": u16s(ch.ExtTypes()), "len": len(raw)})
				}
			}
		}
	}
	r.Count("part_i_cases", int64(k))

	// (ii) randomized
	nr := mon.Pick(3000, 100000)
	for i := 0; i < nr; i++ {
		rg := Sub("C02rand", i)
		var seed tls.PRNGSeed
		rg.Read(seed[:])
		id := []tls.ClientHelloID{tls.HelloRandomized, tls.HelloRandomizedALPN, tls.HelloRandomizedNoALPN}[i%3]
		id.Seed = &seed
		if i%2 == 0 {
			w := tls.DefaultWeights
			corner := rg.Uint32()
			set := func(f *float64, bit uint) {
				switch (corner >> (2 * bit)) & 3 {
				case 0:
					*f = 0
				case 1:
					*f = 1
				}
			}
			set(&w.Extensions_Append_ALPN, 0)
			set(&w.TLSVersMax_Set_VersionTLS13, 1)
			set(&w.CipherSuites_Remove_RandomCiphers, 2)
			set(&w.CurveIDs_Append_X25519, 3)
			set(&w.CurveIDs_Append_CurveP521, 4)
			set(&w.Extensions_Append_Padding, 5)
			set(&w.Extensions_Append_Status, 6)
			set(&w.Extensions_Append_SCT, 7)
			set(&w.Extensions_Append_Reneg, 8)
			set(&w.Extensions_Append_EMS, 9)
			set(&w.FirstKeyShare_Set_CurveP256, 10)
			set(&w.KeyShare_Append_RandomGroups, 11)
			set(&w.Extensions_Append_ALPS, 12)
			set(&w.SigAndHashAlgos_Append_PSSWithSHA256, 13)
			id.Weights = &w
		}
		cfg := &tls.Config{ServerName: sniVariants()[i%16], OmitEmptyPsk: true}
		if i%5 == 0 {
			cfg.NextProtos = alpns[i%len(alpns)]
		}
		raw, _, err, pn := buildHello(cfg, id, nil)
		check("ii", id.Client, i, raw, err, pn)
	}
	r.Count("part_ii_cases", int64(nr))

	// (iii) generated custom specs
	nc := mon.Pick(6000, 200000)
	for i := 0; i < nc; i++ {
		rg := Sub("C02spec", i)
		spec, d := GenSpec(rg, GenOpts{Boundary: true, QUIC: false})
		cfg := &tls.Config{ServerName: sniVariants()[rg.Intn(16)], OmitEmptyPsk: rg.Intn(4) != 0}
		if rg.Intn(4) == 0 {
			cfg.NextProtos = alpns[rg.Intn(len(alpns))]
		}
		raw, _, err, pn := buildHello(cfg, tls.HelloCustom, func(u *tls.UConn) error { return u.ApplyPreset(spec) })
		ch := check("iii", "custom", i, raw, err, pn)
		if ch == nil && err == nil && pn == "" {
			r.Note(fmt.Sprintf("custom spec %d kinds=%v", i, d.Kinds))
		}
	}
	r.Count("part_iii_cases", int64(nc))

	// (iii-b) every extension within its own limit, but the extensions block as a whole around
	// and beyond what its 16-bit length prefix can say: the hello is either valid or refused
	nb := mon.Pick(300, 6000)
	var bigRefused, bigEmitted int64
	for i := 0; i < nb; i++ {
		rg := Sub("C02big", i)
		spec, _ := GenSpec(rg, GenOpts{Boundary: false, QUIC: false})
		var exts []tls.TLSExtension
		for _, e := range spec.Extensions {
			switch e.(type) {
			case *tls.UtlsPaddingExtension, *tls.CookieExtension, tls.PreSharedKeyExtension:
				continue
			}
			exts = append(exts, e)
		}
		target := []int{40000, 60000, 64000, 65000, 65400, 65520, 65530, 65535, 65536, 65540, 66000, 70000, 100000, 131072, 140000}[rg.Intn(15)]
		left := target
		id := uint16(0x9000)
		for left > 0 {
			n := 1 + rg.Intn(60000)
			if n > left {
				n = left
			}
			left -= n
			switch rg.Intn(3) {
			case 0:
				exts = append(exts, &tls.GenericExtension{Id: id, Data: randBytes(rg, n)})
				id++
			case 1:
				exts = append(exts, &tls.GenericExtension{Id: id, Data: make([]byte, n)})
				id++
			default:
				exts = append(exts, &tls.GenericExtension{Id: id, Data: randBytes(rg, n/2)})
				id++
				left += n - n/2
			}
		}
		if rg.Intn(2) == 0 {
			pl := []int{1, 100, 500, 65000}[rg.Intn(4)]
			exts = append(exts, &tls.UtlsPaddingExtension{GetPaddingLen: func(int) (int, bool) { return pl, true }})
		}
		spec.Extensions = exts
		cfg := &tls.Config{ServerName: "example.test", OmitEmptyPsk: true}
		raw, _, err, pn := buildHello(cfg, tls.HelloCustom, func(u *tls.UConn) error { return u.ApplyPreset(spec) })
		if err != nil {
			bigRefused++
		} else if pn == "" {
			bigEmitted++
		}
		check("iii-b", fmt.Sprintf("extensions~%d", target), i, raw, err, pn)
	}
	r.Count("part_iiib_refused", bigRefused)
	r.Count("part_iiib_emitted", bigEmitted)

	// (v) QUIC hellos from generated TLS 1.3-only specs with quic_transport_parameters
	nq := mon.Pick(300, 10000)
	for i := 0; i < nq; i++ {
		rg := Sub("C02quic", i)
		spec, _ := GenSpec(rg, GenOpts{QUIC: true, ForHandshake: rg.Intn(2) == 0})
		cfg := &tls.Config{ServerName: []string{"example.test", "q.example.test"}[rg.Intn(2)], OmitEmptyPsk: true, MinVersion: tls.VersionTLS13, NextProtos: []string{"h3"}}
		raw, err, pn, hung := quicFirstHello(cfg, spec)
		if hung {
			r.Count("quic_start_hung", 1) // C23's business
			continue
		}
		if ch := check("v", "quic", i, raw, err, pn); ch != nil {
			r.Count("quic_hellos", 1)
			if len(ch.SessionID) != 0 {
				r.Violation(map[string]string{"kind": "quic_session_id"}, "QUIC ClientHello has a non-empty legacy session id", mon.Hex(raw))
			}
		}
	}

	// (iv) foreign hellos through the importers
	nf := mon.Pick(4000, 150000)
	var imported, rejected int64
	for i := 0; i < nf; i++ {
		rg := Sub("C02foreign", i)
		sni := []string{"example.test", "a.test", longName(100)}[rg.Intn(3)]
		msg, kinds := ForeignHello(rg, sni)
		if _, err := wire.ParseClientHello(msg); err != nil {
			r.Inconclusive("harness bug: ForeignHello produced an invalid hello: " + err.Error())
			break
		}
		f := &tls.Fingerprinter{AllowBluntMimicry: rg.Intn(2) == 0, AlwaysAddPadding: rg.Intn(4) == 0, RealPSKResumption: rg.Intn(4) == 0}
		var spec *tls.ClientHelloSpec
		var ferr error
		pn, pv := recoverPanic(func() { spec, ferr = f.FingerprintClientHello(recordOf(msg)) })
		label := fmt.Sprintf("blunt=%v,pad=%v,realpsk=%v", f.AllowBluntMimicry, f.AlwaysAddPadding, f.RealPSKResumption)
		if pn {
			r.Violation(map[string]string{"kind": "fingerprint_panic"}, fmt.Sprintf("FingerprintClientHello panicked: %v (kinds %v)", pv, kinds), map[string]any{"case": i, "hello": mon.Hex(msg)})
			continue
		}
		if ferr != nil {
			rejected++
			r.Case("iv-rejected|"+strings.Join(kinds, ","), false)
			continue
		}
		imported++
		cfg := &tls.Config{ServerName: sni, OmitEmptyPsk: true}
		raw, _, err, pn2 := buildHello(cfg, tls.HelloCustom, func(u *tls.UConn) error { return u.ApplyPreset(spec) })
		sigLabel := "fingerprinted"
		for _, kd := range kinds {
			if strings.HasPrefix(kd, "ech_outer_pl") {
				sigLabel = "fingerprinted+" + kd
			}
		}
		if ch := check("iv", sigLabel, i, raw, err, pn2); ch == nil && err == nil && pn2 == "" {
			r.Note(fmt.Sprintf("foreign hello %d kinds=%v flags=%s", i, kinds, label))
		}
		// JSON path for the hellos the harness can render
		if chIn, _ := wire.ParseClientHello(msg); chIn != nil && i%3 == 0 {
			if doc, ok, _ := renderJSON(chIn); ok {
				var sj tls.ClientHelloSpec
				var jerr error
				pnj, pvj := recoverPanic(func() { jerr = json.Unmarshal(doc, &sj) })
				if pnj {
					r.Violation(map[string]string{"kind": "json_import_panic"}, fmt.Sprintf("UnmarshalJSON panicked: %v", pvj), map[string]any{"json": string(doc)})
				} else if jerr == nil {
					raw, _, err, pn3 := buildHello(cfg, tls.HelloCustom, func(u *tls.UConn) error { return u.ApplyPreset(&sj) })
					check("iv-json", "json", i, raw, err, pn3)
					r.Count("json_imports", 1)
				}
			}
		}
	}
	// (vi) fingerprinted padded captures replayed under every server-name length
	var sweep int64
	capIDs := []tls.ClientHelloID{tls.HelloChrome_83, tls.HelloChrome_102, tls.HelloChrome_133, tls.HelloFirefox_105, tls.HelloIOS_14, tls.HelloEdge_106}
	if mon.Thorough() {
		capIDs = nil
		for _, p := range AllParrots {
			capIDs = append(capIDs, p.ID)
		}
	}
	for ci, id := range capIDs {
		for _, capLen := range []int{11, 60} {
			capRaw, _, err, _ := buildHello(&tls.Config{ServerName: sniOfLen(capLen, ci), OmitEmptyPsk: true}, id, nil)
			if err != nil {
				continue
			}
			for _, always := range []bool{false, true} {
				for l := 3; l <= 253; l++ {
					f := &tls.Fingerprinter{AlwaysAddPadding: always}
					spec, err := f.FingerprintClientHello(recordOf(capRaw))
					if err != nil {
						break
					}
					raw, _, err, pn := buildHello(&tls.Config{ServerName: sniOfLen(l, l), OmitEmptyPsk: true}, tls.HelloCustom, func(u *tls.UConn) error { return u.ApplyPreset(spec) })
					check("vi", "fingerprinted-capture/"+id.Str(), l, raw, err, pn)
					sweep++
				}
			}
		}
	}
	r.Count("capture_replay_sweep", sweep)
	r.Count("foreign_imported", imported)
	r.Count("foreign_rejected_by_importer", rejected)
	// (vi) second ClientHellos: every hello the client puts on the wire during a handshake with a
	// server that answers with a HelloRetryRequest (with and without a cookie, hooks H1/H6/H8)
	{
		type hjob struct {
			t      Target
			g      tls.CurveID
			cookie int
		}
		var hjobs []hjob
		var tgs []Target
		tgs = append(tgs, ParrotTargets(false)...)
		for i := 0; i < mon.Pick(20, 400); i++ {
			tgs = append(tgs, RandomizedTarget(i), CustomTarget(i))
		}
		for ti, tg := range tgs {
			ch, err := tg.Probe("example.test")
			if err != nil || ch.Has(wire.ExtPreSharedKey) {
				continue
			}
			g := hrrGroupFor(ch)
			if g == 0 || len(ch.Versions) == 0 {
				continue
			}
			for ci, cs := range []int{0, 1, 32, 1000, 20000} {
				if !mon.Thorough() && ti >= len(AllParrots) && ci != ti%5 {
					continue
				}
				hjobs = append(hjobs, hjob{tg, g, cs})
			}
		}
		var second int64
		var hmu sync.Mutex
		parallel(len(hjobs), func(i int) {
			j := hjobs[i]
			var cookie []byte
			if j.cookie > 0 {
				cookie = randBytes(Sub("C02cookie", i), j.cookie)
			}
			plan := &tls.VerifPlan{ForceGroup: j.g, ClearCookie: true}
			if cookie != nil {
				plan.RewriteOut = func(isClient bool, data []byte) []byte {
					if isClient || len(data) < 4 || data[0] != 2 {
						return nil
					}
					sh, err := wire.ParseServerHello(data)
					if err != nil || !sh.IsHRR {
						return nil
					}
					sh.SetExt(wire.ExtCookie, vec16(cookie))
					return sh.Marshal()
				}
			}
			h := RunCase(j.t, GridCase{Server: peer.ServerConfig(), Plan: plan, Dim: "hrr", Val: fmt.Sprint(j.cookie)}, "example.test", nil, peer.Opts{NoEcho: true})
			hs := wire.ClientHellos(h.C2S)
			for k, raw := range hs {
				hmu.Lock()
				emitted++
				hmu.Unlock()
				sig := map[string]string{"part": "vi", "label": family(j.t.Name), "hello": fmt.Sprint(k + 1), "cookie": fmt.Sprint(j.cookie > 0)}
				if validateHello(r, raw, sig, map[string]any{"target": j.t.Name, "cookie_len": j.cookie, "hello_index": k + 1}, nil) != nil && k == 1 {
					hmu.Lock()
					second++
					hmu.Unlock()
				}
			}
			r.Case(fmt.Sprintf("vi|%s|%d|%d", family(j.t.Name), j.cookie, len(hs)), len(hs) > 1)
		})
		r.Count("second_hellos_validated", second)
		r.Floor("second_hellos_validated", 100)
	}
	r.Count("hellos_emitted", emitted)
	r.Count("build_errors", errored)
	for t, n := range seenExt {
		r.Count(fmt.Sprintf("ext_%d_seen", t), int64(n))
	}
	// floor: every extension type the library can emit was seen on the wire >= 10 times
	for _, t := range []uint16{0, 5, 10, 11, 13, 16, 17, 18, 21, 23, 24, 27, 28, 34, 35, 41, 43, 44, 45, 50, 51, 57, 13172, 17513, 17613, 30031, 30032, 0xfe0d, 0xff01, 0x0a0a} {
		if seenExt[t] < 10 {
			r.Inconclusive(fmt.Sprintf("floor: extension type %d seen only %d times on emitted hellos", t, seenExt[t]))
		}
	}
	r.Floor("hellos_emitted", 5000)
	r.Floor("foreign_imported", 500)
	r.Assume("the strict parser enforces structure only (length prefixes, vector bounds, no duplicate types, PSK last, zero padding), no semantic policy")
}
