package props

import (
	"errors"
	"fmt"
	"strings"
	"testing"
	"time"

	tls "github.com/refraction-networking/utls"
	"verifharness/mon"
	"verifharness/peer"
)

// nameMatches is the harness' own RFC 6125-style DNS-ID match (exact or one left-most
// wildcard label), enough for the generated names.
func nameMatches(name string, sans []string) bool {
	name = strings.ToLower(strings.TrimSuffix(name, "."))
	for _, s := range sans {
		s = strings.ToLower(s)
		if s == name {
			return true
		}
		if strings.HasPrefix(s, "*.") {
			if i := strings.Index(name, "."); i > 0 && name[i+1:] == s[2:] {
				return true
			}
		}
	}
	return false
}

type certCond struct {
	name      string
	sans      []string
	trusted   bool
	notBefore time.Time
	notAfter  time.Time
}

// C14 — Server certificates are verified exactly as the Config requests.
func TestC14(t *testing.T) {
	r := mon.New("C14", "finite grid: targets (quick: 6 parrots + Golang; thorough: all) x {TLS 1.2, 1.3} x certificate condition {valid, wrong name, untrusted root, expired, not yet valid} x name setting {ServerName, InsecureServerNameToVerify in {'*', matching name, non-matching name}} x InsecureSkipTimeVerify x InsecureSkipVerify x {fresh, second connection over a shared cache after a permissive first one (also with Config.Time moved past expiry)} x {no ECH, ECH accepted, ECH rejected (leaf for the public name only / for the secret name only)}. Oracle: independent decision function over (chain trust, validity at Config.Time, name match) compared with the client's result type (nil / CertificateVerificationError / ECHRejectionError). distinct = grid cells")
	defer r.Finish(t)
	r.Exhaustive(mon.Thorough())
	f := peer.Fix()
	now := peer.Now
	conds := []certCond{
		{"valid", []string{"good.example.test", "alt.example.test", "192.0.2.7", "2001:db8::7"}, true, now.AddDate(-1, 0, 0), now.AddDate(1, 0, 0)},
		{"wrong-name", []string{"other.example.test"}, true, now.AddDate(-1, 0, 0), now.AddDate(1, 0, 0)},
		{"untrusted", []string{"good.example.test", "alt.example.test"}, false, now.AddDate(-1, 0, 0), now.AddDate(1, 0, 0)},
		{"expired", []string{"good.example.test", "alt.example.test"}, true, now.AddDate(-2, 0, 0), now.AddDate(0, 0, -10)},
		{"not-yet-valid", []string{"good.example.test", "alt.example.test"}, true, now.AddDate(0, 0, 10), now.AddDate(2, 0, 0)},
	}
	leaves := map[string]tls.Certificate{}
	for _, c := range conds {
		ca := f.CA
		if !c.trusted {
			ca = f.OtherCA
		}
		leaves[c.name] = ca.Leaf(peer.LeafOpts{Kind: "ecdsa", Names: c.sans, NotBefore: c.notBefore, NotAfter: c.notAfter})
	}
	type nameSetting struct {
		label      string
		serverName string
		toVerify   string
		// edit: after an explicit BuildHandshakeState the caller calls SetSNI(edit) (hasEdit),
		// which also changes Config.ServerName, the default verification name
		edit    string
		hasEdit bool
	}
	names := []nameSetting{
		{label: "servername-match", serverName: "good.example.test", toVerify: ""},
		{label: "servername-mismatch", serverName: "nomatch.example.test", toVerify: ""},
		{label: "star", serverName: "nomatch.example.test", toVerify: "*"},
		{label: "override-match", serverName: "nomatch.example.test", toVerify: "alt.example.test"},
		{label: "override-mismatch", serverName: "good.example.test", toVerify: "nomatch.example.test"},
		// verification names that never go on the wire (no server_name for IP literals)
		{label: "ip-literal-match", serverName: "192.0.2.7", toVerify: ""},
		{label: "ip-literal-mismatch", serverName: "192.0.2.9", toVerify: ""},
		{label: "ip6-literal-mismatch", serverName: "2001:db8::9", toVerify: ""},
		// the name is changed after the hello was built: to names the certificate does not cover,
		// to an IP literal, to nothing
		{label: "edited-to-mismatch", serverName: "good.example.test", edit: "nomatch.example.test", hasEdit: true},
		{label: "edited-to-ip", serverName: "good.example.test", edit: "192.0.2.1", hasEdit: true},
		{label: "edited-to-ip6", serverName: "good.example.test", edit: "[2001:db8::1]", hasEdit: true},
		{label: "edited-to-empty", serverName: "good.example.test", edit: "", hasEdit: true},
		{label: "edited-to-empty-with-star", serverName: "good.example.test", toVerify: "*", edit: "", hasEdit: true},
	}
	var targets []Target
	if mon.Thorough() {
		targets = ParrotTargets(true)
	} else {
		for _, n := range []string{"Chrome_133", "Chrome_102", "Firefox_120", "Firefox_65", "Safari_16_0", "IOS_14"} {
			p := ParrotByName(n)
			targets = append(targets, Target{Name: p.Name, ID: p.ID})
		}
		targets = append(targets, Target{Name: "Golang", ID: tls.HelloGolang})
	}
	// the same with the server_name extension removed by the caller (documented edit): the
	// name to verify is then not on the wire at all
	for _, n := range []string{"Chrome_120", "Firefox_105"} {
		p := ParrotByName(n)
		targets = append(targets, Target{Name: p.Name + "-noSNI", ID: p.ID, Pre: func(u *tls.UConn) error { return u.RemoveSNIExtension() }})
	}
	decide := func(c certCond, ns nameSetting, skipTime, skipVerify bool, at time.Time, verifyName string) bool {
		if skipVerify {
			return true
		}
		if !c.trusted {
			return false
		}
		if !skipTime && (at.Before(c.notBefore) || at.After(c.notAfter)) {
			return false
		}
		if verifyName == "*" {
			return true
		}
		return nameMatches(verifyName, c.sans)
	}
	verifyNameOf := func(ns nameSetting) string {
		if ns.toVerify != "" {
			return ns.toVerify
		}
		if ns.hasEdit {
			return ns.edit
		}
		return ns.serverName
	}
	type job struct {
		t          Target
		maxv       uint16
		c          certCond
		ns         nameSetting
		skipTime   bool
		skipVerify bool
		mode       string // fresh, resumed, resumed-later
	}
	var jobs []job
	k := 0
	for _, tg := range targets {
		for _, maxv := range []uint16{tls.VersionTLS12, tls.VersionTLS13} {
			for _, c := range conds {
				for _, ns := range names {
					for _, st := range []bool{false, true} {
						for _, sv := range []bool{false, true} {
							for _, mode := range []string{"fresh", "resumed", "resumed-later"} {
								k++
								if sv && (mode != "fresh" || st) {
									continue
								}
								if !mon.Thorough() && mode != "fresh" && k%3 != 0 && c.name != "expired" && c.name != "not-yet-valid" {
									// quick tier: a third of the resumed cells, but every cell whose certificate
									// is outside its validity period (the cached-certificate re-check)
									continue
								}
								jobs = append(jobs, job{tg, maxv, c, ns, st, sv, mode})
							}
						}
					}
				}
			}
		}
	}
	r.Count("grid_cells", int64(len(jobs)))
	classify := func(err error) string {
		var cve *tls.CertificateVerificationError
		var rej *tls.ECHRejectionError
		switch {
		case err == nil:
			return "ok"
		case errors.As(err, &rej):
			return "ech-rejected"
		case errors.As(err, &cve):
			return "verification-error"
		}
		return "other-error"
	}
	parallel(len(jobs), func(i int) {
		j := jobs[i]
		ch, err := j.t.Probe("example.test")
		if err != nil {
			return
		}
		o := OfferOf(ch, targetMinVersion(j.t))
		if !o.Has(j.maxv) || (j.maxv == tls.VersionTLS13 && len(o.Suites13) == 0) || (j.maxv == tls.VersionTLS12 && len(o.Suites12) == 0) {
			return
		}
		scfg := peer.ServerConfig()
		scfg.MaxVersion = j.maxv
		scfg.Certificates = []tls.Certificate{leaves[j.c.name]}
		clock := now
		first := j.t // the target as the permissive first connection of the resumed modes uses it: no edit
		if j.ns.hasEdit {
			if j.t.Pre != nil {
				return // the edit cases belong to the plain targets
			}
			name := j.ns.edit
			j.t.Edit = func(u *tls.UConn) error { u.SetSNI(name); return nil }
		}
		mkCfg := func(ns nameSetting, skipTime, skipVerify bool, cache tls.ClientSessionCache) func(c *tls.Config) {
			return func(c *tls.Config) {
				c.ServerName = ns.serverName
				c.InsecureServerNameToVerify = ns.toVerify
				c.InsecureSkipTimeVerify = skipTime
				c.InsecureSkipVerify = skipVerify
				c.ClientSessionCache = cache
				c.Time = func() time.Time { return clock }
			}
		}
		sig := map[string]string{"target": family(j.t.Name), "version": fmt.Sprintf("%04x", j.maxv), "cert": j.c.name, "name": j.ns.label, "skip_time": fmt.Sprint(j.skipTime), "mode": j.mode}
		rep := map[string]any{"case": i, "target": j.t.Name, "cert": j.c.name, "name": j.ns.label, "skip_time": j.skipTime, "skip_verify": j.skipVerify, "mode": j.mode}
		var h *peer.HS
		resumed := false
		if j.mode == "fresh" {
			h = RunCase(j.t, GridCase{Server: scfg}, j.ns.serverName, mkCfg(j.ns, j.skipTime, j.skipVerify, nil), peer.Opts{})
		} else {
			// a permissive first connection stores a session; the second one uses the config under test
			cache := tls.NewLRUClientSessionCache(4)
			perm := nameSetting{label: "perm", serverName: j.ns.serverName, toVerify: "*"}
			skipV := !j.c.trusted
			h0 := RunCase(first, GridCase{Server: scfg}, j.ns.serverName, func(c *tls.Config) {
				mkCfg(perm, true, skipV, cache)(c)
			}, peer.Opts{})
			if !h0.OK() {
				r.Count("resumption_setup_failed", 1)
				return
			}
			if j.mode == "resumed-later" {
				clock = j.c.notAfter.Add(48 * time.Hour) // the cached chain has expired by now
			}
			h = RunCase(j.t, GridCase{Server: scfg}, j.ns.serverName, mkCfg(j.ns, j.skipTime, j.skipVerify, cache), peer.Opts{})
			resumed = h.ClientErr == nil && h.CState.DidResume
		}
		if h.ClientPanic != "" {
			sig["kind"] = "panic"
			r.Violation(sig, j.t.Name+": "+firstLine(h.ClientPanic), rep)
			return
		}
		want := decide(j.c, j.ns, j.skipTime, j.skipVerify, clock, verifyNameOf(j.ns))
		got := classify(h.ClientErr)
		rep["client_err"] = fmt.Sprint(h.ClientErr)
		rep["resumed"] = resumed
		switch {
		case want && h.ClientErr != nil && strings.Contains(h.ClientErr.Error(), "after a cached session for") && strings.HasPrefix(j.mode, "resumed"):
			// the documented refusal of a connection whose name was edited after a cached
			// session for the previous name had been attached (nothing is sent): not a verdict
			// on the certificate
			r.Count("refused_because_of_a_session_attached_for_another_name", 1)
		case want && got != "ok":
			// a session ticket server may refuse for its own reasons only by falling back to a full handshake, never by failing
			sig["kind"] = "valid_certificate_rejected"
			r.Violation(sig, fmt.Sprintf("%s: the Config accepts this certificate (%s, name setting %s, skipTime=%v) but the handshake failed: %v", j.t.Name, j.c.name, j.ns.label, j.skipTime, h.ClientErr), rep)
		case !want && got == "ok":
			sig["kind"] = "invalid_certificate_accepted"
			sig["resumed"] = fmt.Sprint(resumed)
			r.Violation(sig, fmt.Sprintf("%s: handshake succeeded (resumed=%v) although the Config must reject this certificate (%s, name setting %s -> verify %q, skipTime=%v, time %s)", j.t.Name, resumed, j.c.name, j.ns.label, verifyNameOf(j.ns), j.skipTime, clock.Format("2006-01-02")), rep)
		case !want && got != "verification-error":
			r.Count("rejected_with_other_error", 1)
			r.Note(fmt.Sprintf("%s %s/%s: rejected with %v", j.t.Name, j.c.name, j.ns.label, h.ClientErr))
		}
		if resumed {
			r.Count("resumed_connections", 1)
		}
		if want {
			r.Count("expected_accept", 1)
		} else {
			r.Count("expected_reject", 1)
		}
		r.Case(fmt.Sprintf("%s|%04x|%s|%s|%v|%v|%s", family(j.t.Name), j.maxv, j.c.name, j.ns.label, j.skipTime, j.skipVerify, j.mode), true)
		if i%499 == 0 {
			r.Sample(map[string]any{"target": j.t.Name, "version": fmt.Sprintf("%#04x", j.maxv), "cert": j.c.name, "name": j.ns.label, "skip_time": j.skipTime, "mode": j.mode, "want_accept": want, "got": got})
		}
	})

	// the trust anchors change between two connections (the issuer is no longer in RootCAs):
	// "succeeds only if the chain verifies against RootCAs" holds for resumed sessions too
	{
		var rootsOK, rootsResumed int64
		for _, tg := range targets {
			if tg.Pre != nil {
				continue
			}
			for _, maxv := range []uint16{tls.VersionTLS12, tls.VersionTLS13} {
				ch, err := tg.Probe("example.test")
				if err != nil {
					continue
				}
				o := OfferOf(ch, targetMinVersion(tg))
				if !o.Has(maxv) || (maxv == tls.VersionTLS13 && len(o.Suites13) == 0) || (maxv == tls.VersionTLS12 && len(o.Suites12) == 0) {
					continue
				}
				scfg := peer.ServerConfig()
				scfg.MaxVersion = maxv
				scfg.Certificates = []tls.Certificate{leaves["valid"]}
				cache := tls.NewLRUClientSessionCache(4)
				base := func(c *tls.Config) {
					c.ServerName = "good.example.test"
					c.ClientSessionCache = cache
					c.PreferSkipResumptionOnNilExtension = true
					c.Time = func() time.Time { return now }
				}
				if h0 := RunCase(tg, GridCase{Server: scfg}, "good.example.test", base, peer.Opts{}); !h0.OK() {
					continue
				}
				h := RunCase(tg, GridCase{Server: scfg}, "good.example.test", func(c *tls.Config) {
					base(c)
					c.RootCAs = f.OtherCA.Pool // the issuer of the server's chain is not trusted any more
				}, peer.Opts{})
				if h.ClientErr == nil {
					resumed := h.CState.DidResume
					if resumed {
						rootsResumed++
					}
					// F55 (known): one signature for the class "resumed although the chain no longer verifies against RootCAs"
					sig := map[string]string{"kind": "invalid_certificate_accepted", "class": "resumed_session_chain_not_reverified_against_current_roots"}
					if !resumed {
						sig = map[string]string{"kind": "invalid_certificate_accepted", "cert": "issuer-untrusted", "mode": "fresh", "target": family(tg.Name)}
					}
					r.Violation(sig, fmt.Sprintf("%s (%#04x): the issuer was removed from RootCAs and the handshake still succeeded (resumed=%v)", tg.Name, maxv, resumed), map[string]any{"target": tg.Name, "version": maxv})
				} else {
					rootsOK++
				}
				r.Case(fmt.Sprintf("roots-changed|%s|%04x|%v", family(tg.Name), maxv, h.ClientErr == nil), true)
			}
		}
		r.Count("roots_changed_refused", rootsOK)
		r.Count("roots_changed_resumed_anyway", rootsResumed)
	}
	// a session the caller injects (SetSessionState with the state of an earlier connection to
	// another name) instead of one the library took from the cache: the leaf it carries is
	// checked against the name in force all the same
	{
		var injectedRefused int64
		for _, tg := range targets {
			if tg.Pre != nil || tg.ID.Client == tls.HelloGolang.Client || !specHas(tg, func(e tls.TLSExtension) bool { _, ok := e.(*tls.SessionTicketExtension); return ok }) {
				continue
			}
			ch, err := tg.Probe("example.test")
			if err != nil {
				continue
			}
			if o := OfferOf(ch, targetMinVersion(tg)); !o.Has(tls.VersionTLS12) || len(o.Suites12) == 0 {
				continue
			}
			scfg := peer.ServerConfig()
			scfg.MaxVersion = tls.VersionTLS12
			scfg.Certificates = []tls.Certificate{leaves["valid"]}
			first := newMapCache()
			if h0 := RunCase(tg, GridCase{Server: scfg}, "good.example.test", func(c *tls.Config) {
				c.ClientSessionCache = first
				c.Time = func() time.Time { return now }
			}, peer.Opts{}); !h0.OK() || first.Any() == nil {
				continue
			}
			st := first.Any()
			t2 := tg
			t2.Style = StylePlain
			t2.Pre = func(u *tls.UConn) error { return u.SetSessionState(st) }
			h := RunCase(t2, GridCase{Server: scfg}, "elsewhere.example.org", func(c *tls.Config) {
				c.ClientSessionCache = tls.NewLRUClientSessionCache(2)
				c.Time = func() time.Time { return now }
			}, peer.Opts{})
			if h.ClientErr == nil {
				r.Violation(map[string]string{"kind": "invalid_certificate_accepted", "cert": "wrong-name", "mode": "injected-session", "target": family(tg.Name)},
					fmt.Sprintf("%s: a session of a connection to good.example.test, injected with SetSessionState, was resumed (resumed=%v) as elsewhere.example.org, which its leaf does not cover", tg.Name, h.CState.DidResume), map[string]any{"target": tg.Name})
			} else {
				injectedRefused++
			}
			r.Case(fmt.Sprintf("injected|%s|%v", family(tg.Name), h.ClientErr == nil), true)
		}
		r.Count("injected_sessions_for_another_name_refused", injectedRefused)
		r.Floor("injected_sessions_for_another_name_refused", 3)
	}
	// ECH: accepted -> verify against the secret name; rejected -> against the public name
	echTargets := echCapableTargets()
	// the same parrots as hand-written specs whose server_name extension names a host of the
	// caller's choosing (a fronting name): with ECH the outer name is the public name anyway,
	// and that is the name a rejected offer is verified against
	for _, pn := range []string{"Chrome_120", "Firefox_120"} {
		p := ParrotByName(pn)
		echTargets = append(echTargets, Target{Name: p.Name + "+named-sni-spec", Spec: func() (*tls.ClientHelloSpec, error) {
			sp, err := tls.UTLSIdToSpec(p.ID)
			if err != nil {
				return nil, err
			}
			for _, e := range sp.Extensions {
				if sn, ok := e.(*tls.SNIExtension); ok {
					sn.ServerName = "front.example.test"
				}
			}
			return &sp, nil
		}})
	}
	type ejob struct {
		t      Target
		reject bool
		leaf   string // which names the leaf covers: both, public-only, secret-only, neither
		noSNI  bool   // RemoveSNIExtension: no server_name extension in the outer hello
		hrr    bool   // the server first asks for another key share (HelloRetryRequest)
	}
	var ejobs []ejob
	for _, tg := range echTargets {
		for _, rej := range []bool{false, true} {
			for _, l := range []string{"both", "public-only", "secret-only", "neither"} {
				for _, hrr := range []bool{false, true} {
					ejobs = append(ejobs, ejob{tg, rej, l, false, hrr})
					if tg.ID.Client != tls.HelloGolang.Client && tg.Spec == nil {
						ejobs = append(ejobs, ejob{tg, rej, l, true, hrr})
					}
				}
			}
		}
	}
	parallel(len(ejobs), func(i int) {
		j := ejobs[i]
		rg := Sub("C14ech", i)
		secret := fmt.Sprintf("secret-%x.example.test", rg.Int63())
		public := "public.example.test"
		var sans []string
		switch j.leaf {
		case "both":
			sans = []string{secret, public}
		case "public-only":
			sans = []string{public}
		case "secret-only":
			sans = []string{secret}
		default:
			sans = []string{"unrelated.example.test"}
		}
		leaf := f.CA.Leaf(peer.LeafOpts{Kind: "ecdsa", Names: sans})
		key := peer.NewECHKey(uint8(i), public, []uint16{1}, 32)
		scfg := peer.ServerConfig()
		scfg.Certificates = []tls.Certificate{leaf}
		if j.reject {
			scfg.EncryptedClientHelloKeys = peer.ECHServerKeys(true, peer.NewECHKey(uint8(i), public, []uint16{1}, 32))
		} else {
			scfg.EncryptedClientHelloKeys = peer.ECHServerKeys(true, key)
		}
		tg := j.t
		if j.noSNI {
			tg.Pre = func(u *tls.UConn) error { return u.RemoveSNIExtension() }
		}
		if j.hrr {
			g := tls.CurveP384
			if probe, err := j.t.Probe("example.test"); err == nil {
				if pg := hrrGroupFor(probe); pg != 0 {
					g = pg
				}
			}
			scfg.CurvePreferences = []tls.CurveID{g}
		}
		h := RunCase(tg, GridCase{Server: scfg}, secret, func(c *tls.Config) { c.EncryptedClientHelloConfigList = peer.ECHConfigList(key) }, peer.Opts{})
		got := classify(h.ClientErr)
		verifyName := secret
		wantOK := "ok"
		if j.reject {
			verifyName = public
			wantOK = "ech-rejected"
		}
		want := "verification-error"
		if nameMatches(verifyName, sans) {
			want = wantOK
		}
		sig := map[string]string{"target": j.t.Name, "ech": map[bool]string{true: "rejected", false: "accepted"}[j.reject], "leaf": j.leaf, "sni_extension": map[bool]string{true: "removed", false: "sent"}[j.noSNI]}
		rep := map[string]any{"case": i, "target": j.t.Name, "ech_rejected": j.reject, "leaf": j.leaf, "no_sni": j.noSNI, "client_err": fmt.Sprint(h.ClientErr), "server_err": fmt.Sprint(h.ServerErr)}
		if got != want {
			sig["kind"] = "ech_certificate_verification"
			r.Violation(sig, fmt.Sprintf("%s: ECH %s, leaf valid for %s: client result %q (%v), expected %q (verification name %q)", j.t.Name, sig["ech"], j.leaf, got, h.ClientErr, want, verifyName), rep)
		}
		r.Count("ech_cells", 1)
		if j.hrr && sawHRR(h.S2C) {
			r.Count("ech_cells_after_hello_retry_request", 1)
		}
		r.Case(fmt.Sprintf("ech|%s|%v|%s|nosni=%v|hrr=%v", j.t.Name, j.reject, j.leaf, j.noSNI, j.hrr), true)
	})
	r.Floor("expected_accept", 200)
	r.Floor("expected_reject", 400)
	r.Floor("resumed_connections", 30)
	r.Floor("ech_cells", 40)
	r.Floor("ech_cells_after_hello_retry_request", 20)
}
