package props

import (
	"fmt"
	"strings"
	"testing"

	tls "github.com/refraction-networking/utls"
	"verifharness/mon"
	"verifharness/peer"
	"verifharness/wire"
)

func sniOfLen(n int, salt int) string {
	// a valid host name of exactly n bytes (n >= 3), labels <= 63
	var sb strings.Builder
	c := byte('a' + salt%26)
	for sb.Len() < n {
		if sb.Len() > 0 && (sb.Len()+1)%40 == 0 && sb.Len() < n-1 {
			sb.WriteByte('.')
			continue
		}
		sb.WriteByte(c)
	}
	return sb.String()
}

// C05 — Padding makes the ClientHello length follow the declared padding policy.
func TestC05(t *testing.T) {
	r := mon.New("C05", "parrots whose spec carries BoringSSL-style padding x filler sizes / SNI lengths chosen so that every unpadded handshake length in 200..620 is produced; rebuild sequences (BuildHandshakeState, SetSNI to another length, BuildHandshakeState); resumed PSK/ticket connections; fingerprinted padded captures replayed with server names of the captured length. Oracle: BoringSSL rule recomputed independently from the parsed hello. distinct = (parrot, unpadded length) pairs")
	defer r.Finish(t)
	var padded []Parrot
	for _, p := range AllParrots {
		spec, err := tls.UTLSIdToSpec(p.ID)
		if err == nil && specHasBoringPadding(&spec) {
			padded = append(padded, p)
		}
	}
	r.Count("padded_parrots", int64(len(padded)))
	if len(padded) < 5 {
		r.Inconclusive("fewer than 5 parrots with BoringSSL padding found")
		return
	}
	seenLen := map[int]bool{}
	oneByte := 0
	step := mon.Pick(1, 1)
	families := padded
	if !mon.Thorough() {
		// one parrot per family plus the PSK/padding specials
		pick := map[string]bool{}
		families = nil
		for _, p := range padded {
			fam := strings.SplitN(p.Name, "_", 2)[0]
			if !pick[fam] || p.Name == "Chrome_114_Padding_PSK_Shuf" || p.Name == "Chrome_133" {
				pick[fam] = true
				families = append(families, p)
			}
		}
	}
	for _, p := range families {
		base, _, err, _ := buildHello(&tls.Config{ServerName: "abc", OmitEmptyPsk: true}, p.ID, nil)
		if err != nil {
			r.Note("build " + p.Name + ": " + err.Error())
			continue
		}
		bch, err := wire.ParseClientHello(base)
		if err != nil {
			continue
		}
		padExt := 0
		if bch.PaddingLen >= 0 {
			padExt = 4 + bch.PaddingLen
		}
		baseUnpadded := len(base) - padExt
		for target := 200; target <= 620; target += step {
			need := target - baseUnpadded
			sni := "abc"
			filler := -1
			switch {
			case need == 0:
			case need > 0 && need <= 240:
				sni = sniOfLen(3+need, target)
			case need >= 4:
				filler = need - 4
			default:
				continue // cannot shrink below the base
			}
			if need > 240 {
				sni = "abc"
				filler = need - 4
			}
			spec, _ := tls.UTLSIdToSpec(p.ID)
			if filler >= 0 {
				g := &tls.GenericExtension{Id: 0x8877, Data: make([]byte, filler)}
				// insert before the padding extension
				var exts []tls.TLSExtension
				for _, e := range spec.Extensions {
					if _, ok := e.(*tls.UtlsPaddingExtension); ok {
						exts = append(exts, g)
						g = nil
					}
					exts = append(exts, e)
				}
				spec.Extensions = exts
			}
			raw, _, err, pn := buildHello(&tls.Config{ServerName: sni, OmitEmptyPsk: true}, tls.HelloCustom, func(u *tls.UConn) error { return u.ApplyPreset(&spec) })
			if err != nil || pn != "" {
				r.Violation(map[string]string{"kind": "build_error", "parrot": p.Name}, fmt.Sprintf("target %d: %v %s", target, err, pn), nil)
				continue
			}
			ch, err := wire.ParseClientHello(raw)
			if err != nil {
				r.Violation(map[string]string{"kind": "unparseable_hello", "parrot": p.Name}, err.Error(), mon.Hex(raw))
				continue
			}
			pe := 0
			if ch.PaddingLen >= 0 {
				pe = 4 + ch.PaddingLen
			}
			unp := len(raw) - pe
			seenLen[unp] = true
			if unp >= 508 && unp <= 511 && ch.PaddingLen == 1 {
				oneByte++
			}
			if msg := boringPaddingProblem(ch); msg != "" {
				r.Violation(map[string]string{"kind": "padding_policy", "parrot": p.Name, "unpadded": fmt.Sprint(unp)}, p.Name+": "+msg, map[string]any{"hello": mon.Hex(raw), "sni": sni, "filler": filler})
			}
			r.Case(fmt.Sprintf("%s|%d", p.Name, unp), true)
		}
	}
	// floor: every length 250..520 observed, 1-byte case observed
	missing := 0
	for l := 250; l <= 520; l++ {
		if !seenLen[l] {
			missing++
		}
	}
	r.Count("unpadded_lengths_seen", int64(len(seenLen)))
	r.Count("one_byte_padding_cases", int64(oneByte))
	if missing > 0 {
		r.Inconclusive(fmt.Sprintf("floor: %d unpadded lengths in 250..520 were never produced", missing))
	}
	r.Floor("one_byte_padding_cases", 2)

	// rebuild sequences: the decision must follow the *current* length
	rebuilds := 0
	for _, p := range families {
		for i := 0; i < mon.Pick(100, 20000); i++ {
			rg := Sub("C05rebuild", i)
			l1, l2 := 3+rg.Intn(250), 3+rg.Intn(250)
			u := tls.UClient(nil, &tls.Config{ServerName: sniOfLen(l1, i), OmitEmptyPsk: true}, p.ID)
			pn, pv := recoverPanic(func() {
				if err := u.BuildHandshakeState(); err != nil {
					panic(err)
				}
				u.SetSNI(sniOfLen(l2, i+1))
				if err := u.BuildHandshakeState(); err != nil {
					panic(err)
				}
			})
			if pn {
				r.Violation(map[string]string{"kind": "rebuild_failed", "parrot": p.Name}, fmt.Sprint(pv), nil)
				continue
			}
			ch, err := wire.ParseClientHello(u.HandshakeState.Hello.Raw)
			if err != nil {
				r.Violation(map[string]string{"kind": "unparseable_hello", "parrot": p.Name, "seq": "rebuild"}, err.Error(), nil)
				continue
			}
			rebuilds++
			if msg := boringPaddingProblem(ch); msg != "" {
				r.Violation(map[string]string{"kind": "padding_policy_after_rebuild", "parrot": p.Name}, fmt.Sprintf("%s: SNI length %d then %d: %s", p.Name, l1, l2, msg), map[string]any{"hello": mon.Hex(ch.Raw)})
			}
			r.Case(fmt.Sprintf("rebuild|%s|%d|%d", p.Name, l1/16, l2/16), true)
		}
	}
	r.Count("rebuild_sequences", int64(rebuilds))

	// resumed connections of padded ticket/PSK parrots with varied name lengths
	resumed := 0
	for _, pn := range []string{"Chrome_114_Padding_PSK_Shuf", "Chrome_100_PSK", "Chrome_112_PSK_Shuf", "Chrome_115_PQ_PSK", "Chrome_102", "Chrome_133", "Edge_106"} {
		p := ParrotByName(pn)
		spec, _ := tls.UTLSIdToSpec(p.ID)
		if !specHasBoringPadding(&spec) {
			continue
		}
		for _, l := range []int{4, 30, 77, 120, 200, 250} {
			sni := sniOfLen(l, l) + ".test"
			cache := tls.NewLRUClientSessionCache(4)
			scfg := peer.ServerConfig()
			if specMaxVersion(&spec) < tls.VersionTLS13 {
				scfg.MaxVersion = tls.VersionTLS12
			}
			for round := 0; round < 3; round++ {
				ccfg := peer.ClientConfig(sni)
				ccfg.InsecureSkipVerify = true
				ccfg.ClientSessionCache = cache
				ccfg.OmitEmptyPsk = true
				h := peer.Run(ccfg, p.ID, scfg, peer.Opts{})
				if !h.OK() {
					break
				}
				for _, hm := range wire.ClientHellos(h.C2S) {
					ch, err := wire.ParseClientHello(hm)
					if err != nil {
						continue
					}
					if round > 0 && h.CState.DidResume {
						resumed++
					}
					if msg := boringPaddingProblem(ch); msg != "" {
						r.Violation(map[string]string{"kind": "padding_policy_resumed", "parrot": p.Name, "resumed": fmt.Sprint(h.CState.DidResume)},
							fmt.Sprintf("%s round %d (resumed=%v, sni len %d): %s", p.Name, round, h.CState.DidResume, len(sni), msg), map[string]any{"hello": mon.Hex(hm)})
					}
					r.Case(fmt.Sprintf("resumed|%s|%d|%d", p.Name, l, round), true)
				}
			}
		}
	}
	r.Count("resumed_hellos", int64(resumed))

	// fingerprinted padded captures
	replays := 0
	for _, p := range padded {
		// server-name lengths: three ordinary ones, plus ones at which this parrot's padding
		// body is small (1..40 bytes), where a capture with a shorter legacy_session_id has no
		// room to absorb the 32 bytes utls always sends
		lens := []int{8, 40, 100}
		small := 0
		for l := 4; l < 250 && small < 3; l++ {
			if raw, _, err, _ := buildHello(&tls.Config{ServerName: sniOfLen(l, 1), OmitEmptyPsk: true}, p.ID, nil); err == nil {
				if c, err := wire.ParseClientHello(raw); err == nil && c.PaddingLen > 0 && c.PaddingLen <= 40 && !c.Has(wire.ExtPreSharedKey) {
					lens = append(lens, l)
					small++
					l += 7
				}
			}
		}
		for _, l := range lens {
			capSNI := sniOfLen(l, 1)
			capRaw, _, err, _ := buildHello(&tls.Config{ServerName: capSNI, OmitEmptyPsk: true}, p.ID, nil)
			if err != nil {
				continue
			}
			cch, err := wire.ParseClientHello(capRaw)
			if err != nil || cch.PaddingLen <= 0 {
				continue // only captures with a non-empty padding extension are in the statement
			}
			if cch.Has(wire.ExtPreSharedKey) {
				continue
			}
			for k := 0; k < 10; k++ {
				// the Fingerprinter's options do not change what a capture with a padding
				// extension says about its length
				f := &tls.Fingerprinter{AlwaysAddPadding: k%2 == 1, AllowBluntMimicry: k%3 == 2}
				if f.AlwaysAddPadding {
					r.Count("fingerprinted_with_AlwaysAddPadding", 1)
				}
				// k >= 3: the same capture as another stack would have sent it, with a legacy_session_id
				// of another length (empty as in QUIC / TLS 1.2-style hellos, 8, 16 bytes)
				sidLen := 32
				if k >= 6 {
					// the same capture as a stack with another padding policy would have sent it:
					// padding bodies beyond what BoringSSL ever produces (it stops at 252 bytes)
					body := []int{253, 300, 700, 1000}[k-6]
					exts := cloneExts(cch.Exts)
					for ei := range exts {
						if exts[ei].Type == wire.ExtPadding {
							exts[ei].Data = make([]byte, body)
						}
					}
					capRaw = marshalCH(cch, exts, true)
					r.Count("captures_with_non_boring_padding", 1)
				} else if k >= 3 {
					sidLen = []int{0, 8, 16}[k-3]
					c2 := *cch
					c2.SessionID = cch.SessionID[:sidLen]
					capRaw = marshalCH(&c2, cch.Exts, true)
					r.Count("captures_with_short_session_id", 1)
				}
				dump := recordOf(capRaw)
				if k == 1 || k == 2 || k == 7 {
					// a capture file that goes on after the ClientHello record (the client's later
					// records: ChangeCipherSpec, encrypted data): the hello's length is its own
					dump = append(append([]byte(nil), dump...), 20, 3, 3, 0, 1, 1)
					dump = append(dump, append([]byte{23, 3, 3, 0, byte(40 * k)}, make([]byte, 40*k)...)...)
					r.Count("captures_followed_by_later_records", 1)
				}
				spec, err := f.FingerprintClientHello(dump)
				if err != nil {
					r.Violation(map[string]string{"kind": "fingerprint_error", "parrot": p.Name}, err.Error(), nil)
					break
				}
				raw, _, err, pn := buildHello(&tls.Config{ServerName: sniOfLen(l, 5+k), OmitEmptyPsk: true}, tls.HelloCustom, func(u *tls.UConn) error { return u.ApplyPreset(spec) })
				if err != nil || pn != "" {
					r.Violation(map[string]string{"kind": "build_error", "parrot": "fp:" + p.Name}, fmt.Sprintf("%v %s", err, pn), nil)
					continue
				}
				ch, err := wire.ParseClientHello(raw)
				if err != nil {
					r.Violation(map[string]string{"kind": "unparseable_hello", "parrot": "fp:" + p.Name}, err.Error(), mon.Hex(raw))
					continue
				}
				replays++
				// per-connection parts of equal size? (ECH GREASE payload length is drawn per connection for parrots,
				// but the fingerprinted spec pins it to the captured one)
				if len(raw) != len(capRaw) {
					sig := map[string]string{"kind": "captured_length_not_reproduced", "parrot": p.Name}
					if sidLen < 32 && cch.PaddingLen <= 32-sidLen {
						// F31 (known): the spec does not record the captured session-id length and
						// utls always sends 32 bytes; with so little padding the difference cannot
						// be absorbed
						sig = map[string]string{"kind": "captured_length_not_reproduced", "class": "session_id_shorter_than_32_and_padding_too_small_to_absorb"}
					}
					r.Violation(sig,
						fmt.Sprintf("%s: capture is %d bytes (padding %d), replay with a server name of the same length is %d bytes (padding %d)", p.Name, len(capRaw), cch.PaddingLen, len(raw), ch.PaddingLen), map[string]any{"capture": mon.Hex(capRaw), "replay": mon.Hex(raw)})
				}
				r.Case(fmt.Sprintf("fp|%s|%d", p.Name, l), true)
			}
		}
	}
	r.Count("fingerprinted_replays", int64(replays))
	r.Floor("fingerprinted_replays", 20)
	r.Floor("rebuild_sequences", 50)
}
