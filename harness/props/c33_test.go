package props

import (
	"bytes"
	"fmt"
	"io"
	"math/rand"
	"net"
	"os"
	"runtime"
	"strings"
	"sync"
	"sync/atomic"
	"testing"
	"time"

	tls "github.com/refraction-networking/utls"
	"verifharness/mon"
	"verifharness/peer"
	"verifharness/wire"
)

// ---------------------------------------------------------------------------------
// C33 — hostile server input never crashes or hangs a uTLS client.
//
// Three workloads, one oracle (no panic / process death, every call returns within the
// bounded-progress limit, allocation per case bounded by the protocol's uint24 limit):
//   A. structured: the real in-repo server, hooked (H1) so that ONE outgoing handshake
//      message is mutated before it enters the server's transcript and the record layer
//      (the server stays self-consistent, so a client that swallows the mutation goes on
//      into deeper states);
//   B. raw: a scripted peer that answers the ClientHello with generated record streams;
//   C. record-level rewriting of a real server flight (fragment storms, interleaved
//      empty records, garbage after the ServerHello).
// ---------------------------------------------------------------------------------

const c33ClientDeadline = 4 * time.Second

// c33Limit: bounded-progress limit.  Under the race detector (the thorough tier's extra
// pass) everything is 5-15x slower, so the limit is stretched and the decompression bombs
// are kept small: the pass is there for the detector's reports, not for timing.
var c33Limit = func() time.Duration {
	if os.Getenv("VERIF_RACE_PASS") == "1" {
		return 20 * c33ClientDeadline
	}
	return 3 * c33ClientDeadline
}()

var hangsSeen atomic.Int64 // shared by C33 and C34 (separate processes)

// fieldMutations: format-aware mutations per (tls13?, handshake type).
type fieldMut struct {
	name string
	f    func(rg *rand.Rand, m []byte, ch *wire.ClientHello) []byte // nil = not applicable
}

func serverHelloMuts() []fieldMut {
	sh := func(f func(rg *rand.Rand, sh *wire.ServerHello, ch *wire.ClientHello) bool) func(rg *rand.Rand, m []byte, ch *wire.ClientHello) []byte {
		return func(rg *rand.Rand, m []byte, ch *wire.ClientHello) []byte {
			h, err := wire.ParseServerHello(m)
			if err != nil {
				return nil
			}
			if h.Exts == nil {
				h.Exts = []wire.Ext{}
			}
			if !f(rg, h, ch) {
				return nil
			}
			return h.Marshal()
		}
	}
	hrrMagic := []byte{0xCF, 0x21, 0xAD, 0x74, 0xE5, 0x9A, 0x61, 0x11, 0xBE, 0x1D, 0x8C, 0x02, 0x1E, 0x65, 0xB8, 0x91, 0xC2, 0xA2, 0x11, 0x16, 0x7A, 0xBB, 0x8C, 0x5E, 0x07, 0x9E, 0x09, 0xE2, 0xC8, 0xA8, 0x33, 0x9C}
	groupsPool := func(ch *wire.ClientHello) []uint16 {
		g := append([]uint16{0, 0x001d, 0x0017, 0x0018, 0x0019, 0x001e, 0x0100, 0x11ec, 0x6399, 0x0a0a, 0xffff}, ch.Groups...)
		for _, k := range ch.KeyShares {
			g = append(g, k.Group)
		}
		return g
	}
	return []fieldMut{
		{"sh_legacy_version", sh(func(rg *rand.Rand, h *wire.ServerHello, ch *wire.ClientHello) bool {
			h.Version = []uint16{0x0300, 0x0301, 0x0302, 0x0304, 0x0000, 0xffff, 0x7f1c}[rg.Intn(7)]
			return true
		})},
		{"sh_random_becomes_hrr", sh(func(rg *rand.Rand, h *wire.ServerHello, ch *wire.ClientHello) bool {
			h.Random = append([]byte(nil), hrrMagic...)
			return true
		})},
		{"sh_session_id", sh(func(rg *rand.Rand, h *wire.ServerHello, ch *wire.ClientHello) bool {
			h.SessionID = randBytes(rg, []int{0, 1, 31, 32}[rg.Intn(4)])
			return true
		})},
		{"sh_suite", sh(func(rg *rand.Rand, h *wire.ServerHello, ch *wire.ClientHello) bool {
			pool := append([]uint16{0, 0x1301, 0x1302, 0x1303, 0x1304, 0x00ff, 0x5600, 0x0a0a, 0xc02f, 0x002f, 0xffff}, ch.Suites...)
			h.Suite = pool[rg.Intn(len(pool))]
			return true
		})},
		{"sh_compression", sh(func(rg *rand.Rand, h *wire.ServerHello, ch *wire.ClientHello) bool {
			h.Compression = byte(1 + rg.Intn(255))
			return true
		})},
		{"sh_supported_versions", sh(func(rg *rand.Rand, h *wire.ServerHello, ch *wire.ClientHello) bool {
			switch rg.Intn(4) {
			case 0:
				h.DelExt(wire.ExtSupportedVersions)
			case 1:
				h.SetExt(wire.ExtSupportedVersions, be16([]uint16{0x0303, 0x0302, 0x0305, 0x7f1c, 0x0a0a, 0x0000}[rg.Intn(6)]))
			case 2:
				h.SetExt(wire.ExtSupportedVersions, randBytes(rg, []int{0, 1, 3, 4}[rg.Intn(4)]))
			case 3:
				h.SetExt(wire.ExtSupportedVersions, append([]byte{2}, be16(0x0304)...)) // client-style list
			}
			return true
		})},
		{"sh_key_share", sh(func(rg *rand.Rand, h *wire.ServerHello, ch *wire.ClientHello) bool {
			gp := groupsPool(ch)
			g := gp[rg.Intn(len(gp))]
			n := []int{0, 1, 31, 32, 33, 64, 65, 66, 97, 133, 1088, 1120, 1121, 1216, 4000}[rg.Intn(15)]
			switch rg.Intn(5) {
			case 0:
				h.DelExt(wire.ExtKeyShare)
			case 1: // group only (HRR form) in a ServerHello
				h.SetExt(wire.ExtKeyShare, be16(g))
			case 2: // relabel, keep the data
				e := h.Ext(wire.ExtKeyShare)
				if e == nil || len(e.Data) < 4 {
					return false
				}
				d := append([]byte(nil), e.Data...)
				d[0], d[1] = byte(g>>8), byte(g)
				h.SetExt(wire.ExtKeyShare, d)
			case 3: // right framing, hostile key material
				h.SetExt(wire.ExtKeyShare, append(be16(g), vec16(randBytes(rg, n))...))
			case 4: // inner length disagrees
				h.SetExt(wire.ExtKeyShare, append(append(be16(g), be16(uint16(n))...), randBytes(rg, n/2)...))
			}
			return true
		})},
		{"sh_key_share_resized", sh(func(rg *rand.Rand, h *wire.ServerHello, ch *wire.ClientHello) bool {
			// a group the client did send a share for (the selected one, or another of its
			// shares), key material of a boundary length: the client gets past the group
			// checks and has to validate the length itself
			e := h.Ext(wire.ExtKeyShare)
			if e == nil || len(e.Data) < 4 {
				return false
			}
			g := uint16(e.Data[0])<<8 | uint16(e.Data[1])
			cur := len(e.Data) - 4
			if rg.Intn(3) == 0 {
				var offered []uint16
				for _, k := range ch.KeyShares {
					if !wire.IsGREASE(k.Group) {
						offered = append(offered, k.Group)
					}
				}
				if len(offered) > 0 {
					g = offered[rg.Intn(len(offered))]
				}
			}
			sizes := []int{0, 1, 2, 16, 31, 32, 33, 64, 65, 66, 96, 97, 98, 132, 133, 134, 1087, 1088, 1089, 1119, 1120, 1121, cur - 1, cur + 1, cur / 2}
			n := sizes[rg.Intn(len(sizes))]
			if n < 0 {
				n = 0
			}
			h.SetExt(wire.ExtKeyShare, append(be16(g), vec16(randBytes(rg, n))...))
			return true
		})},
		{"sh_key_share_zero_point", sh(func(rg *rand.Rand, h *wire.ServerHello, ch *wire.ClientHello) bool {
			e := h.Ext(wire.ExtKeyShare)
			if e == nil || len(e.Data) < 4 {
				return false
			}
			d := append([]byte(nil), e.Data...)
			fill := []byte{0x00, 0xff}[rg.Intn(2)]
			for i := 4; i < len(d); i++ {
				d[i] = fill
			}
			h.SetExt(wire.ExtKeyShare, d)
			return true
		})},
		{"sh_extra_extension", sh(func(rg *rand.Rand, h *wire.ServerHello, ch *wire.ClientHello) bool {
			types := []uint16{wire.ExtCookie, wire.ExtPreSharedKey, wire.ExtALPN, wire.ExtECH, wire.ExtEMS, wire.ExtRenegotiationInfo, wire.ExtSessionTicket,
				wire.ExtStatusRequest, wire.ExtSCT, wire.ExtSNI, wire.ExtSupportedGroups, wire.ExtECPointFormats, wire.ExtALPSOld, wire.ExtALPSNew, wire.ExtCompressCert,
				wire.ExtEarlyData, wire.ExtPadding, 0x0a0a, 0xffff, 0x0039}
			t := types[rg.Intn(len(types))]
			var body []byte
			switch rg.Intn(4) {
			case 0:
			case 1:
				body = randBytes(rg, 1+rg.Intn(40))
			case 2:
				body = vec16(randBytes(rg, rg.Intn(30)))
			case 3:
				body = be16(uint16(rg.Intn(4)))
			}
			h.SetExt(t, body)
			return true
		})},
		{"sh_duplicate_extension", sh(func(rg *rand.Rand, h *wire.ServerHello, ch *wire.ClientHello) bool {
			if len(h.Exts) == 0 {
				return false
			}
			h.Exts = append(h.Exts, h.Exts[rg.Intn(len(h.Exts))])
			return true
		})},
		{"sh_no_extensions", sh(func(rg *rand.Rand, h *wire.ServerHello, ch *wire.ClientHello) bool {
			h.Exts = nil
			return true
		})},
		{"sh_cookie_sizes", sh(func(rg *rand.Rand, h *wire.ServerHello, ch *wire.ClientHello) bool {
			n := []int{0, 1, 2, 255, 256, 4096, 60000, 65000}[rg.Intn(8)]
			body := vec16(randBytes(rg, n))
			if n == 0 && rg.Intn(2) == 0 {
				body = nil
			}
			h.SetExt(wire.ExtCookie, body)
			return true
		})},
		{"sh_ech_confirmation", sh(func(rg *rand.Rand, h *wire.ServerHello, ch *wire.ClientHello) bool {
			h.SetExt(wire.ExtECH, randBytes(rg, []int{0, 1, 7, 8, 9, 64}[rg.Intn(6)]))
			return true
		})},
		{"sh_psk_selected", sh(func(rg *rand.Rand, h *wire.ServerHello, ch *wire.ClientHello) bool {
			h.SetExt(wire.ExtPreSharedKey, be16([]uint16{0, 1, 2, 0xffff}[rg.Intn(4)]))
			return true
		})},
	}
}

func encryptedExtensionsMuts() []fieldMut {
	ee := func(f func(rg *rand.Rand, exts []wire.Ext, ch *wire.ClientHello) []wire.Ext) func(rg *rand.Rand, m []byte, ch *wire.ClientHello) []byte {
		return func(rg *rand.Rand, m []byte, ch *wire.ClientHello) []byte {
			exts, ok := eeExts(m)
			if !ok {
				return nil
			}
			out := f(rg, exts, ch)
			if out == nil {
				return nil
			}
			return eeMarshal(out)
		}
	}
	hostileProtoLists := func(rg *rand.Rand, ch *wire.ClientHello) []byte {
		first := "h2"
		if len(ch.ALPN) > 0 {
			first = ch.ALPN[rg.Intn(len(ch.ALPN))]
		}
		switch rg.Intn(8) {
		case 0:
			return vec16(nil) // empty list
		case 1:
			return vec16(append(vec8([]byte(first)), vec8([]byte("http/1.1"))...)) // two protocols
		case 2:
			return vec16(vec8(nil)) // zero-length protocol
		case 3:
			return nil // empty body
		case 4:
			return append(be16(uint16(100)), vec8([]byte(first))...) // outer length too long
		case 5:
			return vec16(append([]byte{200}, []byte(first)...)) // inner length too long
		case 6:
			return vec16(vec8(randBytes(rg, 255)))
		default:
			return append(vec16(vec8([]byte(first))), 0) // trailing byte
		}
	}
	return []fieldMut{
		{"ee_alpn_malformed", ee(func(rg *rand.Rand, exts []wire.Ext, ch *wire.ClientHello) []wire.Ext {
			return setExt(exts, wire.ExtALPN, hostileProtoLists(rg, ch))
		})},
		{"ee_alps", ee(func(rg *rand.Rand, exts []wire.Ext, ch *wire.ClientHello) []wire.Ext {
			cp := []uint16{wire.ExtALPSOld, wire.ExtALPSNew}[rg.Intn(2)]
			if ch.Has(wire.ExtALPSNew) && rg.Intn(3) > 0 {
				cp = wire.ExtALPSNew
			} else if ch.Has(wire.ExtALPSOld) && rg.Intn(3) > 0 {
				cp = wire.ExtALPSOld
			}
			n := []int{0, 1, 100, 4096, 40000}[rg.Intn(5)]
			return setExt(exts, cp, randBytes(rg, n))
		})},
		{"ee_alps_both_codepoints", ee(func(rg *rand.Rand, exts []wire.Ext, ch *wire.ClientHello) []wire.Ext {
			exts = setExt(exts, wire.ExtALPSOld, randBytes(rg, rg.Intn(20)))
			return setExt(exts, wire.ExtALPSNew, randBytes(rg, rg.Intn(20)))
		})},
		{"ee_alps_without_alpn", ee(func(rg *rand.Rand, exts []wire.Ext, ch *wire.ClientHello) []wire.Ext {
			var out []wire.Ext
			for _, e := range exts {
				if e.Type != wire.ExtALPN {
					out = append(out, e)
				}
			}
			cp := uint16(wire.ExtALPSNew)
			if ch.Has(wire.ExtALPSOld) {
				cp = wire.ExtALPSOld
			}
			return setExt(out, cp, randBytes(rg, rg.Intn(50)))
		})},
		{"ee_forbidden_extension", ee(func(rg *rand.Rand, exts []wire.Ext, ch *wire.ClientHello) []wire.Ext {
			types := []uint16{wire.ExtKeyShare, wire.ExtSupportedVersions, wire.ExtPreSharedKey, wire.ExtCookie, wire.ExtStatusRequest, wire.ExtSCT, wire.ExtCompressCert,
				wire.ExtSNI, wire.ExtSupportedGroups, wire.ExtEarlyData, wire.ExtQUICTP, wire.ExtECH, wire.ExtRecordSizeLimit, wire.ExtSigAlgs, wire.ExtPadding, 0x0a0a, 0xfafa, 0xffff}
			t := types[rg.Intn(len(types))]
			var body []byte
			switch rg.Intn(4) {
			case 1:
				body = randBytes(rg, 1+rg.Intn(64))
			case 2:
				body = vec16(randBytes(rg, rg.Intn(64)))
			case 3:
				body = be16(uint16(rg.Intn(70000)))
			}
			return setExt(exts, t, body)
		})},
		{"ee_ech_retry_configs", ee(func(rg *rand.Rand, exts []wire.Ext, ch *wire.ClientHello) []wire.Ext {
			var body []byte
			switch rg.Intn(8) {
			case 4: // a well-formed list for a key the client has never seen
				body = peer.ECHConfigList(peer.NewECHKey(uint8(rg.Intn(256)), "public.example.test", []uint16{1}, uint8(rg.Intn(256))))
			case 5: // well-formed list, unknown version first
				good := peer.ECHConfigList(c33ECH().other)
				body = vec16(append(append(be16(0xfe0a), vec16(randBytes(rg, rg.Intn(40)))...), good[2:]...))
			case 6: // many configs
				one := peer.ECHConfigList(c33ECH().other)[2:]
				var l []byte
				for i := 0; i < 1+rg.Intn(200); i++ {
					l = append(l, one...)
				}
				if len(l) > 65000 {
					l = l[:65000]
				}
				body = vec16(l)
			case 7: // well-formed list with a mutated byte
				body = peer.ECHConfigList(c33ECH().other)
				body[rg.Intn(len(body))] ^= byte(1 << rg.Intn(8))
			case 0:
				body = vec16(nil)
			case 1:
				body = vec16(append(be16(0xfe0d), vec16(randBytes(rg, rg.Intn(80)))...))
			case 2:
				body = randBytes(rg, rg.Intn(100))
			case 3:
				body = vec16(append(be16(0xfe0d), be16(60000)...))
			}
			return setExt(exts, wire.ExtECH, body)
		})},
		{"ee_duplicate", ee(func(rg *rand.Rand, exts []wire.Ext, ch *wire.ClientHello) []wire.Ext {
			if len(exts) == 0 {
				return append(exts, wire.Ext{Type: wire.ExtALPN, Data: alpnBody("h2")}, wire.Ext{Type: wire.ExtALPN, Data: alpnBody("h2")})
			}
			return append(exts, exts[rg.Intn(len(exts))])
		})},
		{"ee_many_extensions", ee(func(rg *rand.Rand, exts []wire.Ext, ch *wire.ClientHello) []wire.Ext {
			for i := 0; i < 3000; i++ {
				exts = append(exts, wire.Ext{Type: uint16(0x4000 + i), Data: nil})
			}
			return exts
		})},
		{"ee_empty", ee(func(rg *rand.Rand, exts []wire.Ext, ch *wire.ClientHello) []wire.Ext { return []wire.Ext{} })},
	}
}

func certificate13Muts() []fieldMut {
	entry := func(der, ext []byte) []byte { return append(append(u24(len(der)), der...), vec16(ext)...) }
	mk := func(ctx []byte, entries ...[]byte) []byte {
		var list []byte
		for _, e := range entries {
			list = append(list, e...)
		}
		body := append(vec8(ctx), append(u24(len(list)), list...)...)
		return hsMsg(11, body)
	}
	return []fieldMut{
		{"cert_empty_list", func(rg *rand.Rand, m []byte, ch *wire.ClientHello) []byte { return mk(nil) }},
		{"cert_zero_length_entry", func(rg *rand.Rand, m []byte, ch *wire.ClientHello) []byte { return mk(nil, entry(nil, nil)) }},
		{"cert_garbage_der", func(rg *rand.Rand, m []byte, ch *wire.ClientHello) []byte {
			return mk(nil, entry(randBytes(rg, 1+rg.Intn(600)), nil))
		}},
		{"cert_nonempty_context", func(rg *rand.Rand, m []byte, ch *wire.ClientHello) []byte {
			ders, ok := certListOf(m[4:])
			if !ok || len(ders) == 0 {
				return nil
			}
			return mk(randBytes(rg, 1+rg.Intn(255)), entry(ders[0], nil))
		}},
		{"cert_entry_extensions", func(rg *rand.Rand, m []byte, ch *wire.ClientHello) []byte {
			ders, ok := certListOf(m[4:])
			if !ok || len(ders) == 0 {
				return nil
			}
			var ext []byte
			switch rg.Intn(4) {
			case 0: // status_request with hostile OCSP
				ext = encExt(wire.ExtStatusRequest, append([]byte{1}, append(u24(rg.Intn(300)), randBytes(rg, rg.Intn(100))...)...))
			case 1: // SCT list
				ext = encExt(wire.ExtSCT, vec16(vec16(randBytes(rg, rg.Intn(100)))))
			case 2:
				ext = encExt(wire.ExtSCT, randBytes(rg, rg.Intn(50)))
			case 3:
				ext = randBytes(rg, 1+rg.Intn(40))
			}
			return mk(nil, entry(ders[0], ext))
		}},
		{"cert_many_entries", func(rg *rand.Rand, m []byte, ch *wire.ClientHello) []byte {
			ders, ok := certListOf(m[4:])
			if !ok || len(ders) == 0 {
				return nil
			}
			var es [][]byte
			for i := 0; i < 1+rg.Intn(300) && i*len(ders[0]) < 200000; i++ {
				es = append(es, entry(ders[0], nil))
			}
			return mk(nil, es...)
		}},
		{"cert_list_length_lies", func(rg *rand.Rand, m []byte, ch *wire.ClientHello) []byte {
			out := append([]byte(nil), m...)
			if len(out) < 9 {
				return nil
			}
			v := []int{0, 1, len(out) - 8 - 1, len(out) - 8 + 1, 0xffffff}[rg.Intn(5)]
			if v < 0 {
				v = 0
			}
			copy(out[5:8], u24(v))
			return out
		}},
	}
}

// zstd frames the klauspost decoder must refuse or bound: a frame header that declares a
// huge window / content size in front of little data.
func zstdHostileFrames(rg *rand.Rand) []byte {
	magic := []byte{0x28, 0xb5, 0x2f, 0xfd}
	switch rg.Intn(5) {
	case 0: // window descriptor: exponent 31 (max), no content size; one raw block
		return append(append(magic, 0x00, 0xf8), 0x01|byte(0<<1)|byte(4<<3), 0x00, 0x00, 'a', 'b', 'c', 'd')
	case 1: // single segment, 8-byte frame content size = 2^40
		return append(append(magic, 0xe0), 0, 0, 0, 0, 0, 1, 0, 0, 0x01, 0x00, 0x00)
	case 2: // RLE block of maximal size repeated: 128 KiB per 4 bytes
		out := append(append([]byte(nil), magic...), 0x00, 0x58)
		for i := 0; i < 200; i++ {
			n := 128 << 10
			last := 0
			if i == 199 {
				last = 1
			}
			h := uint32(last) | 1<<1 | uint32(n)<<3
			out = append(out, byte(h), byte(h>>8), byte(h>>16), 0x00)
		}
		return out
	case 3: // window 2^31 and an RLE block
		out := append(append([]byte(nil), magic...), 0x00, 0xa8)
		n := 128 << 10
		h := uint32(1) | 1<<1 | uint32(n)<<3
		return append(out, byte(h), byte(h>>8), byte(h>>16), 0x00)
	default:
		return append(magic, randBytes(rg, 2+rg.Intn(40))...)
	}
}

var bombSizes = func() []int {
	if os.Getenv("VERIF_RACE_PASS") == "1" {
		return []int{1 << 18, 1 << 20}
	}
	return []int{1 << 20, 1<<24 - 1, 1 << 24, 40 << 20}
}()

var bombCache sync.Map // "alg/n" -> []byte

// bomb returns a valid compressed stream of n zero bytes.  The streams are memoised (and
// pre-computed before the allocation pass) so that producing them is not charged to the
// client under test.
func bomb(alg uint16, n int) []byte {
	k := fmt.Sprintf("%d/%d", alg, n)
	if v, ok := bombCache.Load(k); ok {
		return v.([]byte)
	}
	comp, err := compress(alg, make([]byte, n), compOpts{})
	if err != nil {
		comp = nil
	}
	bombCache.Store(k, comp)
	return comp
}

// compressedCertMuts replace the (real) Certificate or CompressedCertificate message by
// a hostile CompressedCertificate.
func compressedCertMuts() []fieldMut {
	algFor := func(rg *rand.Rand, ch *wire.ClientHello) uint16 {
		if len(ch.CertCompAlgs) > 0 && rg.Intn(5) > 0 {
			return ch.CertCompAlgs[rg.Intn(len(ch.CertCompAlgs))]
		}
		return []uint16{0, 1, 2, 3, 4, 0xffff}[rg.Intn(6)]
	}
	certBody := func(m []byte) []byte {
		if m[0] == 11 {
			return m[4:]
		}
		// already compressed by the scenario: decode it back with the reference decoder
		if len(m) < 12 {
			return nil
		}
		alg := uint16(m[4])<<8 | uint16(m[5])
		out, err := decompressAll(alg, m[12:])
		if err != nil {
			return nil
		}
		return out
	}
	return []fieldMut{
		{"cc_declared_length", func(rg *rand.Rand, m []byte, ch *wire.ClientHello) []byte {
			body := certBody(m)
			if body == nil {
				return nil
			}
			alg := algFor(rg, ch)
			comp, err := compress(alg, body, compOpts{})
			if err != nil {
				comp = randBytes(rg, 30)
			}
			n := len(body)
			d := []int{0, 1, n - 1, n + 1, n - 1000, n + 1000, 1 << 16, 1<<24 - 1, 1<<24 - 5, 1 << 20}[rg.Intn(10)]
			if d < 0 {
				d = 0
			}
			return compressedCertificateMsg(alg, d, comp)
		}},
		{"cc_stream_corrupt", func(rg *rand.Rand, m []byte, ch *wire.ClientHello) []byte {
			body := certBody(m)
			if body == nil {
				return nil
			}
			alg := algFor(rg, ch)
			comp, err := compress(alg, body, compOpts{FlushEvery: []int{0, 64, 1000}[rg.Intn(3)]})
			if err != nil {
				comp = randBytes(rg, 30)
			}
			switch rg.Intn(6) {
			case 0:
				comp = comp[:rg.Intn(len(comp))]
			case 1:
				comp[rg.Intn(len(comp))] ^= byte(1 << uint(rg.Intn(8)))
			case 2:
				comp = append(comp, randBytes(rg, 1+rg.Intn(50))...)
			case 3:
				comp = comp[:rg.Intn(3)] // shorter than any header
			case 4:
				comp[0] ^= byte(1 + rg.Intn(255)) // header byte
				if len(comp) > 1 && rg.Intn(2) == 0 {
					comp[1] ^= byte(1 + rg.Intn(255))
				}
			case 5:
				comp = nil
			}
			return compressedCertificateMsg(alg, len(body), comp)
		}},
		{"cc_bomb", func(rg *rand.Rand, m []byte, ch *wire.ClientHello) []byte {
			alg := algFor(rg, ch)
			n := bombSizes[rg.Intn(len(bombSizes))]
			comp := bomb(alg, n)
			if comp == nil || len(comp) > 200000 {
				return nil
			}
			d := []int{n, 1<<24 - 1, 100, 0}[rg.Intn(4)]
			if d > 1<<24-1 {
				d = 1<<24 - 1
			}
			return compressedCertificateMsg(alg, d, comp)
		}},
		{"cc_zstd_hostile_frame", func(rg *rand.Rand, m []byte, ch *wire.ClientHello) []byte {
			d := []int{0, 4, 1000, 1 << 20, 1<<24 - 1}[rg.Intn(5)]
			return compressedCertificateMsg(algZstd, d, zstdHostileFrames(rg))
		}},
		{"cc_truncated_message", func(rg *rand.Rand, m []byte, ch *wire.ClientHello) []byte {
			alg := algFor(rg, ch)
			full := compressedCertificateMsg(alg, 100, randBytes(rg, 20))
			return hsMsg(25, full[4:4+rg.Intn(9)])
		}},
		{"cc_inner_length_lies", func(rg *rand.Rand, m []byte, ch *wire.ClientHello) []byte {
			alg := algFor(rg, ch)
			body := append(be16(alg), u24(100)...)
			body = append(body, u24([]int{0, 1, 50, 0xffffff}[rg.Intn(4)])...)
			body = append(body, randBytes(rg, 20)...)
			return hsMsg(25, body)
		}},
		{"cc_of_mutated_certificate", func(rg *rand.Rand, m []byte, ch *wire.ClientHello) []byte {
			// a perfectly valid compression (advertised algorithm, right declared length) of a
			// hostile Certificate message: empty list, zero-length entry, garbage DER, ...
			body := certBody(m)
			if body == nil {
				return nil
			}
			inner := certificate13Muts()
			mm := inner[rg.Intn(len(inner))].f(rg, hsMsg(11, body), ch)
			if mm == nil || len(mm) < 4 {
				return nil
			}
			alg := uint16(0)
			if len(ch.CertCompAlgs) > 0 {
				alg = ch.CertCompAlgs[rg.Intn(len(ch.CertCompAlgs))]
			} else {
				alg = []uint16{1, 2, 3}[rg.Intn(3)]
			}
			comp, err := compress(alg, mm[4:], compOpts{})
			if err != nil {
				return nil
			}
			return compressedCertificateMsg(alg, len(mm)-4, comp)
		}},
		{"cc_twice", func(rg *rand.Rand, m []byte, ch *wire.ClientHello) []byte {
			body := certBody(m)
			if body == nil {
				return nil
			}
			alg := algFor(rg, ch)
			comp, err := compress(alg, body, compOpts{})
			if err != nil {
				return nil
			}
			x := compressedCertificateMsg(alg, len(body), comp)
			return append(append([]byte(nil), x...), x...)
		}},
	}
}

func certVerifyMuts() []fieldMut {
	return []fieldMut{
		{"cv_algorithm", func(rg *rand.Rand, m []byte, ch *wire.ClientHello) []byte {
			if len(m) < 8 {
				return nil
			}
			pool := append([]uint16{0, 0x0201, 0x0203, 0x0401, 0x0403, 0x0804, 0x0807, 0x0808, 0x0a0a, 0xffff}, ch.SigAlgs...)
			a := pool[rg.Intn(len(pool))]
			out := append([]byte(nil), m...)
			out[4], out[5] = byte(a>>8), byte(a)
			return out
		}},
		{"cv_signature_length", func(rg *rand.Rand, m []byte, ch *wire.ClientHello) []byte {
			if len(m) < 8 {
				return nil
			}
			n := []int{0, 1, 63, 64, 65, 255, 256, 512, 40000}[rg.Intn(9)]
			return hsMsg(15, append(append([]byte(nil), m[4:6]...), vec16(randBytes(rg, n))...))
		}},
	}
}

func finishedMuts() []fieldMut {
	return []fieldMut{
		{"fin_length", func(rg *rand.Rand, m []byte, ch *wire.ClientHello) []byte {
			return hsMsg(20, randBytes(rg, []int{0, 1, 11, 12, 13, 31, 32, 33, 47, 48, 49, 64, 1000}[rg.Intn(13)]))
		}},
	}
}

func nst13Muts() []fieldMut {
	mk := func(lifetime, ageAdd uint32, nonce, label, exts []byte) []byte {
		body := []byte{byte(lifetime >> 24), byte(lifetime >> 16), byte(lifetime >> 8), byte(lifetime), byte(ageAdd >> 24), byte(ageAdd >> 16), byte(ageAdd >> 8), byte(ageAdd)}
		body = append(body, vec8(nonce)...)
		body = append(body, vec16(label)...)
		body = append(body, vec16(exts)...)
		return hsMsg(4, body)
	}
	return []fieldMut{
		{"nst_fields", func(rg *rand.Rand, m []byte, ch *wire.ClientHello) []byte {
			lifetime := []uint32{0, 1, 604800, 604801, 0x7fffffff, 0xffffffff}[rg.Intn(6)]
			nonce := randBytes(rg, []int{0, 1, 8, 255}[rg.Intn(4)])
			label := randBytes(rg, []int{0, 1, 32, 300, 30000, 65000}[rg.Intn(6)])
			var exts []byte
			switch rg.Intn(4) {
			case 1:
				exts = encExt(wire.ExtEarlyData, []byte{0xff, 0xff, 0xff, 0xff})
			case 2:
				exts = encExt(wire.ExtEarlyData, randBytes(rg, rg.Intn(8)))
			case 3:
				exts = randBytes(rg, 1+rg.Intn(20))
			}
			return mk(lifetime, rg.Uint32(), nonce, label, exts)
		}},
		{"nst_storm", func(rg *rand.Rand, m []byte, ch *wire.ClientHello) []byte {
			var out []byte
			for i := 0; i < 1+rg.Intn(400); i++ {
				out = append(out, mk(7200, rg.Uint32(), []byte{byte(i), byte(i >> 8)}, randBytes(rg, 32+rg.Intn(64)), nil)...)
			}
			return out
		}},
		{"nst_then_keyupdates", func(rg *rand.Rand, m []byte, ch *wire.ClientHello) []byte {
			out := append([]byte(nil), m...)
			for i := 0; i < 1+rg.Intn(60); i++ {
				out = append(out, hsMsg(24, []byte{[]byte{0, 1, 2, 255}[rg.Intn(4)]})...)
			}
			return out
		}},
		{"nst_then_unexpected", func(rg *rand.Rand, m []byte, ch *wire.ClientHello) []byte {
			t := []byte{0, 1, 2, 8, 11, 13, 15, 20, 25}[rg.Intn(9)]
			return append(append([]byte(nil), m...), hsMsg(t, randBytes(rg, rg.Intn(60)))...)
		}},
	}
}

func certReq13Muts() []fieldMut {
	return []fieldMut{
		{"cr_fields", func(rg *rand.Rand, m []byte, ch *wire.ClientHello) []byte {
			ctx := randBytes(rg, []int{0, 1, 255}[rg.Intn(3)])
			var exts []byte
			switch rg.Intn(5) {
			case 0:
			case 1:
				exts = encExt(wire.ExtSigAlgs, vec16(nil))
			case 2:
				exts = encExt(wire.ExtSigAlgs, vec16(randBytes(rg, 1+2*rg.Intn(20))))
			case 3:
				exts = append(encExt(wire.ExtSigAlgs, vec16(be16(0x0403))), encExt(47, vec16(vec16(randBytes(rg, rg.Intn(300)))))...) // certificate_authorities
			case 4:
				exts = append(encExt(wire.ExtSigAlgs, vec16(be16(0x0403))), encExt(wire.ExtCompressCert, randBytes(rg, rg.Intn(9)))...)
			}
			return hsMsg(13, append(vec8(ctx), vec16(exts)...))
		}},
	}
}

// TLS <= 1.2 messages
func tls12Muts(typ byte) []fieldMut {
	switch typ {
	case 11:
		return []fieldMut{{"cert12_list", func(rg *rand.Rand, m []byte, ch *wire.ClientHello) []byte {
			switch rg.Intn(4) {
			case 0:
				return hsMsg(11, u24(0))
			case 1:
				return hsMsg(11, append(u24(3), u24(0)...))
			case 2:
				d := randBytes(rg, 1+rg.Intn(500))
				e := append(u24(len(d)), d...)
				return hsMsg(11, append(u24(len(e)), e...))
			default:
				out := append([]byte(nil), m...)
				if len(out) < 7 {
					return nil
				}
				copy(out[4:7], u24([]int{0, 1, len(out) - 7 + 1, 0xffffff}[rg.Intn(4)]))
				return out
			}
		}}}
	case 12:
		return []fieldMut{{"ske_params", func(rg *rand.Rand, m []byte, ch *wire.ClientHello) []byte {
			pool := append([]uint16{0, 0x001d, 0x0017, 0x0018, 0x0019, 0x001e, 0x0100, 0x0a0a, 0x11ec, 0xffff}, ch.Groups...)
			g := pool[rg.Intn(len(pool))]
			pt := randBytes(rg, []int{0, 1, 31, 32, 33, 65, 97, 133, 255}[rg.Intn(9)])
			ct := byte(3)
			if rg.Intn(5) == 0 {
				ct = byte(rg.Intn(256))
			}
			body := append([]byte{ct}, be16(g)...)
			body = append(body, vec8(pt)...)
			sa := append([]uint16{0x0401, 0x0403, 0x0804, 0x0201, 0x0807, 0, 0xffff}, ch.SigAlgs...)
			body = append(body, be16(sa[rg.Intn(len(sa))])...)
			body = append(body, vec16(randBytes(rg, []int{0, 1, 64, 71, 256, 1000}[rg.Intn(6)]))...)
			if rg.Intn(4) == 0 {
				body = body[:rg.Intn(len(body))]
			}
			return hsMsg(12, body)
		}}, {"ske_keep_signature_change_point", func(rg *rand.Rand, m []byte, ch *wire.ClientHello) []byte {
			out := append([]byte(nil), m...)
			if len(out) < 12 {
				return nil
			}
			fill := []byte{0, 0xff}[rg.Intn(2)]
			n := int(out[7])
			for i := 8; i < 8+n && i < len(out); i++ {
				out[i] = fill
			}
			return out
		}}}
	case 22:
		return []fieldMut{{"certstatus", func(rg *rand.Rand, m []byte, ch *wire.ClientHello) []byte {
			switch rg.Intn(3) {
			case 0:
				return hsMsg(22, append([]byte{byte(rg.Intn(4))}, u24(0)...))
			case 1:
				return hsMsg(22, append([]byte{1}, append(u24(70000), randBytes(rg, 10)...)...))
			default:
				d := randBytes(rg, rg.Intn(2000))
				return hsMsg(22, append([]byte{1}, append(u24(len(d)), d...)...))
			}
		}}}
	case 14:
		return []fieldMut{{"hellodone_body", func(rg *rand.Rand, m []byte, ch *wire.ClientHello) []byte {
			return hsMsg(14, randBytes(rg, 1+rg.Intn(40)))
		}}}
	case 4:
		return []fieldMut{{"nst12", func(rg *rand.Rand, m []byte, ch *wire.ClientHello) []byte {
			lt := []uint32{0, 1, 0xffffffff}[rg.Intn(3)]
			tk := randBytes(rg, []int{0, 1, 200, 65000}[rg.Intn(4)])
			return hsMsg(4, append([]byte{byte(lt >> 24), byte(lt >> 16), byte(lt >> 8), byte(lt)}, vec16(tk)...))
		}}}
	case 13:
		return []fieldMut{{"certreq12", func(rg *rand.Rand, m []byte, ch *wire.ClientHello) []byte {
			body := vec8(randBytes(rg, rg.Intn(6)))
			body = append(body, vec16(randBytes(rg, 2*rg.Intn(10)+rg.Intn(2)))...)
			var cas []byte
			for i := 0; i < rg.Intn(5); i++ {
				cas = append(cas, vec16(randBytes(rg, rg.Intn(100)))...)
			}
			body = append(body, vec16(cas)...)
			return hsMsg(13, body)
		}}}
	case 20:
		return []fieldMut{{"fin12_length", func(rg *rand.Rand, m []byte, ch *wire.ClientHello) []byte {
			return hsMsg(20, randBytes(rg, []int{0, 1, 11, 12, 13, 36, 100}[rg.Intn(7)]))
		}}}
	}
	return nil
}

func fieldMutsFor(tls13 bool, typ byte) []fieldMut {
	if typ == 2 {
		return serverHelloMuts()
	}
	if !tls13 {
		return tls12Muts(typ)
	}
	switch typ {
	case 8:
		return encryptedExtensionsMuts()
	case 11:
		return append(certificate13Muts(), compressedCertMuts()...)
	case 25:
		return compressedCertMuts()
	case 13:
		return certReq13Muts()
	case 15:
		return certVerifyMuts()
	case 20:
		return finishedMuts()
	case 4:
		return nst13Muts()
	}
	return nil
}

// ---- scenarios ----

type c33Scenario struct {
	name  string
	tls13 bool
	// setup returns the server config and an optional base rewrite (applied to every
	// outgoing server message before the case's mutation), or ok=false when the
	// scenario does not apply to this hello.
	setup func(ch *wire.ClientHello, o Offer) (scfg *tls.Config, plan *tls.VerifPlan, base func(m []byte) []byte, ok bool)
	// resume: run a clean connection over a shared session cache first
	resume bool
	// clientCert: give the client a certificate
	clientCert bool
	// needPSKExt: only for targets whose spec carries a pre_shared_key extension (or Golang)
	needPSKExt bool
	// ech: the client is configured with an ECHConfigList ("accept": the server holds the
	// key; "reject": it holds another key with the same config id and sends retry configs)
	ech string
}

// c33ECH: the ECH keys of the ECH scenarios (public name public.example.test).
var c33ECH = sync.OnceValue(func() (k struct {
	key, other *peer.ECHKey
	leaf       tls.Certificate
}) {
	k.key = peer.NewECHKey(7, "public.example.test", []uint16{1, 3}, 32)
	k.other = peer.NewECHKey(7, "public.example.test", []uint16{1, 3}, 32)
	k.leaf = peer.Fix().CA.Leaf(peer.LeafOpts{Kind: "ecdsa", Names: []string{"example.test", "public.example.test"}})
	return k
})

func echCapable(ch *wire.ClientHello, tg Target) bool {
	return tg.ID.Client == tls.HelloGolang.Client && tg.Spec == nil || ch.Has(wire.ExtECH)
}

func c33Scenarios() []c33Scenario {
	f := peer.Fix()
	srv := func(max uint16) *tls.Config {
		c := peer.ServerConfig()
		c.MaxVersion = max
		c.NextProtos = []string{"h2", "http/1.1"}
		return c
	}
	has13 := func(o Offer) bool { return o.Has(tls.VersionTLS13) && len(o.Suites13) > 0 }
	has12 := func(o Offer) bool { return o.Has(tls.VersionTLS12) && len(o.Suites12) > 0 }
	return []c33Scenario{
		{name: "tls13", tls13: true, setup: func(ch *wire.ClientHello, o Offer) (*tls.Config, *tls.VerifPlan, func([]byte) []byte, bool) {
			return srv(tls.VersionTLS13), &tls.VerifPlan{}, nil, has13(o)
		}},
		{name: "tls13-hrr", tls13: true, setup: func(ch *wire.ClientHello, o Offer) (*tls.Config, *tls.VerifPlan, func([]byte) []byte, bool) {
			g := hrrGroupFor(ch)
			return srv(tls.VersionTLS13), &tls.VerifPlan{ForceGroup: g}, nil, has13(o) && g != 0
		}},
		{name: "tls13-clientauth", tls13: true, clientCert: true, setup: func(ch *wire.ClientHello, o Offer) (*tls.Config, *tls.VerifPlan, func([]byte) []byte, bool) {
			c := srv(tls.VersionTLS13)
			c.ClientAuth = tls.RequestClientCert
			return c, &tls.VerifPlan{}, nil, has13(o)
		}},
		{name: "tls13-compressed", tls13: true, setup: func(ch *wire.ClientHello, o Offer) (*tls.Config, *tls.VerifPlan, func([]byte) []byte, bool) {
			if !has13(o) || len(ch.CertCompAlgs) == 0 {
				return nil, nil, nil, false
			}
			alg := ch.CertCompAlgs[0]
			base := func(m []byte) []byte {
				if m[0] != 11 {
					return m
				}
				comp, err := compress(alg, m[4:], compOpts{})
				if err != nil {
					return m
				}
				return compressedCertificateMsg(alg, len(m)-4, comp)
			}
			return srv(tls.VersionTLS13), &tls.VerifPlan{}, base, true
		}},
		{name: "tls13-alps", tls13: true, setup: func(ch *wire.ClientHello, o Offer) (*tls.Config, *tls.VerifPlan, func([]byte) []byte, bool) {
			cp := uint16(0)
			if ch.Has(wire.ExtALPSNew) {
				cp = wire.ExtALPSNew
			} else if ch.Has(wire.ExtALPSOld) {
				cp = wire.ExtALPSOld
			}
			if !has13(o) || cp == 0 || len(ch.ALPN) == 0 {
				return nil, nil, nil, false
			}
			c := srv(tls.VersionTLS13)
			c.ClientAuth = tls.RequestClientCert
			base := func(m []byte) []byte {
				if m[0] != 8 {
					return m
				}
				exts, ok := eeExts(m)
				if !ok {
					return m
				}
				return eeMarshal(setExt(exts, cp, []byte("server-settings")))
			}
			return c, &tls.VerifPlan{ReadClientEE: true}, base, true
		}},
		{name: "tls13-resume", tls13: true, resume: true, setup: func(ch *wire.ClientHello, o Offer) (*tls.Config, *tls.VerifPlan, func([]byte) []byte, bool) {
			return srv(tls.VersionTLS13), &tls.VerifPlan{}, nil, has13(o) && ch.Has(wire.ExtPSKModes)
		}, needPSKExt: true},
		{name: "tls13-ech-accept", tls13: true, ech: "accept", setup: func(ch *wire.ClientHello, o Offer) (*tls.Config, *tls.VerifPlan, func([]byte) []byte, bool) {
			c := srv(tls.VersionTLS13)
			c.Certificates = []tls.Certificate{c33ECH().leaf}
			c.EncryptedClientHelloKeys = peer.ECHServerKeys(true, c33ECH().key)
			return c, &tls.VerifPlan{}, nil, has13(o)
		}},
		{name: "tls13-ech-accept-hrr", tls13: true, ech: "accept", setup: func(ch *wire.ClientHello, o Offer) (*tls.Config, *tls.VerifPlan, func([]byte) []byte, bool) {
			c := srv(tls.VersionTLS13)
			c.Certificates = []tls.Certificate{c33ECH().leaf}
			c.EncryptedClientHelloKeys = peer.ECHServerKeys(true, c33ECH().key)
			g := hrrGroupFor(ch)
			if g == 0 {
				g = tls.CurveP384
			}
			c.CurvePreferences = []tls.CurveID{g}
			return c, &tls.VerifPlan{}, nil, has13(o)
		}},
		{name: "tls13-ech-reject", tls13: true, ech: "reject", setup: func(ch *wire.ClientHello, o Offer) (*tls.Config, *tls.VerifPlan, func([]byte) []byte, bool) {
			c := srv(tls.VersionTLS13)
			c.Certificates = []tls.Certificate{c33ECH().leaf}
			c.EncryptedClientHelloKeys = peer.ECHServerKeys(true, c33ECH().other)
			return c, &tls.VerifPlan{}, nil, has13(o)
		}},
		{name: "tls12", setup: func(ch *wire.ClientHello, o Offer) (*tls.Config, *tls.VerifPlan, func([]byte) []byte, bool) {
			c := srv(tls.VersionTLS12)
			leaf := f.ECDSA
			leaf.OCSPStaple = []byte("not-really-an-ocsp-response")
			c.Certificates = []tls.Certificate{leaf, f.RSA}
			return c, &tls.VerifPlan{}, nil, has12(o)
		}},
		{name: "tls12-clientauth", clientCert: true, setup: func(ch *wire.ClientHello, o Offer) (*tls.Config, *tls.VerifPlan, func([]byte) []byte, bool) {
			c := srv(tls.VersionTLS12)
			c.ClientAuth = tls.RequestClientCert
			return c, &tls.VerifPlan{}, nil, has12(o)
		}},
		{name: "tls12-resume", resume: true, setup: func(ch *wire.ClientHello, o Offer) (*tls.Config, *tls.VerifPlan, func([]byte) []byte, bool) {
			return srv(tls.VersionTLS12), &tls.VerifPlan{}, nil, has12(o) && ch.Has(wire.ExtSessionTicket)
		}},
		{name: "tls12-rsakex", setup: func(ch *wire.ClientHello, o Offer) (*tls.Config, *tls.VerifPlan, func([]byte) []byte, bool) {
			c := srv(tls.VersionTLS12)
			c.CipherSuites = []uint16{tls.TLS_RSA_WITH_AES_128_GCM_SHA256, tls.TLS_RSA_WITH_AES_128_CBC_SHA}
			c.Certificates = []tls.Certificate{f.RSA}
			ok := false
			for _, s := range o.Suites12 {
				if s == tls.TLS_RSA_WITH_AES_128_GCM_SHA256 || s == tls.TLS_RSA_WITH_AES_128_CBC_SHA {
					ok = true
				}
			}
			return c, &tls.VerifPlan{}, nil, has12(o) && ok
		}},
		{name: "tls10", setup: func(ch *wire.ClientHello, o Offer) (*tls.Config, *tls.VerifPlan, func([]byte) []byte, bool) {
			return srv(tls.VersionTLS10), &tls.VerifPlan{}, nil, o.Has(tls.VersionTLS10) && len(o.Suites12) > 0
		}},
	}
}

// c33Case is one execution.
type c33Case struct {
	id       string
	tg       Target
	sc       c33Scenario
	msgIndex int // which outgoing server handshake message is mutated (-1: none)
	mutName  string
	mutate   func(rg *rand.Rand, m []byte) []byte
	seed     int
	silent   bool // the server never closes: only the client's own deadline ends the run
}

type c33Result struct {
	clientErr   error
	readErr     error
	panicked    string
	hung        *boundedOutcome
	recvBytes   int
	mutated     bool
	completed   bool // client handshake returned nil
	serverTypes []byte
	phase       string
}

// c33Run executes one structured case.
func c33Run(cs c33Case, ch *wire.ClientHello, o Offer, cache tls.ClientSessionCache) c33Result {
	var res c33Result
	scfg, plan, base, ok := cs.sc.setup(ch, o)
	if !ok {
		res.phase = "n/a"
		return res
	}
	rg := Sub("C33case:"+cs.id, cs.seed)
	var mu sync.Mutex
	idx := 0
	plan.RewriteOut = func(isClient bool, data []byte) []byte {
		if isClient || len(data) < 4 {
			return nil
		}
		mu.Lock()
		defer mu.Unlock()
		i := idx
		idx++
		out := data
		if base != nil {
			out = base(append([]byte(nil), data...))
		}
		res.serverTypes = append(res.serverTypes, out[0])
		if i == cs.msgIndex && cs.mutate != nil {
			if m := cs.mutate(rg, append([]byte(nil), out...)); m != nil {
				res.mutated = true
				out = m
			}
		}
		return out
	}
	c, s, tap := peer.Pipe()
	defer c.Close()
	defer s.Close()
	dl := c33ClientDeadline
	if cs.silent {
		dl = 300 * time.Millisecond
	}
	c.SetDeadline(time.Now().Add(dl))
	s.SetDeadline(time.Now().Add(dl + 2*time.Second))
	ccfg := peer.ClientConfig("example.test")
	ccfg.OmitEmptyPsk = true
	if cache == nil && strings.HasSuffix(cs.tg.Name, "+fake-psk-setter") {
		cache = fakePSKWarmCache()
	}
	ccfg.ClientSessionCache = cache
	ccfg.PreferSkipResumptionOnNilExtension = true // documented switch: specs without the extension skip resumption instead of panicking
	ccfg.NextProtos = nil
	if cs.sc.clientCert {
		ccfg.Certificates = []tls.Certificate{peer.Fix().ECDSA}
	}
	ccfg.ApplicationSettings = map[string][]byte{"h2": []byte("client-settings")}
	if cs.sc.ech != "" {
		ccfg.EncryptedClientHelloConfigList = peer.ECHConfigList(c33ECH().key)
	}
	server := tls.Server(s, scfg)
	tls.VerifAttach(server, plan)
	stop := make(chan struct{})
	sdone := make(chan struct{})
	go func() {
		defer close(sdone)
		func() {
			defer func() { recover() }() // the server is not the subject here
			if err := server.Handshake(); err != nil {
				if !cs.silent {
					s.Close()
				}
				return
			}
			server.Write([]byte("pong"))
			if !cs.silent {
				server.Close()
				s.Close()
			}
		}()
	}()
	if !cs.silent {
		// a hostile server may hang up at any time: do so as soon as both ends wait for
		// each other (otherwise the case would only end at the deadline)
		go func() {
			tk := time.NewTicker(2 * time.Millisecond)
			defer tk.Stop()
			n := 0
			for {
				select {
				case <-stop:
					return
				case <-tk.C:
					if peer.Quiescent(c, s) {
						n++
						if n >= 3 {
							s.Close()
							return
						}
					} else {
						n = 0
					}
				}
			}
		}()
	}
	var u *tls.UConn
	out := runBounded(c33Limit, func() error {
		u = tls.UClient(c, ccfg, cs.tg.ClientID())
		if prep := cs.tg.Prepare(); prep != nil {
			if err := prep(u); err != nil {
				res.phase = "prepare"
				return err
			}
		}
		res.phase = "handshake"
		if err := u.Handshake(); err != nil {
			return err
		}
		res.completed = true
		res.phase = "read"
		buf := make([]byte, 4096)
		for i := 0; i < 64; i++ {
			_, err := u.Read(buf)
			if err != nil {
				res.readErr = err
				break
			}
		}
		res.phase = "close"
		u.Close()
		return nil
	})
	close(stop)
	if !out.Returned {
		res.hung = &out
		c.Close()
		s.Close()
	} else {
		res.clientErr = out.Err
		res.panicked = out.Panic
	}
	c.Close()
	s.Close()
	select {
	case <-sdone:
	case <-time.After(10 * time.Second):
	}
	_, s2c := tap.Snapshot()
	res.recvBytes = len(s2c)
	return res
}

// rawStream generates a hostile record stream.
func rawStream(rg *rand.Rand) (name string, stream []byte) {
	rec := func(typ byte, vers uint16, declared int, body []byte) []byte {
		return append([]byte{typ, byte(vers >> 8), byte(vers), byte(declared >> 8), byte(declared)}, body...)
	}
	types := []byte{20, 21, 22, 23, 24, 0, 25, 0x80, 0xff}
	versions := []uint16{0x0301, 0x0303, 0x0304, 0x0300, 0x0000, 0xffff, 0x0200}
	switch k := rg.Intn(9); k {
	case 0:
		return "random", randBytes(rg, 1+rg.Intn(4096))
	case 1:
		var out []byte
		for i := 0; i < 1+rg.Intn(4); i++ {
			l := []int{0, 1, 2, 5, 100, 16384, 16385, 16384 + 256, 16384 + 2048, 16384 + 2049, 65535}[rg.Intn(11)]
			bl := []int{l, l / 2, 0, l}[rg.Intn(4)]
			out = append(out, rec(types[rg.Intn(len(types))], versions[rg.Intn(len(versions))], l, randBytes(rg, bl))...)
		}
		return "record_headers", out
	case 2:
		t := []byte{2, 11, 25, 8, 4, 12, 13, 14, 15, 20, 24, 1, 0}[rg.Intn(13)]
		l := []int{0, 1, 65535, 65536, 65537, 262144, 262145, 1 << 20, 0xffffff}[rg.Intn(9)]
		n := l
		if n > 300 {
			n = rg.Intn(300)
		}
		msg := append(append([]byte{t}, u24(l)...), randBytes(rg, n)...)
		return "handshake_length", rec(22, 0x0303, len(msg), msg)
	case 3:
		t := []byte{22, 23, 20, 21}[rg.Intn(4)]
		var out []byte
		for i := 0; i < 10000; i++ {
			out = append(out, rec(t, 0x0303, 0, nil)...)
		}
		return "empty_record_storm", out
	case 4:
		var out []byte
		d := []byte{0, 90, 100, 10, 255}[rg.Intn(5)]
		for i := 0; i < 10000; i++ {
			out = append(out, rec(21, 0x0303, 2, []byte{1, d})...)
		}
		return "warning_alert_storm", out
	case 5: // a syntactically plausible ServerHello with random contents, then noise
		sh := &wire.ServerHello{Version: 0x0303, Random: randBytes(rg, 32), SessionID: randBytes(rg, 32), Suite: []uint16{0x1301, 0xc02f, 0x002f, 0x1303}[rg.Intn(4)], Exts: []wire.Ext{}}
		if rg.Intn(2) == 0 {
			sh.SetExt(wire.ExtSupportedVersions, be16(0x0304))
			sh.SetExt(wire.ExtKeyShare, append(be16(0x001d), vec16(randBytes(rg, 32))...))
		}
		m := sh.Marshal()
		out := rec(22, 0x0303, len(m), m)
		out = append(out, rec(20, 0x0303, 1, []byte{1})...)
		for i := 0; i < rg.Intn(5); i++ {
			b := randBytes(rg, 20+rg.Intn(400))
			out = append(out, rec(23, 0x0303, len(b), b)...)
		}
		return "plausible_serverhello_then_noise", out
	case 6:
		var out []byte
		for i := 0; i < 200; i++ {
			out = append(out, rec(20, 0x0303, 1, []byte{1})...)
		}
		return "ccs_storm", out
	case 7: // handshake message split over thousands of one-byte records
		msg := append(append([]byte{2}, u24(3000)...), randBytes(rg, 3000)...)
		var out []byte
		for _, b := range msg {
			out = append(out, rec(22, 0x0303, 1, []byte{b})...)
		}
		return "one_byte_fragments", out
	default:
		// SSLv2-style / HTTP answers
		return "not_tls", [][]byte{[]byte("HTTP/1.1 400 Bad Request\r\n\r\n"), {0x80, 0x2e, 0x04, 0x00, 0x01}, []byte("SSH-2.0-OpenSSH_9.0\r\n")}[rg.Intn(3)]
	}
}

// c33RunRaw: scripted peer. behaviour: "close" after sending, or "silent".
func c33RunRaw(tg Target, stream []byte, silent bool) c33Result {
	var res c33Result
	c, s, _ := peer.Pipe()
	defer c.Close()
	defer s.Close()
	dl := c33ClientDeadline
	if silent {
		dl = 300 * time.Millisecond
	}
	c.SetDeadline(time.Now().Add(dl))
	s.SetDeadline(time.Now().Add(dl + time.Second))
	sdone := make(chan struct{})
	go func() {
		defer close(sdone)
		buf := make([]byte, 70000)
		var got []byte
		for {
			n, err := s.Read(buf)
			got = append(got, buf[:n]...)
			if len(wire.ClientHellos(got)) > 0 || err != nil {
				break
			}
		}
		s.Write(stream)
		if !silent {
			s.Close()
		}
	}()
	ccfg := peer.ClientConfig("example.test")
	ccfg.OmitEmptyPsk = true
	out := runBounded(c33Limit, func() error {
		u := tls.UClient(c, ccfg, tg.ClientID())
		if prep := tg.Prepare(); prep != nil {
			if err := prep(u); err != nil {
				return err
			}
		}
		if err := u.Handshake(); err != nil {
			return err
		}
		res.completed = true
		buf := make([]byte, 1024)
		_, res.readErr = u.Read(buf)
		return nil
	})
	if !out.Returned {
		res.hung = &out
	} else {
		res.clientErr, res.panicked = out.Err, out.Panic
	}
	c.Close()
	s.Close()
	<-sdone
	res.recvBytes = len(stream)
	return res
}

// recordRewriter wraps the server's transport and rewrites what it sends at the record
// level.
type recordRewriter struct {
	net.Conn
	mode    string
	rg      *rand.Rand
	sawCCS  bool
	records int
}

func (w *recordRewriter) Write(p []byte) (int, error) {
	recs, rest, _ := wire.SplitRecords(p)
	if len(rest) != 0 {
		return w.Conn.Write(p)
	}
	var out []byte
	hdr := func(t byte, n int) []byte { return []byte{t, 3, 3, byte(n >> 8), byte(n)} }
	for _, r := range recs {
		w.records++
		plain := r.Type == 22 && !w.sawCCS
		if r.Type == 20 {
			w.sawCCS = true
		}
		full := append(hdr(r.Type, len(r.Body)), r.Body...)
		switch {
		case w.mode == "fragment1" && plain:
			for _, b := range r.Body {
				out = append(out, append(hdr(22, 1), b)...)
			}
		case w.mode == "fragment-random" && plain:
			b := r.Body
			for len(b) > 0 {
				n := 1 + w.rg.Intn(7)
				if n > len(b) {
					n = len(b)
				}
				out = append(out, append(hdr(22, n), b[:n]...)...)
				b = b[n:]
			}
		case w.mode == "empty-interleave" && plain:
			for i := 0; i < w.rg.Intn(40); i++ {
				out = append(out, hdr(22, 0)...)
			}
			out = append(out, full...)
		case w.mode == "garbage-after-first" && w.records > 1:
			b := randBytes(w.rg, len(r.Body))
			out = append(out, append(hdr(r.Type, len(b)), b...)...)
		case w.mode == "appdata-early" && w.records == 2:
			b := randBytes(w.rg, 50)
			out = append(out, append(hdr(23, len(b)), b...)...)
			out = append(out, full...)
		case w.mode == "ccs-flood" && w.records == 2:
			for i := 0; i < 100; i++ {
				out = append(out, append(hdr(20, 1), 1)...)
			}
			out = append(out, full...)
		case w.mode == "oversize-record" && w.records == 2:
			b := make([]byte, 16384+2048+1)
			out = append(out, append(hdr(r.Type, len(b)), b...)...)
		default:
			out = append(out, full...)
		}
	}
	if _, err := w.Conn.Write(out); err != nil {
		return 0, err
	}
	return len(p), nil
}

var recordModes = []string{"fragment1", "fragment-random", "empty-interleave", "garbage-after-first", "appdata-early", "ccs-flood", "oversize-record"}

func c33RunRecordLevel(tg Target, max uint16, mode string, seed int) c33Result {
	var res c33Result
	scfg := peer.ServerConfig()
	scfg.MaxVersion = max
	c, s, _ := peer.Pipe()
	defer c.Close()
	defer s.Close()
	c.SetDeadline(time.Now().Add(c33ClientDeadline))
	s.SetDeadline(time.Now().Add(c33ClientDeadline))
	rw := &recordRewriter{Conn: s, mode: mode, rg: Sub("C33rec", seed)}
	server := tls.Server(rw, scfg)
	sdone := make(chan struct{})
	stop := make(chan struct{})
	go func() {
		defer close(sdone)
		defer func() { recover() }()
		if err := server.Handshake(); err != nil {
			s.Close()
			return
		}
		server.Write([]byte("pong"))
		server.Close()
		s.Close()
	}()
	go func() {
		tk := time.NewTicker(2 * time.Millisecond)
		defer tk.Stop()
		n := 0
		for {
			select {
			case <-stop:
				return
			case <-tk.C:
				if peer.Quiescent(c, s) {
					if n++; n >= 3 {
						s.Close()
						return
					}
				} else {
					n = 0
				}
			}
		}
	}()
	ccfg := peer.ClientConfig("example.test")
	ccfg.OmitEmptyPsk = true
	out := runBounded(c33Limit, func() error {
		u := tls.UClient(c, ccfg, tg.ClientID())
		if prep := tg.Prepare(); prep != nil {
			if err := prep(u); err != nil {
				return err
			}
		}
		if err := u.Handshake(); err != nil {
			return err
		}
		res.completed = true
		buf := make([]byte, 1024)
		for {
			if _, err := u.Read(buf); err != nil {
				res.readErr = err
				break
			}
		}
		return nil
	})
	close(stop)
	if !out.Returned {
		res.hung = &out
	} else {
		res.clientErr, res.panicked = out.Err, out.Panic
	}
	c.Close()
	s.Close()
	<-sdone
	return res
}

func TestC33(t *testing.T) {
	r := mon.New("C33", "clients (every parrot, Golang, seeded randomized, generated custom specs incl. ones advertising zlib/zstd/brotli certificate compression and ALPS) x server scenarios (TLS 1.3 plain / HelloRetryRequest / client auth / compressed certificate / ALPS / PSK resumption; TLS 1.2 with OCSP+ticket / client auth / ticket resumption / RSA key exchange; TLS 1.0) x every handshake message the real hooked server sends (incl. post-handshake NewSessionTicket) x {17 format-agnostic mutations, format-aware mutations per message type} applied before the message enters the server transcript (hook H1); plus raw hostile record streams from a scripted peer and record-level rewriting of real flights (1-byte fragments, empty-record interleaving, garbage after the ServerHello, CCS floods, oversize records); some servers stay silent so that only the client's deadline ends the call. Oracle: no panic / process death (case journaled first), Handshake and the following Reads return within 3x the connection deadline (a goroutine still parked after that = hang; running/runnable = inconclusive), and in the sequential allocation pass TotalAlloc per case <= 8*bytes received + 2*2^24 + 4 MiB. distinct = (client family, scenario, message type, mutation, outcome class)")
	defer r.Finish(t)

	var targets []Target
	targets = append(targets, ParrotTargets(true)...)
	for i := 0; i < mon.Pick(8, 60); i++ {
		targets = append(targets, RandomizedTarget(i))
	}
	for i := 0; i < mon.Pick(8, 60); i++ {
		targets = append(targets, CustomTarget(i))
	}
	targets = append(targets, NoShareTargets()...) // specs without a usable key share in the first hello
	// a FAKE pre_shared_key extension handed over through the documented setter, by a client
	// whose session cache holds a (real) session of the server
	for _, pn := range []string{"Chrome_100_PSK", "Chrome_112_PSK_Shuf"} {
		p := ParrotByName(pn)
		targets = append(targets, Target{Name: p.Name + "+fake-psk-setter", ID: p.ID, Pre: func(u *tls.UConn) error {
			err := u.SetPskExtension(&tls.FakePreSharedKeyExtension{
				Identities: []tls.PskIdentity{{Label: bytes.Repeat([]byte{0x43}, 130), ObfuscatedTicketAge: 0x55667788}},
				Binders:    [][]byte{bytes.Repeat([]byte{0x34}, 32)},
			})
			if err != nil && strings.Contains(err.Error(), "session is disabled") {
				return nil // (probing the hello without a session cache: the setter refuses, nothing is injected)
			}
			return err
		}})
	}
	// specs that carry a FAKE pre_shared_key extension (identities and binders that belong to
	// no session), as a caller mimicking a resuming client does
	for _, pn := range []string{"Chrome_100_PSK", "Chrome_112_PSK_Shuf", "Chrome_115_PQ_PSK"} {
		p := ParrotByName(pn)
		targets = append(targets, Target{Name: p.Name + "+fake-psk", Spec: func() (*tls.ClientHelloSpec, error) {
			sp, err := tls.UTLSIdToSpec(p.ID)
			if err != nil {
				return nil, err
			}
			for i, e := range sp.Extensions {
				if _, ok := e.(tls.PreSharedKeyExtension); ok {
					sp.Extensions[i] = &tls.FakePreSharedKeyExtension{
						Identities: []tls.PskIdentity{{Label: bytes.Repeat([]byte{0x42}, 120), ObfuscatedTicketAge: 0x11223344}},
						Binders:    [][]byte{bytes.Repeat([]byte{0x24}, 32)},
					}
				}
			}
			return &sp, nil
		}})
	}
	// custom specs advertising each certificate-compression subset
	for _, algs := range [][]tls.CertCompressionAlgo{{tls.CertCompressionZlib}, {tls.CertCompressionZstd}, {tls.CertCompressionBrotli, tls.CertCompressionZlib, tls.CertCompressionZstd}, {tls.CertCompressionZstd, tls.CertCompressionZlib}} {
		targets = append(targets, Target{Name: fmt.Sprintf("custom-compress-%v", algs), Spec: customCompressSpec(algs)})
	}
	scenarios := c33Scenarios()
	for _, a := range []uint16{0, 1, 2, 3, 4, 0xffff} {
		for _, n := range bombSizes {
			bomb(a, n)
		}
	}

	// ---- discovery: which messages does the server send per (target, scenario)? ----
	type slot struct {
		tg    Target
		ch    *wire.ClientHello
		o     Offer
		sc    c33Scenario
		types []byte
		cache tls.ClientSessionCache
	}
	var slots []*slot
	var smu sync.Mutex
	type ts struct {
		tg Target
		sc c33Scenario
	}
	var pairs []ts
	for _, tg := range targets {
		for _, sc := range scenarios {
			pairs = append(pairs, ts{tg, sc})
		}
	}
	parallel(len(pairs), func(i int) {
		tg, sc := pairs[i].tg, pairs[i].sc
		ch, err := tg.Probe("example.test")
		if err != nil {
			return
		}
		o := OfferOf(ch, targetMinVersion(tg))
		if _, _, _, ok := sc.setup(ch, o); !ok {
			return
		}
		if sc.ech != "" && !echCapable(ch, tg) {
			return
		}
		if sc.resume && strings.Contains(tg.Name, "+fake-psk") {
			return // a fake pre_shared_key next to a session cache that holds a real session is contradictory use (uTLS says so with an explanatory assertion)
		}
		if sc.needPSKExt && tg.ID.Client != tls.HelloGolang.Client && !specHas(tg, func(e tls.TLSExtension) bool { _, ok := e.(tls.PreSharedKeyExtension); return ok }) {
			return
		}
		var cache tls.ClientSessionCache
		if sc.resume {
			cache = tls.NewLRUClientSessionCache(4)
			res := c33Run(c33Case{id: "warmup", tg: tg, sc: sc, msgIndex: -1}, ch, o, cache)
			if !res.completed {
				r.Count("discovery_warmup_failed", 1)
				return
			}
		}
		res := c33Run(c33Case{id: "discover", tg: tg, sc: sc, msgIndex: -1}, ch, o, cloneCache(cache, tg, sc))
		if res.panicked != "" || res.hung != nil {
			r.Violation(map[string]string{"kind": "clean_run_failed", "target": family(tg.Name), "scenario": sc.name}, fmt.Sprintf("%s/%s: clean discovery run panicked or hung: %s", tg.Name, sc.name, firstLine(res.panicked)), nil)
			return
		}
		if !res.completed && !(sc.ech == "reject" && len(res.serverTypes) >= 5) {
			// (a clean ECH rejection ends in ECHRejectionError after the whole server flight)
			r.Count("discovery_not_completed", 1)
			return
		}
		smu.Lock()
		slots = append(slots, &slot{tg: tg, ch: ch, o: o, sc: sc, types: res.serverTypes, cache: cache})
		smu.Unlock()
		r.Count("scenario_"+sc.name, 1)
	})
	// deterministic order
	sortSlots := func() {
		for i := 1; i < len(slots); i++ {
			for j := i; j > 0 && (slots[j].tg.Name+slots[j].sc.name) < (slots[j-1].tg.Name+slots[j-1].sc.name); j-- {
				slots[j], slots[j-1] = slots[j-1], slots[j]
			}
		}
	}
	sortSlots()
	r.Count("target_scenario_pairs", int64(len(slots)))

	// ---- build the structured case list ----
	type planned struct {
		sl *slot
		cs c33Case
		mt byte
	}
	var all []planned
	msgTypesSeen := map[string]bool{}
	for _, sl := range slots {
		for i, mt := range sl.types {
			msgTypesSeen[fmt.Sprintf("%v/%d", sl.sc.tls13, mt)] = true
			for _, gm := range genericMutations {
				gm := gm
				all = append(all, planned{sl, c33Case{tg: sl.tg, sc: sl.sc, msgIndex: i, mutName: gm.name, mutate: gm.f}, mt})
			}
			for _, fm := range fieldMutsFor(sl.sc.tls13, mt) {
				fm := fm
				ch := sl.ch
				reps := 2
				for k := 0; k < reps; k++ {
					all = append(all, planned{sl, c33Case{tg: sl.tg, sc: sl.sc, msgIndex: i, mutName: fm.name, seed: k,
						mutate: func(rg *rand.Rand, m []byte) []byte { return fm.f(rg, m, ch) }}, mt})
				}
			}
		}
	}
	r.Count("structured_cases_available", int64(len(all)))
	skeCutSlots := 0
	rgSel := Sub("C33select", 0)
	nStruct := mon.Pick(40000, 600000)
	var sel []planned
	if len(all) <= nStruct {
		sel = all
		// thorough: further sub-seeds until the budget is used
		for k := 1; len(sel) < nStruct && len(all) > 0; k++ {
			for _, p := range all {
				p.cs.seed += 100 * k
				sel = append(sel, p)
				if len(sel) >= nStruct {
					break
				}
			}
		}
	} else {
		perm := rgSel.Perm(len(all))
		for _, i := range perm[:nStruct] {
			sel = append(sel, all[i])
		}
	}
	// always included: the ServerKeyExchange cut at EVERY offset of its first 170 bytes (curve
	// parameters, public point, signature algorithm, signature length - each boundary once),
	// with the handshake header corrected, for a handful of (target, scenario) slots
	{
		done := 0
		for _, sl := range slots {
			if done >= mon.Pick(8, 80) {
				break
			}
			for i, mt := range sl.types {
				if mt != 12 {
					continue
				}
				done++
				for k := 0; k <= 170; k++ {
					k := k
					sel = append(sel, planned{sl, c33Case{tg: sl.tg, sc: sl.sc, msgIndex: i, mutName: fmt.Sprintf("ske_cut_at_%03d", k), seed: k,
						mutate: func(rg *rand.Rand, m []byte) []byte {
							if 4+k >= len(m) {
								return m
							}
							return hsMsg(m[0], m[4:4+k])
						}}, mt})
				}
				skeCutSlots++
			}
		}
	}
	// always included: a TLS <= 1.2 ServerHello that "selects" each of the 16 GREASE values as
	// its version, in the legacy field and in a supported_versions extension.  The client's own
	// GREASE version is drawn per connection, so each case has a 1-in-16 chance of naming the
	// very value this hello carries (a value that is on the wire but is no offer); over the
	// 8 x 32 cases of the quick tier practically every run contains such a case.
	{
		done := 0
		for _, sl := range slots {
			if done >= mon.Pick(8, 60) {
				break
			}
			if sl.sc.tls13 || len(sl.types) == 0 || sl.types[0] != 2 {
				continue
			}
			hasGrease := false
			for _, v := range sl.ch.Versions {
				hasGrease = hasGrease || wire.IsGREASE(v)
			}
			if !hasGrease {
				continue
			}
			done++
			for k := 0; k < 32; k++ {
				g := uint16(0x0a0a + 0x1010*(k%16))
				viaExt := k >= 16
				sel = append(sel, planned{sl, c33Case{tg: sl.tg, sc: sl.sc, msgIndex: 0, mutName: fmt.Sprintf("sh_selects_grease_version_%04x(ext=%v)", g, viaExt), seed: k,
					mutate: func(rg *rand.Rand, m []byte) []byte {
						h, err := wire.ParseServerHello(m)
						if err != nil {
							return m
						}
						if h.Exts == nil {
							h.Exts = []wire.Ext{}
						}
						if viaExt {
							h.SetExt(wire.ExtSupportedVersions, be16(g))
						} else {
							h.Version = g
						}
						return h.Marshal()
					}}, 2})
			}
		}
		r.Count("server_hellos_selecting_grease_versions", int64(done*32))
	}
	for i := range sel {
		sel[i].cs.id = fmt.Sprintf("%s|%s|msg%d(type %d)|%s|%d", sel[i].sl.tg.Name, sel[i].sl.sc.name, sel[i].cs.msgIndex, sel[i].mt, sel[i].cs.mutName, sel[i].cs.seed)
	}
	r.Count("server_key_exchange_messages_cut_at_every_offset", int64(skeCutSlots))
	r.Floor("server_key_exchange_messages_cut_at_every_offset", 4)

	evaluate := func(slotName string, id string, res c33Result, sig map[string]string, bytesIn int) (class string) {
		rep := map[string]any{"case": id, "client_err": fmt.Sprint(res.clientErr), "read_err": fmt.Sprint(res.readErr), "phase": res.phase}
		switch {
		case res.panicked != "":
			sig["kind"] = "panic"
			sig["where"] = panicSite(res.panicked)
			rep["panic"] = res.panicked
			r.Violation(sig, fmt.Sprintf("%s: client panicked: %s", id, firstLine(res.panicked)), rep)
			return "panic"
		case res.hung != nil:
			rep["stack"] = res.hung.Stack
			if parkedState(res.hung.State) {
				sig["kind"] = "hang"
				hangsSeen.Add(1)
				r.Violation(sig, fmt.Sprintf("%s: client call still parked (%s) %.1fs after start, connection deadline %s", id, res.hung.State, res.hung.Took.Seconds(), c33ClientDeadline), rep)
				return "hang"
			}
			r.Inconclusive(fmt.Sprintf("%s: call did not return within %s but its goroutine is %q (machine load)", id, c33Limit, res.hung.State))
			return "slow"
		case res.completed:
			r.Count("client_completed_handshake", 1)
			return "completed"
		default:
			r.Count("client_returned_error", 1)
			return "error"
		}
	}

	// ---- allocation pass (sequential, before any parallel work) ----
	{
		var allocCases []planned
		for _, p := range all {
			switch p.cs.mutName {
			case "cc_declared_length", "cc_bomb", "cc_zstd_hostile_frame", "cc_stream_corrupt", "hdrlen", "huge_body", "sh_cookie_sizes", "nst_storm", "nst_fields", "ee_many_extensions", "cert_many_entries", "cert_list_length_lies", "cc_inner_length_lies":
				allocCases = append(allocCases, p)
			}
		}
		perm := Sub("C33alloc", 0).Perm(len(allocCases))
		n := mon.Pick(700, 12000)
		if n > len(allocCases) {
			n = len(allocCases)
		}
		var ms runtime.MemStats
		var worst int64
		for k := 0; k < n; k++ {
			p := allocCases[perm[k]]
			p.cs.seed += 7000 + k
			p.cs.id = fmt.Sprintf("alloc|%s|%s|msg%d(type %d)|%s|%d", p.sl.tg.Name, p.sl.sc.name, p.cs.msgIndex, p.mt, p.cs.mutName, p.cs.seed)
			mon.JournalSlot("alloc", p.cs.id)
			runtime.ReadMemStats(&ms)
			before := ms.TotalAlloc
			res := c33Run(p.cs, p.sl.ch, p.sl.o, cloneCache(p.sl.cache, p.sl.tg, p.sl.sc))
			runtime.ReadMemStats(&ms)
			delta := int64(ms.TotalAlloc - before)
			sig := map[string]string{"target": family(p.sl.tg.Name), "scenario": p.sl.sc.name, "msg": fmt.Sprint(p.mt), "mutation": p.cs.mutName}
			class := evaluate("alloc", p.cs.id, res, sig, res.recvBytes)
			bound := int64(8*res.recvBytes) + 2<<24 + 4<<20
			if delta > worst {
				worst = delta
			}
			r.Count("alloc_cases", 1)
			if delta > bound {
				sig["kind"] = "allocation"
				r.Violation(sig, fmt.Sprintf("%s: %d bytes allocated while handling %d received bytes (bound %d)", p.cs.id, delta, res.recvBytes, bound),
					map[string]any{"case": p.cs.id, "allocated": delta, "received": res.recvBytes})
			}
			r.Case(fmt.Sprintf("alloc|%s|%s|%d|%s|%s", family(p.sl.tg.Name), p.sl.sc.name, p.mt, p.cs.mutName, class), res.mutated)
		}
		r.Max("alloc_worst_case_bytes", worst)
	}

	// ---- structured pass (parallel) ----
	var sampleN int64
	parallelW(len(sel), func(w, i int) {
		if hangsSeen.Load() >= 5 {
			return // every hang costs the full bound: a handful of witnesses is enough
		}
		p := sel[i]
		mon.JournalSlot(fmt.Sprintf("w%02d", w), p.cs.id)
		res := c33Run(p.cs, p.sl.ch, p.sl.o, cloneCache(p.sl.cache, p.sl.tg, p.sl.sc))
		sig := map[string]string{"target": family(p.sl.tg.Name), "scenario": p.sl.sc.name, "msg": fmt.Sprint(p.mt), "mutation": p.cs.mutName}
		class := evaluate("", p.cs.id, res, sig, res.recvBytes)
		if res.mutated {
			r.Count("mutations_applied", 1)
			r.Count(fmt.Sprintf("mutated_msgtype_%d", p.mt), 1)
		} else {
			r.Count("mutation_not_applicable", 1)
		}
		r.Case(fmt.Sprintf("%s|%s|%d|%s|%s", family(p.sl.tg.Name), p.sl.sc.name, p.mt, p.cs.mutName, class), res.mutated)
		if i%1499 == 0 {
			smu.Lock()
			sampleN++
			smu.Unlock()
			r.Sample(map[string]any{"case": p.cs.id, "outcome": class, "client_err": fmt.Sprint(res.clientErr), "read_err": fmt.Sprint(res.readErr)})
		}
	})

	// ---- silent servers: only the client's deadline ends the call ----
	{
		n := mon.Pick(96, 1500)
		perm := Sub("C33silent", 0).Perm(len(all))
		if n > len(all) {
			n = len(all)
		}
		parallelW(n, func(w, k int) {
			if hangsSeen.Load() >= 5 {
				return // every hang costs the full bound: a handful of witnesses is enough
			}
			p := all[perm[k]]
			p.cs.silent = true
			p.cs.seed += 9000
			p.cs.id = fmt.Sprintf("silent|%s|%s|msg%d(type %d)|%s", p.sl.tg.Name, p.sl.sc.name, p.cs.msgIndex, p.mt, p.cs.mutName)
			mon.JournalSlot(fmt.Sprintf("w%02d", w), p.cs.id)
			res := c33Run(p.cs, p.sl.ch, p.sl.o, cloneCache(p.sl.cache, p.sl.tg, p.sl.sc))
			sig := map[string]string{"target": family(p.sl.tg.Name), "scenario": p.sl.sc.name, "msg": fmt.Sprint(p.mt), "mutation": p.cs.mutName, "server": "silent"}
			class := evaluate("", p.cs.id, res, sig, res.recvBytes)
			r.Count("silent_server_cases", 1)
			r.Case(fmt.Sprintf("silent|%s|%s|%d|%s|%s", family(p.sl.tg.Name), p.sl.sc.name, p.mt, p.cs.mutName, class), true)
		})
	}

	// ---- raw streams ----
	{
		n := mon.Pick(10000, 200000)
		parallelW(n, func(w, k int) {
			if hangsSeen.Load() >= 5 {
				return // every hang costs the full bound: a handful of witnesses is enough
			}
			rg := Sub("C33raw", k)
			tg := targets[rg.Intn(len(targets))]
			name, stream := rawStream(rg)
			silent := rg.Intn(40) == 0
			id := fmt.Sprintf("raw|%s|%s|%d|silent=%v", tg.Name, name, k, silent)
			mon.JournalSlot(fmt.Sprintf("w%02d", w), id)
			res := c33RunRaw(tg, stream, silent)
			sig := map[string]string{"target": family(tg.Name), "scenario": "raw", "mutation": name}
			class := evaluate("", id, res, sig, len(stream))
			r.Count("raw_stream_cases", 1)
			r.Case(fmt.Sprintf("raw|%s|%s|%s", family(tg.Name), name, class), true)
			if k%997 == 0 {
				r.Sample(map[string]any{"case": id, "stream_prefix": mon.Hex(stream[:min(len(stream), 48)]), "outcome": class, "client_err": fmt.Sprint(res.clientErr)})
			}
		})
	}

	// ---- record-level rewriting of real flights ----
	{
		type rc struct {
			tg   Target
			max  uint16
			mode string
		}
		var cases []rc
		for _, tg := range targets {
			for _, max := range []uint16{tls.VersionTLS13, tls.VersionTLS12} {
				for _, m := range recordModes {
					cases = append(cases, rc{tg, max, m})
				}
			}
		}
		n := mon.Pick(400, len(cases))
		if n > len(cases) {
			n = len(cases)
		}
		perm := Sub("C33rec-sel", 0).Perm(len(cases))
		parallelW(n, func(w, k int) {
			if hangsSeen.Load() >= 5 {
				return // every hang costs the full bound: a handful of witnesses is enough
			}
			cse := cases[perm[k]]
			id := fmt.Sprintf("record|%s|%04x|%s", cse.tg.Name, cse.max, cse.mode)
			mon.JournalSlot(fmt.Sprintf("w%02d", w), id)
			res := c33RunRecordLevel(cse.tg, cse.max, cse.mode, k)
			sig := map[string]string{"target": family(cse.tg.Name), "scenario": fmt.Sprintf("record-%04x", cse.max), "mutation": cse.mode}
			class := evaluate("", id, res, sig, 0)
			r.Count("record_level_cases", 1)
			if res.completed {
				r.Count("record_level_completed_"+cse.mode, 1)
			}
			r.Case(fmt.Sprintf("record|%s|%04x|%s|%s", family(cse.tg.Name), cse.max, cse.mode, class), true)
		})
	}

	// ---- E: hostile post-handshake input, renegotiation above all ----
	{
		kinds := renegKinds()
		scripts := renegScripts()
		var cases []renegCase
		for _, tg := range targets {
			ch, err := tg.Probe("example.test")
			if err != nil {
				continue
			}
			o := OfferOf(ch, targetMinVersion(tg))
			for _, k := range kinds {
				if !k.ok(o) {
					continue
				}
				for _, sc := range scripts {
					cases = append(cases, renegCase{tg: tg, kind: k, script: sc, can13: has13x(o)})
				}
			}
		}
		n := mon.Pick(6000, 120000)
		perm := Sub("C33reneg-sel", 0).Perm(len(cases))
		parallelW(n, func(w, k int) {
			if hangsSeen.Load() >= 5 || len(cases) == 0 {
				return
			}
			cs := cases[perm[k%len(cases)]]
			rg := Sub("C33reneg-flavour", k)
			cs.seed = k
			cs.warm13 = cs.can13 && rg.Intn(3) == 0 && !strings.Contains(cs.tg.Name, "+fake-psk") // (a fake PSK next to a cached real session: contradictory use)
			cs.certless = !cs.warm13 && (cs.kind.name == "tls12" || cs.kind.name == "tls12-rsa-leaf" || cs.kind.name == "tls11") && rg.Intn(4) == 0 && cs.tg.ID.Client != tls.HelloGolang.Client && !strings.Contains(cs.tg.Name, "+fake-psk")
			cs.reneg = []int{-1, -1, -1, int(tls.RenegotiateNever), int(tls.RenegotiateOnceAsClient), int(tls.RenegotiateFreelyAsClient)}[rg.Intn(6)]
			cs.preRequest = rg.Intn(3) == 0
			cs.requests = []int{1, 1, 1, 2, 3}[rg.Intn(5)]
			cs.id = renegCaseID(cs)
			mon.JournalSlot(fmt.Sprintf("w%02d", w), cs.id)
			res := c33RunReneg(cs)
			sig := map[string]string{"target": family(cs.tg.Name), "scenario": "post-handshake-" + cs.kind.name, "mutation": cs.script.name}
			class := evaluate("", cs.id, res.c33Result, sig, res.recvBytes)
			r.Count("post_handshake_cases", 1)
			if res.phase == "warmup-failed" {
				r.Count("post_handshake_warmup_failed", 1)
			}
			if cs.certless && res.resumed {
				r.Count("post_handshake_cases_on_certless_resumed_connections", 1)
				if res.gotHello2 {
					r.Count("renegotiation_hellos_from_certless_resumed_connections", 1)
				}
			}
			if res.gotHello2 {
				r.Count("renegotiation_hellos_received", 1)
				class += "+hello2"
				if cs.warm13 {
					r.Count("renegotiation_hellos_with_cached_tls13_session", 1)
				}
			}
			r.Case(fmt.Sprintf("reneg|%s|%s|%s|warm=%v|%s", family(cs.tg.Name), cs.kind.name, cs.script.name, cs.warm13, class), true)
			if k%499 == 0 {
				r.Sample(map[string]any{"case": cs.id, "outcome": class, "client_err": fmt.Sprint(res.clientErr), "read_err": fmt.Sprint(res.readErr), "second_hello": res.gotHello2})
			}
		})
	}

	r.Count("message_types_mutated", int64(len(msgTypesSeen)))
	r.Floor("mutations_applied", int64(mon.Pick(25000, 300000)))
	r.Floor("client_completed_handshake", 50) // some mutations must be swallowed: deeper states reached
	r.Floor("client_returned_error", 1000)
	r.Floor("message_types_mutated", 14)
	r.Floor("alloc_cases", int64(mon.Pick(300, 5000)))
	r.Floor("raw_stream_cases", int64(mon.Pick(10000, 200000)))
	r.Floor("silent_server_cases", 50)
	r.Floor("post_handshake_cases", int64(mon.Pick(6000, 120000)))
	r.Floor("renegotiation_hellos_received", 1000)
	r.Floor("renegotiation_hellos_with_cached_tls13_session", 100)
	for _, mt := range []int{2, 8, 11, 15, 20, 4, 25, 12, 14} {
		r.Floor(fmt.Sprintf("mutated_msgtype_%d", mt), 50)
	}
	r.Assume("the hooked in-repo server is the source of well-formed flights; its own robustness is C34's subject and its panics are ignored here")
	r.Assume("allocation is measured as the process-wide TotalAlloc delta of a case run alone (sequential pass), so it includes the harness server's own allocations; the bound leaves 4 MiB for them")
}

// cloneCache gives each case its own session cache holding the warm-up session, so that
// cases do not consume or overwrite each other's tickets.
func cloneCache(src tls.ClientSessionCache, tg Target, sc c33Scenario) tls.ClientSessionCache {
	if src == nil {
		return nil
	}
	dst := tls.NewLRUClientSessionCache(4)
	for _, k := range []string{"example.test", "example.test:443"} {
		if s, ok := src.Get(k); ok && s != nil {
			dst.Put(k, s)
		}
	}
	return dst
}

// parallelW is parallel() with the worker index passed to f.
func parallelW(n int, f func(w, i int)) {
	w := runtime.GOMAXPROCS(0)
	if w > n {
		w = n
	}
	if w < 1 {
		w = 1
	}
	var wg sync.WaitGroup
	ch := make(chan int, 64)
	for k := 0; k < w; k++ {
		wg.Add(1)
		go func(k int) {
			defer wg.Done()
			for i := range ch {
				f(k, i)
			}
		}(k)
	}
	for i := 0; i < n; i++ {
		ch <- i
	}
	close(ch)
	wg.Wait()
}

// panicSite extracts the first utls frame of a panic stack (file:line stripped to the
// function), to tell different panics apart in signatures.
func panicSite(p string) string {
	lines := splitLines(p)
	for _, l := range lines {
		if len(l) > 0 && l[0] != '\t' && containsStr(l, "refraction-networking/utls.") && !containsStr(l, "verif") {
			if i := indexStr(l, "utls."); i >= 0 {
				s := l[i+5:]
				if j := indexStr(s, "("); j >= 0 {
					// keep receiver types like (*Conn).foo
					if s[0] == '(' {
						if k := indexStr(s[1:], "("); k > 0 {
							return s[:k+1]
						}
					}
					return s[:j]
				}
				return s
			}
		}
	}
	return firstLine(p)
}

func splitLines(s string) []string {
	var out []string
	cur := ""
	for _, c := range s {
		if c == '\n' {
			out = append(out, cur)
			cur = ""
		} else {
			cur += string(c)
		}
	}
	return append(out, cur)
}

func containsStr(s, sub string) bool { return indexStr(s, sub) >= 0 }

func indexStr(s, sub string) int {
	for i := 0; i+len(sub) <= len(s); i++ {
		if s[i:i+len(sub)] == sub {
			return i
		}
	}
	return -1
}

var _ = io.EOF

// fakePSKWarmCache: a fresh cache holding a real TLS 1.3 session for example.test (obtained
// once by a clean Chrome_100 connection).
var fakePSKWarmEntry = sync.OnceValue(func() *tls.ClientSessionState {
	cache := newMapCache()
	w := peer.ServerConfig()
	w.MinVersion = tls.VersionTLS13
	ccfg := peer.ClientConfig("example.test")
	ccfg.ClientSessionCache = cache
	peer.Run(ccfg, tls.HelloChrome_100, w, peer.Opts{})
	return cache.Any()
})

func fakePSKWarmCache() tls.ClientSessionCache {
	c := tls.NewLRUClientSessionCache(4)
	if e := fakePSKWarmEntry(); e != nil {
		c.Put("example.test", e)
	}
	return c
}
