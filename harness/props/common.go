// Package props holds one TestCxx entry point per property.
package props

import (
	"context"
	"crypto/sha256"
	"encoding/binary"
	"fmt"
	"math/rand"
	"runtime"
	"sync"
	"time"
	"verifharness/peer"

	tls "github.com/refraction-networking/utls"
	"verifharness/mon"
	"verifharness/wire"
)

// Parrot is a predefined ClientHelloID with a few static facts the harness wrote down
// from the documentation of the IDs (not derived from the code under test at run time).
type Parrot struct {
	Name string
	ID   tls.ClientHelloID
}

// AllParrots: every predefined browser ClientHelloID of u_common.go.
var AllParrots = []Parrot{
	{"Firefox_55", tls.HelloFirefox_55}, {"Firefox_56", tls.HelloFirefox_56}, {"Firefox_63", tls.HelloFirefox_63},
	{"Firefox_65", tls.HelloFirefox_65}, {"Firefox_99", tls.HelloFirefox_99}, {"Firefox_102", tls.HelloFirefox_102},
	{"Firefox_105", tls.HelloFirefox_105}, {"Firefox_120", tls.HelloFirefox_120},
	{"Chrome_58", tls.HelloChrome_58}, {"Chrome_62", tls.HelloChrome_62}, {"Chrome_70", tls.HelloChrome_70},
	{"Chrome_72", tls.HelloChrome_72}, {"Chrome_83", tls.HelloChrome_83}, {"Chrome_87", tls.HelloChrome_87},
	{"Chrome_96", tls.HelloChrome_96}, {"Chrome_100", tls.HelloChrome_100}, {"Chrome_102", tls.HelloChrome_102},
	{"Chrome_106_Shuffle", tls.HelloChrome_106_Shuffle},
	{"Chrome_100_PSK", tls.HelloChrome_100_PSK}, {"Chrome_112_PSK_Shuf", tls.HelloChrome_112_PSK_Shuf},
	{"Chrome_114_Padding_PSK_Shuf", tls.HelloChrome_114_Padding_PSK_Shuf},
	{"Chrome_115_PQ", tls.HelloChrome_115_PQ}, {"Chrome_115_PQ_PSK", tls.HelloChrome_115_PQ_PSK},
	{"Chrome_120", tls.HelloChrome_120}, {"Chrome_120_PQ", tls.HelloChrome_120_PQ},
	{"Chrome_131", tls.HelloChrome_131}, {"Chrome_133", tls.HelloChrome_133},
	{"IOS_11_1", tls.HelloIOS_11_1}, {"IOS_12_1", tls.HelloIOS_12_1}, {"IOS_13", tls.HelloIOS_13}, {"IOS_14", tls.HelloIOS_14},
	{"Android_11_OkHttp", tls.HelloAndroid_11_OkHttp},
	{"Edge_85", tls.HelloEdge_85}, {"Edge_106", tls.HelloEdge_106},
	{"Safari_16_0", tls.HelloSafari_16_0},
	{"360_7_5", tls.Hello360_7_5}, {"360_11_0", tls.Hello360_11_0},
	{"QQ_11_1", tls.HelloQQ_11_1},
}

// PSKParrots are the IDs whose spec carries a pre_shared_key extension.
var PSKParrots = map[string]bool{"Chrome_100_PSK": true, "Chrome_112_PSK_Shuf": true, "Chrome_114_Padding_PSK_Shuf": true, "Chrome_115_PQ_PSK": true}

// ShufflingParrots is the hard-coded list of Chrome IDs that shuffle extensions
// (Chrome 106 and later), written down from the ID documentation.
var ShufflingParrots = map[string]bool{"Chrome_106_Shuffle": true, "Chrome_112_PSK_Shuf": true, "Chrome_114_Padding_PSK_Shuf": true,
	"Chrome_115_PQ": true, "Chrome_115_PQ_PSK": true, "Chrome_120": true, "Chrome_120_PQ": true, "Chrome_131": true, "Chrome_133": true}

func ParrotByName(n string) Parrot {
	for _, p := range AllParrots {
		if p.Name == n {
			return p
		}
	}
	panic("no parrot " + n)
}

// Sub derives an independent deterministic PRNG for (seed, property, case index).
func Sub(prop string, idx int) *rand.Rand {
	h := sha256.New()
	var b [16]byte
	binary.BigEndian.PutUint64(b[:8], uint64(mon.Seed()))
	binary.BigEndian.PutUint64(b[8:], uint64(idx))
	h.Write(b[:])
	h.Write([]byte(prop))
	s := h.Sum(nil)
	return rand.New(rand.NewSource(int64(binary.BigEndian.Uint64(s[:8]))))
}

func randBytes(r *rand.Rand, n int) []byte {
	b := make([]byte, n)
	r.Read(b)
	return b
}

// parallel runs f(i) for i in [0,n) on up to GOMAXPROCS workers.
func parallel(n int, f func(i int)) {
	w := runtime.GOMAXPROCS(0)
	if w > n {
		w = n
	}
	if w < 1 {
		w = 1
	}
	var wg sync.WaitGroup
	ch := make(chan int, 64)
	for k := 0; k < w; k++ {
		wg.Add(1)
		go func() {
			defer wg.Done()
			for i := range ch {
				f(i)
			}
		}()
	}
	for i := 0; i < n; i++ {
		ch <- i
	}
	close(ch)
	wg.Wait()
}

// buildHello builds (without handshaking) the ClientHello a UConn would send.
// It returns the raw handshake message (with 4-byte header).
func buildHello(cfg *tls.Config, id tls.ClientHelloID, prep func(u *tls.UConn) error) (raw []byte, u *tls.UConn, err error, panicked string) {
	defer func() {
		if r := recover(); r != nil {
			panicked = fmt.Sprintf("%v", r)
			err = fmt.Errorf("panic: %v", r)
		}
	}()
	u = tls.UClient(nil, cfg, id)
	if prep != nil {
		if err = prep(u); err != nil {
			return nil, u, err, ""
		}
	}
	if err = u.BuildHandshakeState(); err != nil {
		return nil, u, err, ""
	}
	return u.HandshakeState.Hello.Raw, u, nil, ""
}

func u16s(v []uint16) string { return fmt.Sprintf("%04x", v) }

var _ = wire.IsGREASE

// sendHello runs a real Handshake against a peer that only reads the client's first
// flight and then closes; it returns the ClientHello handshake messages actually
// written to the wire (reassembled from the tapped records).
func sendHello(cfg *tls.Config, id tls.ClientHelloID, prep func(u *tls.UConn) error) (hellos [][]byte, c2s []byte, herr error, panicked string) {
	c, s, tap := peer.Pipe()
	dl := time.Now().Add(peer.IODeadline)
	c.SetDeadline(dl)
	s.SetDeadline(dl)
	done := make(chan struct{})
	go func() {
		defer close(done)
		buf := make([]byte, 70000)
		var got []byte
		for {
			n, err := s.Read(buf)
			got = append(got, buf[:n]...)
			if hs := wire.ClientHellos(got); len(hs) > 0 {
				break
			}
			if err != nil {
				break
			}
		}
		s.Close()
	}()
	func() {
		defer func() {
			if r := recover(); r != nil {
				panicked = fmt.Sprintf("%v", r)
				herr = fmt.Errorf("panic: %v", r)
			}
		}()
		u := tls.UClient(c, cfg, id)
		if prep != nil {
			if err := prep(u); err != nil {
				herr = err
				return
			}
		}
		herr = u.Handshake()
	}()
	c.Close()
	<-done
	c2s, _ = tap.Snapshot()
	return wire.ClientHellos(c2s), c2s, herr, panicked
}

// quicFirstHello starts a UQUICConn with the given spec and returns the first CRYPTO
// data it emits (the ClientHello handshake message).  hung=true if Start did not return
// within 3 s (that is C23's subject, not C02's).
func quicFirstHello(cfg *tls.Config, spec *tls.ClientHelloSpec) (raw []byte, err error, panicked string, hung bool) {
	type res struct {
		raw []byte
		err error
		p   string
	}
	ch := make(chan res, 1)
	ctx, cancel := context.WithCancel(context.Background())
	defer cancel()
	go func() {
		var out res
		defer func() {
			if r := recover(); r != nil {
				out.p = fmt.Sprint(r)
			}
			ch <- out
		}()
		q := tls.UQUICClient(&tls.QUICConfig{TLSConfig: cfg}, tls.HelloCustom)
		if out.err = q.ApplyPreset(spec); out.err != nil {
			return
		}
		q.SetTransportParameters([]byte{})
		if out.err = q.Start(ctx); out.err != nil {
			return
		}
		for {
			e := q.NextEvent()
			if e.Kind == tls.QUICNoEvent {
				break
			}
			if e.Kind == tls.QUICWriteData && out.raw == nil {
				out.raw = append([]byte(nil), e.Data...)
			}
		}
		q.Close()
		if out.raw == nil {
			out.err = fmt.Errorf("no CRYPTO data emitted")
		}
	}()
	select {
	case o := <-ch:
		return o.raw, o.err, o.p, false
	case <-time.After(3 * time.Second):
		return nil, nil, "", true
	}
}
