package props

import (
	"bytes"
	"context"
	"errors"
	"fmt"
	"io"
	"sort"
	"strings"
	"sync"
	"sync/atomic"
	"testing"
	"time"
	"verifharness/wire"

	tls "github.com/refraction-networking/utls"
	"verifharness/mon"
	"verifharness/peer"
)

const c26Bound = 20 * time.Second

type callRes struct {
	name    string
	err     error
	ctxErr  error // the caller's own context error at return time (nil if not cancelled)
	retAt   int64
	started int64
}

//go:noinline
func c26Call(id int64, f func()) { f() }

// C26 — Concurrent use of a UConn is race-free, deadlock-free and consistent.
func TestC26(t *testing.T) {
	r := mon.New("C26", "per run one reader, one writer, 2-6 concurrent Handshake/HandshakeContext callers with their own contexts, Close/CloseWrite and cancellations at PRNG-chosen moments, random delays at every Read/Write of the transport (real suspension points) and at the uTLS handshake yield points (hook H10); scenarios: normal server, server that stalls (no I/O deadline: cancellation is the only way out), cancellation after return, benign runs without any I/O deadline (explicit handshake callers, or only Read and Write starting the handshake implicitly) in which every call must return successfully and the echo must complete, a CloseWrite next to a stream of Writes with the close_notify record held back on the transport (nothing may follow it on the wire, later Writes fail), and a TLS 1.2 server that sends a HelloRequest in the middle of the echo (the reader rebuilds the ClientHello and starts a renegotiation handshake while writer and callers are active). Oracle: zero race-detector reports; every call returns; each handshake caller returns nil only if the connection reports HandshakeComplete, or the shared handshake error, or its own context's error (then the connection is closed); cancelling a context after its call returned leaves the connection usable. distinct = interleaving signatures (order of call returns and tap events)")
	defer r.Finish(t)
	n := mon.Pick(500, 60000)
	ids := []tls.ClientHelloID{tls.HelloChrome_133, tls.HelloFirefox_120, tls.HelloGolang, tls.HelloChrome_102, tls.HelloIOS_14, tls.HelloRandomizedALPN}
	var sigMu sync.Mutex
	sigs := map[string]bool{}
	workers := 8
	sem := make(chan struct{}, workers)
	var wgAll sync.WaitGroup
	for i := 0; i < n; i++ {
		wgAll.Add(1)
		sem <- struct{}{}
		go func(i int) {
			defer wgAll.Done()
			defer func() { <-sem }()
			rg := Sub("C26", i)
			// nodeadline / implicit: benign server, no cancellation, no Close and NO I/O deadline, so
			// nothing but the code's own progress can make the calls return; in "implicit" nobody
			// calls Handshake explicitly (Read and Write start it)
			// hellorequest: a TLS 1.2 server sends a HelloRequest in the middle of the echo, so the
			// reader starts a renegotiation handshake (rebuilding the ClientHello) while the writer
			// and the handshake callers are active; the in-repo server then refuses the
			// renegotiation ClientHello and hangs up
			scenario := []string{"normal", "normal", "nodeadline", "stalled", "cancel-after", "close-race", "normal", "implicit", "hellorequest"}[i%9]
			id := ids[rg.Intn(len(ids))]
			c, s, tap := peer.Pipe()
			var seq int64
			var seqMu sync.Mutex
			var trace []string
			tick := func(ev string) int64 {
				seqMu.Lock()
				defer seqMu.Unlock()
				seq++
				if len(trace) < 200 {
					trace = append(trace, ev)
				}
				return seq
			}
			delays := make([]time.Duration, 64)
			for k := range delays {
				if rg.Intn(3) == 0 {
					delays[k] = time.Duration(rg.Intn(1500)) * time.Microsecond
				}
			}
			var dk int64
			tap.Before = func(dir, op string) {
				seqMu.Lock()
				dk++
				d := delays[dk%int64(len(delays))]
				seqMu.Unlock()
				if d > 0 {
					time.Sleep(d)
				}
			}
			if scenario != "stalled" && scenario != "nodeadline" && scenario != "implicit" {
				dl := time.Now().Add(6 * time.Second)
				c.SetDeadline(dl)
				s.SetDeadline(dl)
			}
			ccfg := peer.ClientConfig("example.test")
			ccfg.OmitEmptyPsk = true
			u := tls.UClient(c, ccfg, id)
			ydelays := []time.Duration{0, 0, time.Duration(rg.Intn(2000)) * time.Microsecond, time.Duration(rg.Intn(500)) * time.Microsecond}
			tls.VerifAttach(u.Conn, &tls.VerifPlan{Yield: func(point string) {
				seqMu.Lock()
				dk++
				d := ydelays[dk%int64(len(ydelays))]
				seqMu.Unlock()
				if d > 0 {
					time.Sleep(d)
				}
			}})
			scfg := peer.ServerConfig()
			if scenario == "hellorequest" {
				scfg.MaxVersion = tls.VersionTLS12
			}
			srv := tls.Server(s, scfg)
			srvDone := make(chan struct{})
			var srvGot bytes.Buffer
			if scenario == "hellorequest" {
				after := rg.Intn(2)
				go func() {
					defer close(srvDone)
					defer s.Close()
					if err := srv.Handshake(); err != nil {
						return
					}
					buf := make([]byte, 4096)
					for k := 0; ; k++ {
						if k == after {
							if tls.VerifWriteRecord(srv, 22, []byte{0, 0, 0, 0}) != nil {
								return
							}
							r.Count("hello_requests_sent", 1)
						}
						n, err := srv.Read(buf)
						if n > 0 {
							srvGot.Write(buf[:n])
							if _, werr := srv.Write(buf[:n]); werr != nil {
								return
							}
						}
						if err != nil {
							return
						}
					}
				}()
			} else if scenario != "stalled" {
				go func() {
					defer close(srvDone)
					if err := srv.Handshake(); err != nil {
						s.Close()
						return
					}
					// echo loop
					buf := make([]byte, 4096)
					for {
						n, err := srv.Read(buf)
						if n > 0 {
							srvGot.Write(buf[:n])
							if _, werr := srv.Write(buf[:n]); werr != nil {
								return
							}
						}
						if err != nil {
							return
						}
					}
				}()
			} else {
				close(srvDone)
			}
			nCallers := 2 + rg.Intn(5)
			if scenario == "implicit" {
				nCallers = 0
			}
			results := make([]*callRes, 0, nCallers+3)
			var resMu sync.Mutex
			var wg sync.WaitGroup
			gids := map[string]int64{}
			var gidMu sync.Mutex
			launch := func(name string, f func() (error, error)) {
				wg.Add(1)
				cr := &callRes{name: name, started: tick("start:" + name)}
				go func() {
					defer wg.Done()
					gidMu.Lock()
					gids[name] = curGoID()
					gidMu.Unlock()
					var err, cerr error
					c26Call(int64(i)+1, func() { err, cerr = f() })
					cr.err, cr.ctxErr = err, cerr
					cr.retAt = tick("ret:" + name)
					resMu.Lock()
					results = append(results, cr)
					resMu.Unlock()
				}()
			}
			var cancels []context.CancelFunc
			for k := 0; k < nCallers; k++ {
				name := fmt.Sprintf("hs%d", k)
				mode := rg.Intn(4)
				if scenario == "stalled" && k == 0 {
					mode = 0 // background caller that can only be released by another caller's cancellation
				}
				if scenario == "stalled" && k == 1 {
					mode = 2
				}
				if scenario == "cancel-after" {
					mode = 3
				}
				if scenario == "nodeadline" || scenario == "hellorequest" {
					mode = []int{0, 3}[rg.Intn(2)]
				}
				switch mode {
				case 0:
					launch(name, func() (error, error) { return u.Handshake(), nil })
				case 1: // context cancelled at a random moment
					ctx, cancel := context.WithCancel(context.Background())
					d := time.Duration(rg.Intn(30000)) * time.Microsecond
					go func() { time.Sleep(d); cancel() }()
					launch(name, func() (error, error) { e := u.HandshakeContext(ctx); return e, ctx.Err() })
				case 2: // timeout context
					ctx, cancel := context.WithTimeout(context.Background(), time.Duration(200+rg.Intn(30000))*time.Microsecond)
					cancels = append(cancels, cancel)
					launch(name, func() (error, error) { e := u.HandshakeContext(ctx); return e, ctx.Err() })
				default: // context cancelled only after the call returned
					ctx, cancel := context.WithCancel(context.Background())
					cancels = append(cancels, cancel)
					launch(name, func() (error, error) {
						e := u.HandshakeContext(ctx)
						var ce error
						if ctx.Err() != nil {
							ce = ctx.Err()
						}
						return e, ce
					})
				}
			}
			payload := randBytes(rg, 1+rg.Intn(3000))
			var readGot bytes.Buffer
			if scenario == "implicit" || (scenario == "nodeadline" && rg.Intn(2) == 0) {
				// reader first, the writer a little later: the reader tends to own the handshake
				launch("reader", func() (error, error) {
					buf := make([]byte, 1024)
					for readGot.Len() < len(payload) {
						n, err := u.Read(buf)
						readGot.Write(buf[:n])
						if err != nil {
							return err, nil
						}
					}
					return nil, nil
				})
				wd := time.Duration(rg.Intn(3000)) * time.Microsecond
				launch("writer", func() (error, error) { time.Sleep(wd); _, e := u.Write(payload); return e, nil })
			} else if scenario == "close-race" {
				// several writes in a row, so that Close / CloseWrite lands next to (before, between,
				// inside) one of them whatever the scheduler does
				launch("writer", func() (error, error) {
					step := len(payload)/8 + 1
					for off := 0; off < len(payload); off += step {
						if _, e := u.Write(payload[off:min(off+step, len(payload))]); e != nil {
							return e, nil
						}
					}
					return nil, nil
				})
				launch("reader", func() (error, error) {
					buf := make([]byte, 1024)
					for readGot.Len() < len(payload) {
						n, err := u.Read(buf)
						readGot.Write(buf[:n])
						if err != nil {
							return err, nil
						}
					}
					return nil, nil
				})
			} else if scenario != "stalled" {
				launch("writer", func() (error, error) { _, e := u.Write(payload); return e, nil })
				launch("reader", func() (error, error) {
					buf := make([]byte, 1024)
					for readGot.Len() < len(payload) {
						n, err := u.Read(buf)
						readGot.Write(buf[:n])
						if err != nil {
							return err, nil
						}
					}
					return nil, nil
				})
			}
			if scenario == "close-race" {
				d := time.Duration(rg.Intn(6000)) * time.Microsecond
				closeWrite := rg.Intn(2) == 0
				launch("closer", func() (error, error) {
					time.Sleep(d)
					if closeWrite {
						return u.CloseWrite(), nil
					}
					return u.Close(), nil
				})
			}
			done := make(chan struct{})
			go func() { wg.Wait(); close(done) }()
			hang := false
			select {
			case <-done:
			case <-time.After(c26Bound):
				hang = true
			}
			sig := map[string]string{"scenario": scenario}
			rep := map[string]any{"case": i, "scenario": scenario, "id": id.Str(), "callers": nCallers}
			if hang {
				// bounded progress: only goroutines that are parked count as hung; if one of this
				// run's calls is running / runnable the machine is just slow
				time.Sleep(2 * time.Second) // look only after a grace period: late timers on a loaded machine
				returnedNow := map[string]bool{}
				resMu.Lock()
				for _, cr := range results {
					returnedNow[cr.name] = true
				}
				resMu.Unlock()
				var states []string
				gidMu.Lock()
				for name, id := range gids {
					if returnedNow[name] {
						continue
					}
					st, _ := goroutineStateByID(id)
					states = append(states, name+":"+st)
					if !parkedState(st) {
						states = append(states, "!")
					}
				}
				gidMu.Unlock()
				if len(states) == 0 {
					// everything returned during the grace period
					c.Close()
					s.Close()
					r.Count("late_but_returned", 1)
					return
				}
				rep["goroutine_states"] = states
				for _, st := range states {
					if st == "!" {
						r.Inconclusive(fmt.Sprintf("C26 run %d (%s): a call did not return within %s but its goroutine is %q (machine load)", i, scenario, c26Bound, st))
						c.Close()
						s.Close()
						return
					}
				}
				seqMu.Lock()
				rep["trace"] = append([]string(nil), trace...)
				seqMu.Unlock()
				resMu.Lock()
				var returned []string
				for _, cr := range results {
					returned = append(returned, cr.name)
				}
				resMu.Unlock()
				sig["kind"] = "call_did_not_return"
				r.Violation(sig, fmt.Sprintf("scenario %s (%s, %d handshake callers): not every call returned within %s (returned: %v)", scenario, id.Str(), nCallers, c26Bound, returned), rep)
				c.Close()
				s.Close()
				r.Case("hang|"+scenario, true)
				return
			}
			complete := u.ConnectionState().HandshakeComplete
			// hellorequest: a renegotiation that the server refuses legitimately leaves the
			// connection with a failed second handshake after the callers of the first one
			// returned nil, so caller consistency is not judged there: only races, returns and
			// data integrity
			judgeCallers := scenario != "hellorequest"
			if !judgeCallers {
				r.Count("hellorequest_runs", 1)
			}
			// consistency of handshake callers
			var shared error
			sharedSet := false
			for _, cr := range results {
				if !strings.HasPrefix(cr.name, "hs") || !judgeCallers {
					continue
				}
				switch {
				case cr.err == nil:
					if !complete {
						sig["kind"] = "handshake_nil_but_incomplete"
						r.Violation(sig, fmt.Sprintf("%s returned nil but ConnectionState.HandshakeComplete is false", cr.name), rep)
					}
				case cr.ctxErr != nil && errors.Is(cr.err, cr.ctxErr):
					// own context error: the connection must be closed now
					if _, werr := u.Write([]byte("x")); werr == nil {
						sig["kind"] = "ctx_error_but_connection_open"
						r.Violation(sig, fmt.Sprintf("%s returned its context error %v but the connection still accepts writes", cr.name, cr.err), rep)
					}
					r.Count("own_context_errors", 1)
				default:
					if !sharedSet {
						shared, sharedSet = cr.err, true
					} else if shared.Error() != cr.err.Error() {
						// two different non-context errors: only acceptable if the later one is a consequence of Close
						r.Count("different_shared_errors", 1)
					}
					if complete && scenario != "close-race" {
						// an error although the handshake completed: allowed only when the connection was closed by a cancelled caller
						closedByCtx := false
						for _, o := range results {
							if o.ctxErr != nil && o.err != nil && errors.Is(o.err, o.ctxErr) {
								closedByCtx = true
							}
						}
						if !closedByCtx {
							sig["kind"] = "handshake_error_but_complete"
							r.Violation(sig, fmt.Sprintf("%s returned %v although the handshake completed and no caller was cancelled", cr.name, cr.err), rep)
						}
					}
				}
			}
			if scenario == "nodeadline" || scenario == "implicit" {
				// nothing was cancelled or closed and the server echoes: every call must have succeeded
				for _, cr := range results {
					if cr.err != nil {
						sig["kind"] = "benign_run_call_failed"
						r.Violation(sig, fmt.Sprintf("scenario %s: %s returned %v although nothing was cancelled or closed and the server echoes", scenario, cr.name, cr.err), rep)
					}
				}
				if !bytes.Equal(readGot.Bytes(), payload) {
					sig["kind"] = "benign_run_echo_incomplete"
					r.Violation(sig, fmt.Sprintf("scenario %s: wrote %d bytes, read back %d", scenario, len(payload), readGot.Len()), rep)
				} else {
					r.Count("benign_nodeadline_runs_ok", 1)
				}
			}
			// data integrity of what was read
			if readGot.Len() > 0 && !bytes.HasPrefix(payload, readGot.Bytes()) {
				sig["kind"] = "echo_corrupted"
				r.Violation(sig, "bytes read back are not a prefix of the bytes written", rep)
			}
			if scenario == "cancel-after" {
				allNil := true
				for _, cr := range results {
					if cr.err != nil {
						allNil = false
					}
				}
				if allNil && complete {
					for _, cf := range cancels {
						cf()
					}
					time.Sleep(2 * time.Millisecond)
					c.SetDeadline(time.Now().Add(6 * time.Second))
					msg := []byte("after-cancel-roundtrip")
					_, werr := u.Write(msg)
					got := make([]byte, len(msg))
					_, rerr := io.ReadFull(u, got)
					if werr != nil || rerr != nil || !bytes.Equal(got, msg) {
						sig["kind"] = "cancel_after_return_affects_connection"
						r.Violation(sig, fmt.Sprintf("cancelling the contexts after HandshakeContext returned broke the connection: write=%v read=%v", werr, rerr), rep)
					} else {
						r.Count("cancel_after_return_ok", 1)
					}
				}
			}
			for _, cf := range cancels {
				cf()
			}
			u.Close()
			c.Close()
			s.Close()
			<-srvDone
			if complete {
				r.Count("handshakes_completed", 1)
			}
			// interleaving signature: order of returns
			sort.Slice(results, func(a, b int) bool { return results[a].retAt < results[b].retAt })
			var sb strings.Builder
			sb.WriteString(scenario + ":")
			for _, cr := range results {
				e := "ok"
				if cr.err != nil {
					e = "err"
					if cr.ctxErr != nil && errors.Is(cr.err, cr.ctxErr) {
						e = "ctx"
					}
				}
				sb.WriteString(cr.name + "=" + e + ",")
			}
			sigMu.Lock()
			sigs[sb.String()] = true
			sigMu.Unlock()
			r.Case(sb.String(), true)
			if i%53 == 0 {
				r.Sample(map[string]any{"scenario": scenario, "id": id.Str(), "returns": sb.String()})
			}
		}(i)
	}
	wgAll.Wait()
	// CloseWrite next to a stream of Writes, with the close_notify record held back on the
	// transport for a moment (a real suspension point): nothing may follow close_notify on the
	// wire, and a Write that starts after CloseWrite returned must fail.  TLS 1.2, where the
	// alert record is recognisable on the wire.
	for i := 0; i < mon.Pick(60, 1500); i++ {
		rg := Sub("C26closewrite", i)
		id := ids[rg.Intn(len(ids))]
		c, s, tap := peer.Pipe()
		dl := time.Now().Add(20 * time.Second)
		c.SetDeadline(dl)
		s.SetDeadline(dl)
		hold := time.Duration(500+rg.Intn(3000)) * time.Microsecond
		tap.BeforeWrite = func(dir string, p []byte) {
			if dir == "c2s" && len(p) > 0 && p[0] == 21 {
				time.Sleep(hold)
			}
		}
		scfg := peer.ServerConfig()
		scfg.MaxVersion = tls.VersionTLS12
		srv := tls.Server(s, scfg)
		go func() {
			if srv.Handshake() == nil {
				io.Copy(io.Discard, srv)
			}
		}()
		ccfg := peer.ClientConfig("example.test")
		ccfg.OmitEmptyPsk = true
		u := tls.UClient(c, ccfg, id)
		if err := u.Handshake(); err != nil {
			c.Close()
			s.Close()
			continue
		}
		var closeReturned atomic.Bool
		var lateOK atomic.Int64
		var wg sync.WaitGroup
		wg.Add(2)
		go func() {
			defer wg.Done()
			for k := 0; k < 400; k++ {
				after := closeReturned.Load()
				_, err := u.Write([]byte("0123456789abcdef0123456789abcdef"))
				if err == nil && after {
					lateOK.Add(1)
				}
				if err != nil && k > 390 {
					return
				}
			}
		}()
		go func() {
			defer wg.Done()
			time.Sleep(time.Duration(rg.Intn(300)) * time.Microsecond)
			u.CloseWrite()
			closeReturned.Store(true)
		}()
		wg.Wait()
		c2s, _ := tap.Snapshot()
		recs, _, _ := wire.SplitRecords(c2s)
		alertAt, dataAfter := -1, 0
		for k, rec := range recs {
			if rec.Type == 21 && alertAt < 0 {
				alertAt = k
			} else if alertAt >= 0 && rec.Type == 23 {
				dataAfter++
			}
		}
		sig := map[string]string{"scenario": "closewrite-held"}
		rep := map[string]any{"case": i, "id": id.Str(), "records": len(recs), "alert_at": alertAt}
		if dataAfter > 0 {
			sig["kind"] = "application_data_after_close_notify"
			r.Violation(sig, fmt.Sprintf("%s: %d application-data record(s) went to the transport after the close_notify alert", id.Str(), dataAfter), rep)
		}
		if n := lateOK.Load(); n > 0 {
			sig["kind"] = "write_succeeded_after_closewrite_returned"
			r.Violation(sig, fmt.Sprintf("%s: %d Write call(s) that started after CloseWrite had returned reported success", id.Str(), n), rep)
		}
		if alertAt >= 0 {
			r.Count("closewrite_held_runs", 1)
		}
		u.Close()
		c.Close()
		s.Close()
		r.Case(fmt.Sprintf("closewrite-held|%v", alertAt >= 0), true)
	}
	r.Floor("closewrite_held_runs", int64(mon.Pick(30, 700)))
	// A RESUMED TLS 1.2 handshake (the client speaks last: ChangeCipherSpec + Finished) with
	// that last flight held back on the transport, next to other callers: whoever is told the
	// handshake is over may write at once, and what Write accepted must reach the server in
	// order, after the client's Finished (also a race-detector target: Write vs the flush).
	for i := 0; i < mon.Pick(40, 800); i++ {
		rg := Sub("C26resumed12", i)
		id := ids[rg.Intn(len(ids))]
		scfg := peer.ServerConfig()
		tls13Variant := i%2 == 1
		if !tls13Variant {
			scfg.MaxVersion = tls.VersionTLS12
		}
		// (odd runs: a TLS 1.3 handshake, where the client speaks last in every handshake)
		cache := tls.NewLRUClientSessionCache(4)
		mkCfg := func() *tls.Config {
			ccfg := peer.ClientConfig("example.test")
			ccfg.OmitEmptyPsk = true
			ccfg.ClientSessionCache = cache
			ccfg.PreferSkipResumptionOnNilExtension = true
			return ccfg
		}
		if w := peer.Run(mkCfg(), id, scfg, peer.Opts{}); !w.OK() {
			continue
		}
		c, s, tap := peer.Pipe()
		dl := time.Now().Add(20 * time.Second)
		c.SetDeadline(dl)
		s.SetDeadline(dl)
		hold := time.Duration(300+rg.Intn(2500)) * time.Microsecond
		inFlight := make(chan struct{})
		hsDone := make(chan struct{})
		var once sync.Once
		var c2sWrites atomic.Int64
		tap.BeforeWrite = func(dir string, p []byte) {
			if dir != "c2s" || len(p) == 0 {
				return
			}
			n := c2sWrites.Add(1)
			// TLS 1.2 resumption: the flight that starts with ChangeCipherSpec; TLS 1.3: the
			// client's second transport write (dummy CCS + Finished)
			if !tls13Variant && p[0] == 20 || tls13Variant && n == 2 {
				once.Do(func() { close(inFlight) }) // a caller arrives exactly now
				time.Sleep(hold)
			}
		}
		srv := tls.Server(s, scfg)
		got := make(chan []byte, 1)
		go func() {
			buf := make([]byte, 12)
			if srv.Handshake() != nil {
				got <- nil
				return
			}
			n, _ := io.ReadFull(srv, buf)
			got <- buf[:n]
		}()
		u := tls.UClient(c, mkCfg(), id)
		var wg sync.WaitGroup
		var wrote atomic.Int64
		delays := []time.Duration{0, time.Duration(rg.Intn(200)) * time.Microsecond, time.Duration(rg.Intn(200)) * time.Microsecond} // drawn here: rg is not for the goroutines
		for k := 0; k < 3; k++ {
			wg.Add(1)
			go func(k int) {
				defer wg.Done()
				if k == 1 {
					select {
					case <-inFlight:
					case <-hsDone: // not a resumption (or over already): no such moment
					}
				} else if k > 0 {
					time.Sleep(delays[k])
				}
				err := u.Handshake()
				if k == 0 {
					close(hsDone)
				}
				if err != nil {
					return
				}
				if k == 1 {
					if n, err := u.Write([]byte("ping-ping-12")); err == nil && n == 12 {
						wrote.Add(1)
					}
				}
			}(k)
		}
		wg.Wait()
		resumed := u.ConnectionState().DidResume || tls13Variant
		var data []byte
		select {
		case data = <-got:
		case <-time.After(10 * time.Second):
		}
		if resumed {
			r.Count("resumed12_runs", 1)
		}
		if wrote.Load() == 1 && string(data) != "ping-ping-12" {
			r.Violation(map[string]string{"scenario": "resumed12-held-flight", "kind": "accepted_write_not_delivered"},
				fmt.Sprintf("%s (tls13=%v resumed=%v): Handshake returned nil and Write accepted 12 bytes, but the server received %q", id.Str(), tls13Variant, resumed, data), map[string]any{"case": i, "id": id.Str()})
		}
		u.Close()
		c.Close()
		s.Close()
		r.Case(fmt.Sprintf("held-last-flight|tls13=%v|%v", tls13Variant, resumed), true)
	}
	r.Floor("resumed12_runs", int64(mon.Pick(15, 300)))
	r.Count("distinct_interleavings", int64(len(sigs)))
	r.Floor("handshakes_completed", int64(n/8))
	r.Floor("hello_requests_sent", int64(n/15))
	r.Floor("distinct_interleavings", 20)
	r.Floor("own_context_errors", 10)
	r.Floor("cancel_after_return_ok", 5)
	r.Floor("benign_nodeadline_runs_ok", int64(n/8))
}
