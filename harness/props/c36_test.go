package props

import (
	"fmt"
	"strings"
	"sync"
	"sync/atomic"
	"testing"
	"time"

	"github.com/anishathalye/porcupine"
	tls "github.com/refraction-networking/utls"
	"verifharness/mon"
)

// --- reference sequential LRU (MRU first), written from the documentation ---

type lruEnt struct {
	k string
	v int // id of the *ClientSessionState; never 0 for a stored entry
}

type refLRU struct {
	cap int
	l   []lruEnt
}

func (m *refLRU) find(k string) int {
	for i, e := range m.l {
		if e.k == k {
			return i
		}
	}
	return -1
}

func (m *refLRU) touch(i int) {
	e := m.l[i]
	copy(m.l[1:i+1], m.l[:i])
	m.l[0] = e
}

func (m *refLRU) Get(k string) (int, bool) {
	i := m.find(k)
	if i < 0 {
		return 0, false
	}
	m.touch(i)
	return m.l[0].v, true
}

// peek returns the value stored under k without refreshing it.
func (m *refLRU) peek(k string) (int, bool) {
	if i := m.find(k); i >= 0 {
		return m.l[i].v, true
	}
	return 0, false
}

func (m *refLRU) Put(k string, v int) {
	i := m.find(k)
	if v == 0 { // delete
		if i >= 0 {
			m.l = append(m.l[:i], m.l[i+1:]...)
		}
		return
	}
	if i >= 0 {
		m.l[i].v = v
		m.touch(i)
		return
	}
	if len(m.l) >= m.cap {
		m.l = m.l[:m.cap-1]
	}
	m.l = append([]lruEnt{{k, v}}, m.l...)
}

func (m *refLRU) encode() string {
	var sb strings.Builder
	for _, e := range m.l {
		fmt.Fprintf(&sb, "%s=%d,", e.k, e.v)
	}
	return sb.String()
}

func decodeLRU(capacity int, s string) *refLRU {
	m := &refLRU{cap: capacity}
	for _, part := range strings.Split(s, ",") {
		if part == "" {
			continue
		}
		var k string
		var v int
		kv := strings.SplitN(part, "=", 2)
		k = kv[0]
		fmt.Sscanf(kv[1], "%d", &v)
		m.l = append(m.l, lruEnt{k, v})
	}
	return m
}

type lruIn struct {
	Put bool
	Key string
	Val int
}
type lruOut struct {
	Val int
	OK  bool
}

func lruModel(capacity int) porcupine.Model {
	return porcupine.Model{
		Init: func() interface{} { return "" },
		Step: func(state, input, output interface{}) (bool, interface{}) {
			m := decodeLRU(capacity, state.(string))
			in := input.(lruIn)
			if in.Put {
				m.Put(in.Key, in.Val)
				return true, m.encode()
			}
			out := output.(lruOut)
			v, ok := m.Get(in.Key)
			return ok == out.OK && v == out.Val, m.encode()
		},
		DescribeOperation: func(input, output interface{}) string {
			in := input.(lruIn)
			if in.Put {
				return fmt.Sprintf("Put(%s,%d)", in.Key, in.Val)
			}
			out := output.(lruOut)
			return fmt.Sprintf("Get(%s)=(%d,%v)", in.Key, out.Val, out.OK)
		},
	}
}

// C36 — The LRU client session cache behaves as a bounded LRU map.
func TestC36(t *testing.T) {
	r := mon.New("C36", "(a) sequential random Put/Put-nil/Get histories over <=6 keys and capacities 1..5 compared step by step with a reference LRU; (b) concurrent histories (3-4 clients, <=36 ops, <=4 keys, capacity 1..3, unique state per Put) recorded at the call boundary and checked for linearizability with porcupine; (c) occupancy at quiescence <= capacity; race detector on. distinct = distinct operation sequences")
	defer r.Finish(t)
	keys := []string{"a", "b", "c", "d", "e", "f"}

	// (a) sequential
	seqN := mon.Pick(10000, 1000000)
	for i := 0; i < seqN; i++ {
		rg := Sub("C36seq", i)
		capacity := 1 + rg.Intn(5)
		nk := 2 + rg.Intn(5)
		c := tls.NewLRUClientSessionCache(capacity)
		m := &refLRU{cap: capacity}
		ids := map[*tls.ClientSessionState]int{}
		next := 1
		var trace []string
		bad := false
		nops := 10 + rg.Intn(50)
		for j := 0; j < nops && !bad; j++ {
			k := keys[rg.Intn(nk)]
			switch x := rg.Intn(11); {
			case x == 10:
				// store again the very pointer that is stored under k (what a session cache sees when a
				// resumed session is saved back): it must count as a use, like any Put
				if wv, wok := m.peek(k); wok {
					var same *tls.ClientSessionState
					for p, id := range ids {
						if id == wv {
							same = p
						}
					}
					if same != nil {
						c.Put(k, same)
						m.Put(k, wv)
						trace = append(trace, fmt.Sprintf("Put(%s,same %d)", k, wv))
					}
				}
			case x < 4:
				s := &tls.ClientSessionState{}
				ids[s] = next
				c.Put(k, s)
				m.Put(k, next)
				trace = append(trace, fmt.Sprintf("Put(%s,%d)", k, next))
				next++
			case x < 6:
				c.Put(k, nil)
				m.Put(k, 0)
				trace = append(trace, fmt.Sprintf("Put(%s,nil)", k))
			default:
				s, ok := c.Get(k)
				wv, wok := m.Get(k)
				gv := 0
				if s != nil {
					gv = ids[s]
				}
				trace = append(trace, fmt.Sprintf("Get(%s)=(%d,%v)", k, gv, ok))
				if ok != wok || gv != wv {
					bad = true
					// signature: minimal description of the failing shape
					kind := "lru_get_mismatch"
					if ok && s == nil {
						kind = "lru_nil_entry_present"
					}
					r.Violation(map[string]string{"kind": kind},
						fmt.Sprintf("capacity %d: %s but the reference LRU returns (%d,%v); history: %s", capacity, trace[len(trace)-1], wv, wok, strings.Join(trace, " ")),
						map[string]any{"case": i, "capacity": capacity, "history": trace})
				}
			}
		}
		// (c) occupancy
		present := 0
		for _, k := range keys {
			if _, ok := c.Get(k); ok {
				present++
			}
		}
		if present > capacity {
			r.Violation(map[string]string{"kind": "lru_over_capacity"}, fmt.Sprintf("capacity %d but %d keys present; history: %s", capacity, present, strings.Join(trace, " ")), map[string]any{"case": i})
		}
		r.Case(strings.Join(trace, " "), true)
		if i < 2 {
			r.Sample(map[string]any{"capacity": capacity, "history": trace})
		}
	}
	r.Count("sequential_histories", int64(seqN))

	// (b) concurrent + porcupine
	concN := mon.Pick(1200, 100000)
	var unknown, illegal int64
	var clock atomic.Int64
	for i := 0; i < concN; i++ {
		rg := Sub("C36conc", i)
		capacity := 1 + rg.Intn(3)
		nk := 2 + rg.Intn(3)
		clients := 3 + rg.Intn(2)
		perClient := 5 + rg.Intn(5)
		c := tls.NewLRUClientSessionCache(capacity)
		var mu sync.Mutex
		ids := map[*tls.ClientSessionState]int{}
		var nextID atomic.Int64
		ops := make([][]porcupine.Operation, clients)
		// pre-generate scripts deterministically
		type step struct {
			put  bool
			nilv bool
			key  string
		}
		scripts := make([][]step, clients)
		for cl := range scripts {
			for j := 0; j < perClient; j++ {
				x := rg.Intn(10)
				scripts[cl] = append(scripts[cl], step{put: x < 6, nilv: x >= 4 && x < 6, key: keys[rg.Intn(nk)]})
			}
		}
		var wg sync.WaitGroup
		start := make(chan struct{})
		for cl := 0; cl < clients; cl++ {
			wg.Add(1)
			go func(cl int) {
				defer wg.Done()
				<-start
				for _, st := range scripts[cl] {
					if st.put {
						var s *tls.ClientSessionState
						id := 0
						if !st.nilv {
							s = &tls.ClientSessionState{}
							id = int(nextID.Add(1))
							mu.Lock()
							ids[s] = id
							mu.Unlock()
						}
						t0 := clock.Add(1)
						c.Put(st.key, s)
						t1 := clock.Add(1)
						ops[cl] = append(ops[cl], porcupine.Operation{ClientId: cl, Input: lruIn{true, st.key, id}, Call: t0, Output: lruOut{}, Return: t1})
					} else {
						t0 := clock.Add(1)
						s, ok := c.Get(st.key)
						t1 := clock.Add(1)
						id := 0
						if s != nil {
							mu.Lock()
							id = ids[s]
							mu.Unlock()
							if id == 0 {
								id = -1 // a state nobody put
							}
						}
						ops[cl] = append(ops[cl], porcupine.Operation{ClientId: cl, Input: lruIn{false, st.key, 0}, Call: t0, Output: lruOut{id, ok}, Return: t1})
					}
				}
			}(cl)
		}
		close(start)
		wg.Wait()
		var all []porcupine.Operation
		for _, o := range ops {
			all = append(all, o...)
		}
		res := porcupine.CheckOperationsTimeout(lruModel(capacity), all, 20*time.Second)
		var desc []string
		for _, o := range all {
			in := o.Input.(lruIn)
			out := o.Output.(lruOut)
			if in.Put {
				desc = append(desc, fmt.Sprintf("c%d[%d,%d]Put(%s,%d)", o.ClientId, o.Call, o.Return, in.Key, in.Val))
			} else {
				desc = append(desc, fmt.Sprintf("c%d[%d,%d]Get(%s)=(%d,%v)", o.ClientId, o.Call, o.Return, in.Key, out.Val, out.OK))
			}
		}
		switch res {
		case porcupine.Illegal:
			illegal++
			kind := "lru_not_linearizable"
			for _, o := range all {
				if !o.Input.(lruIn).Put && o.Output.(lruOut).OK && o.Output.(lruOut).Val == 0 {
					kind = "lru_nil_entry_present"
				}
			}
			r.Violation(map[string]string{"kind": kind}, fmt.Sprintf("capacity %d: concurrent history is not linearizable w.r.t. a sequential LRU: %s", capacity, strings.Join(desc, " ")), map[string]any{"case": i, "capacity": capacity, "history": desc})
		case porcupine.Unknown:
			unknown++
		}
		r.Case("conc|"+fmt.Sprint(capacity)+"|"+fmt.Sprint(scripts), true)
		if i < 1 {
			r.Sample(map[string]any{"capacity": capacity, "concurrent_history": desc})
		}
	}
	r.Count("concurrent_histories", int64(concN))
	r.Count("porcupine_unknown", unknown)
	r.Count("porcupine_illegal", illegal)
	if unknown > int64(concN/10) {
		r.Inconclusive(fmt.Sprintf("porcupine timed out on %d of %d histories", unknown, concN))
	}
	r.Assume("linearizability is checked for the histories the scheduler produced (3-4 goroutines released together), not for all schedules")
}
