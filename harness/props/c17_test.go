package props

import (
	"bytes"
	"fmt"
	"sync"
	"testing"

	tls "github.com/refraction-networking/utls"
	"verifharness/mon"
	"verifharness/peer"
	"verifharness/wire"
)

// compareRetryHellos is the C17 oracle for CH1 -> CH2 under a valid HRR.
func compareRetryHellos(ch1, ch2 *wire.ClientHello, group uint16, cookie []byte, boringPadding bool) []string {
	var bad []string
	add := func(f string, a ...any) { bad = append(bad, fmt.Sprintf(f, a...)) }
	if ch1.Version != ch2.Version {
		add("legacy_version changed")
	}
	if !bytes.Equal(ch1.Random, ch2.Random) {
		add("client random changed")
	}
	if !bytes.Equal(ch1.SessionID, ch2.SessionID) {
		add("legacy session id changed")
	}
	if fmt.Sprint(ch1.Suites) != fmt.Sprint(ch2.Suites) {
		add("cipher suites changed")
	}
	if !bytes.Equal(ch1.Compression, ch2.Compression) {
		add("compression methods changed")
	}
	// extension sequences without key_share body differences, cookie and padding
	type item struct {
		t uint16
		d []byte
	}
	filter := func(ch *wire.ClientHello) []item {
		var out []item
		for _, e := range ch.Exts {
			if e.Type == wire.ExtCookie || e.Type == wire.ExtPadding {
				continue
			}
			d := e.Data
			if e.Type == wire.ExtKeyShare {
				d = nil
			}
			out = append(out, item{e.Type, d})
		}
		return out
	}
	a, b := filter(ch1), filter(ch2)
	if len(a) != len(b) {
		add("extension list changed: %04x -> %04x", ch1.ExtTypes(), ch2.ExtTypes())
	} else {
		for i := range a {
			if a[i].t != b[i].t {
				add("extension order changed at %d: %04x -> %04x", i, ch1.ExtTypes(), ch2.ExtTypes())
				break
			}
			if !bytes.Equal(a[i].d, b[i].d) {
				add("extension %d body changed between the hellos", a[i].t)
			}
		}
	}
	// key_share
	if len(ch2.KeyShares) != 1 {
		add("second hello carries %d key shares, want exactly 1", len(ch2.KeyShares))
	} else {
		ks := ch2.KeyShares[0]
		if ks.Group != group {
			add("second hello's share is for group %#04x, server requested %#04x", ks.Group, group)
		}
		if want := KeyShareSize(ks.Group); want > 0 && len(ks.Key) != want {
			add("second hello's share has %d bytes, group needs %d", len(ks.Key), want)
		}
		for _, old := range ch1.KeyShares {
			if bytes.Equal(old.Key, ks.Key) {
				add("second hello re-uses a key_exchange value of the first hello")
			} else if len(ks.Key) >= 32 && len(old.Key) > len(ks.Key) && bytes.Contains(old.Key, ks.Key) {
				// (a hybrid share is a concatenation of public values: "fresh" also means not
				// the classical half of a hybrid share that already went out in the clear)
				add("second hello's share is a part (offset %d) of the first hello's share for group %#04x", bytes.Index(old.Key, ks.Key), old.Group)
			}
		}
	}
	// cookie
	if cookie == nil {
		if ch2.Has(wire.ExtCookie) {
			add("second hello carries a cookie although the server sent none")
		}
	} else if !bytes.Equal(ch2.Cookie, cookie) {
		add("cookie not echoed byte for byte (%d bytes sent, %d echoed)", len(cookie), len(ch2.Cookie))
	}
	if ch1.Has(wire.ExtCookie) {
		add("first hello carries a cookie")
	}
	if boringPadding {
		if msg := boringPaddingProblem(ch2); msg != "" {
			add("padding of the second hello: %s", msg)
		}
	}
	return bad
}

// C17 — A HelloRetryRequest changes only what RFC 8446 allows.
func TestC17(t *testing.T) {
	r := mon.New("C17", "TLS 1.3 targets (parrots, randomized, custom; PSK and real ECH excluded) x each listed classical group without a share (real HRR via server hook H6) x cookie {none, 1, 32, 1000, 20000 bytes} appended to the real HRR before it enters the server transcript (hook H1; echoed cookie recorded and cleared by H8): CH2 compared with CH1 field by field and extension by extension; handshake must complete with data echo. Invalid HRRs (unlisted group via H6; group that already has a share via H1) must make the client fail without emitting a second ClientHello. distinct = (target family, group, cookie size, validity)")
	defer r.Finish(t)
	var targets []Target
	for _, tg := range ParrotTargets(false) {
		if PSKParrots[tg.Name] {
			continue
		}
		targets = append(targets, tg)
	}
	for i := 0; i < mon.Pick(60, 15000); i++ {
		targets = append(targets, RandomizedTarget(i))
	}
	for i := 0; i < mon.Pick(90, 25000); i++ {
		targets = append(targets, CustomTarget(i))
	}
	// hellos whose only share containing X25519 material is a hybrid one (X25519 still listed)
	for _, pn := range []string{"Chrome_131", "Chrome_133", "Chrome_120_PQ", "Chrome_115_PQ"} {
		p := ParrotByName(pn)
		if p.Name == "" {
			continue
		}
		targets = append(targets, Target{Name: p.Name + "+hybrid-share-only", Spec: func() (*tls.ClientHelloSpec, error) {
			sp, err := tls.UTLSIdToSpec(p.ID)
			if err != nil {
				return nil, err
			}
			for _, e := range sp.Extensions {
				if x, ok := e.(*tls.KeyShareExtension); ok {
					var keep []tls.KeyShare
					for _, ks := range x.KeyShares {
						if ks.Group != tls.X25519 {
							keep = append(keep, ks)
						}
					}
					x.KeyShares = keep
				}
			}
			return &sp, nil
		}})
	}
	targets = append(targets, NoShareTargets()...)                                 // no usable share in the first hello: every TLS 1.3 server answers with a HelloRetryRequest
	cookieSizes := []int{0, 1, 32, 254, 255, 256, 257, 510, 511, 512, 1000, 20000} // incl. the sizes around multiples of 256: one- vs two-byte length boundaries
	type job struct {
		t      Target
		group  uint16
		cookie int
		kind   string // valid, unlisted, already-shared
		alt    uint16 // for already-shared: the shared group written into the HRR
		// interloper: between this connection's first hello and its HelloRetryRequest another
		// connection is built from the SAME spec object (targets of SharedSpecTargets)
		interloper bool
	}
	var jobs []job
	for ti, tg := range targets {
		ch, err := tg.Probe("example.test")
		if err != nil {
			continue
		}
		o := OfferOf(ch, targetMinVersion(tg))
		if !o.Has(tls.VersionTLS13) || len(o.Suites13) == 0 || ch.Has(wire.ExtPreSharedKey) {
			continue
		}
		shared := map[uint16]bool{}
		for _, s := range o.Shares {
			shared[s] = true
		}
		listed := map[uint16]bool{}
		for _, g := range o.Groups {
			listed[g] = true
		}
		k := 0
		var firstValid uint16
		for _, g := range []uint16{0x001d, 0x0017, 0x0018, 0x0019} {
			if listed[g] && !shared[g] {
				if firstValid == 0 {
					firstValid = g
				}
				for ci, cs := range cookieSizes {
					if !mon.Thorough() && ti >= len(AllParrots) && ci != (ti+k)%len(cookieSizes) {
						continue
					}
					jobs = append(jobs, job{t: tg, group: g, cookie: cs, kind: "valid"})
				}
				k++
			}
		}
		for _, g := range []uint16{0x0019, 0x0018, 0x0017, 0x001d} {
			if !listed[g] {
				jobs = append(jobs, job{t: tg, group: g, kind: "unlisted"})
				jobs = append(jobs, job{t: tg, group: g, kind: "unlisted", cookie: 32}) // invalid selection AND a cookie
				break
			}
		}
		if firstValid != 0 {
			for _, g := range []uint16{0x001d, 0x0017, 0x0018, 0x0019} {
				if shared[g] {
					jobs = append(jobs, job{t: tg, group: firstValid, kind: "already-shared", alt: g})
					jobs = append(jobs, job{t: tg, group: firstValid, kind: "already-shared", alt: g, cookie: []int{1, 32, 1000}[len(jobs)%3]})
				}
			}
		}
	}
	r.Count("planned_cases", int64(len(jobs)))
	var mu sync.Mutex
	validByFamily := map[string]int{}
	runJob := func(i int) {
		j := jobs[i]
		rg := Sub("C17", i)
		var cookie []byte
		if j.cookie > 0 {
			cookie = randBytes(rg, j.cookie)
		}
		plan := &tls.VerifPlan{ForceGroup: tls.CurveID(j.group), ClearCookie: true}
		plan.RewriteOut = func(isClient bool, data []byte) []byte {
			if isClient || len(data) < 4 || data[0] != 2 {
				return nil
			}
			sh, err := wire.ParseServerHello(data)
			if err != nil || !sh.IsHRR {
				return nil
			}
			if j.interloper {
				// the client of this connection is waiting for the server's answer: nobody else
				// touches the spec right now
				if _, other, err, pn := buildHello(&tls.Config{ServerName: "other.example.test", OmitEmptyPsk: true}, j.t.ClientID(), j.t.Prepare()); err == nil && pn == "" && other != nil {
					other.SetSNI("intruder.example.test") // the other connection's own business
				}
			}
			changed := false
			if cookie != nil {
				sh.SetExt(wire.ExtCookie, vec16(cookie))
				changed = true
			}
			if j.kind == "already-shared" {
				sh.SetExt(wire.ExtKeyShare, be16(j.alt))
				changed = true
			}
			if !changed {
				return nil
			}
			return sh.Marshal()
		}
		scfg := peer.ServerConfig()
		h := RunCase(j.t, GridCase{Server: scfg, Plan: plan}, "example.test", nil, peer.Opts{})
		sig := map[string]string{"target": family(j.t.Name), "group": fmt.Sprintf("%04x", j.group), "hrr": j.kind}
		rep := map[string]any{"case": i, "target": j.t.Name, "group": j.group, "cookie_len": j.cookie, "kind": j.kind, "err": h.ErrString()}
		hellos := wire.ClientHellos(h.C2S)
		if h.ClientPanic != "" {
			sig["kind"] = "panic"
			r.Violation(sig, j.t.Name+": "+firstLine(h.ClientPanic), rep)
			return
		}
		if !sawHRR(h.S2C) {
			r.Count("no_hrr_produced", 1)
			r.Case(fmt.Sprintf("%s|%04x|nohrr", family(j.t.Name), j.group), false)
			return
		}
		r.Count("hrr_observed", 1)
		if j.kind != "valid" {
			// the client must fail and must not send a second ClientHello
			if h.ClientErr == nil {
				sig["kind"] = "invalid_hrr_accepted"
				r.Violation(sig, fmt.Sprintf("%s: client completed a handshake after an invalid HelloRetryRequest (%s, group %#04x/%#04x)", j.t.Name, j.kind, j.group, j.alt), rep)
			} else if len(hellos) > 1 {
				sig["kind"] = "second_hello_after_invalid_hrr"
				r.Violation(sig, fmt.Sprintf("%s: client answered an invalid HelloRetryRequest (%s: group %#04x) with a second ClientHello", j.t.Name, j.kind, map[bool]uint16{true: j.alt, false: j.group}[j.kind == "already-shared"]), rep)
			}
			r.Count("invalid_hrr_cases", 1)
			r.Case(fmt.Sprintf("%s|%04x|%s", family(j.t.Name), j.group, j.kind), true)
			return
		}
		if len(hellos) != 2 {
			sig["kind"] = "no_second_hello"
			r.Violation(sig, fmt.Sprintf("%s: valid HelloRetryRequest for listed group %#04x (cookie %d bytes) but %d ClientHello(s) on the wire: %s", j.t.Name, j.group, j.cookie, len(hellos), h.ErrString()), rep)
			return
		}
		ch1, err1 := wire.ParseClientHello(hellos[0])
		ch2, err2 := wire.ParseClientHello(hellos[1])
		if err1 != nil || err2 != nil {
			sig["kind"] = "unparseable_hello"
			r.Violation(sig, fmt.Sprintf("%v / %v", err1, err2), rep)
			return
		}
		boring := false
		if j.t.Spec == nil {
			if sp, err := tls.UTLSIdToSpec(j.t.ID); err == nil {
				boring = specHasBoringPadding(&sp)
			}
		}
		for _, p := range compareRetryHellos(ch1, ch2, j.group, cookie, boring) {
			s := map[string]string{"kind": "retry_hello_differs", "what": firstWords(p, 3)}
			for k, v := range sig {
				s[k] = v
			}
			rep["ch1"], rep["ch2"] = mon.Hex(hellos[0]), mon.Hex(hellos[1])
			r.Violation(s, fmt.Sprintf("%s (HRR %#04x, cookie %d): %s", j.t.Name, j.group, j.cookie, p), rep)
		}
		obs := plan.Obs()
		if cookie != nil && !bytes.Equal(obs.EchoedCookie, cookie) {
			sig["kind"] = "cookie_not_echoed_to_server"
			r.Violation(sig, fmt.Sprintf("%s: server saw a %d-byte cookie echo, sent %d bytes", j.t.Name, len(obs.EchoedCookie), len(cookie)), rep)
		}
		if !h.OK() {
			sig["kind"] = "handshake_failed_after_valid_hrr"
			r.Violation(sig, fmt.Sprintf("%s: handshake after a valid HelloRetryRequest (group %#04x, cookie %d bytes) failed: %s", j.t.Name, j.group, j.cookie, h.ErrString()), rep)
		} else {
			r.Count("completed_after_hrr", 1)
			mu.Lock()
			validByFamily[family(j.t.Name)]++
			mu.Unlock()
		}
		r.Case(fmt.Sprintf("%s|%04x|%d|valid", family(j.t.Name), j.group, j.cookie), true)
		if j.interloper && h.OK() {
			r.Count("completed_after_hrr_with_interloper_on_shared_spec", 1)
		}
		if i%131 == 0 {
			r.Sample(map[string]any{"target": j.t.Name, "group": fmt.Sprintf("%#04x", j.group), "cookie_len": j.cookie, "ch1_exts": u16s(ch1.ExtTypes()), "ch2_exts": u16s(ch2.ExtTypes())})
		}
	}
	parallel(len(jobs), runJob)
	// ONE spec object shared by consecutive connections, and by a connection that is built
	// while another one waits for its HelloRetryRequest (sequentially: ApplyPreset writes
	// into the spec): the second hello must still be the first one's retry
	n0 := len(jobs)
	for _, tg := range SharedSpecTargets() {
		ch, err := tg.Probe("example.test")
		if err != nil {
			continue
		}
		o := OfferOf(ch, targetMinVersion(tg))
		if !o.Has(tls.VersionTLS13) || len(o.Suites13) == 0 || ch.Has(wire.ExtPreSharedKey) {
			continue
		}
		if g := hrrGroupFor(ch); g != 0 {
			for k, cs := range []int{0, 32, 0, 300} {
				jobs = append(jobs, job{t: tg, group: uint16(g), cookie: cs, kind: "valid", interloper: k >= 2})
			}
		}
	}
	for i := n0; i < len(jobs); i++ {
		runJob(i)
	}
	r.Floor("completed_after_hrr_with_interloper_on_shared_spec", 8)
	// QUIC: the same rule for the hellos of UQUICConn (quic_transport_parameters with GREASE
	// parameters and a GREASE version in version_information stay as they were sent first)
	quicHRR := 0
	for i := 0; i < mon.Pick(60, 1500); i++ {
		rg := Sub("C17quic", i)
		spec, _ := GenSpec(rg, GenOpts{QUIC: true, ForHandshake: true})
		for _, e := range spec.Extensions {
			if tp, ok := e.(*tls.QUICTransportParametersExtension); ok {
				tp.TransportParameters = append(tp.TransportParameters,
					&tls.VersionInformation{ChoosenVersion: tls.VERSION_1, AvailableVersions: []uint32{tls.VERSION_GREASE, tls.VERSION_1, tls.VERSION_GREASE}},
					&tls.GREASETransportParameter{Length: uint16(rg.Intn(12))})
			}
		}
		var listed, shared []tls.CurveID
		for _, e := range spec.Extensions {
			switch v := e.(type) {
			case *tls.SupportedCurvesExtension:
				listed = v.Curves
			case *tls.KeyShareExtension:
				for _, k := range v.KeyShares {
					shared = append(shared, k.Group)
				}
			}
		}
		var g tls.CurveID
		for _, l := range listed {
			has := false
			for _, k := range shared {
				if k == l {
					has = true
				}
			}
			if !has && (l == tls.X25519 || l == tls.CurveP256 || l == tls.CurveP384 || l == tls.CurveP521) {
				g = l
			}
		}
		if g == 0 {
			continue
		}
		ccfg := &tls.Config{ServerName: "example.test", RootCAs: peer.Fix().CA.Pool, Time: peer.FixedTime, MinVersion: tls.VersionTLS13, NextProtos: []string{"h3"}}
		scfg := peer.ServerConfig()
		scfg.MinVersion = tls.VersionTLS13
		scfg.NextProtos = []string{"h3"}
		scfg.CurvePreferences = []tls.CurveID{g}
		run := driveQUIC(rg, ccfg, spec, scfg, -1, rg.Intn(2) == 0, quicOpts{})
		if run.hang != "" || !run.completed {
			continue
		}
		var hellos [][]byte
		data := run.cli.crypto[tls.QUICEncryptionLevelInitial]
		for len(data) >= 4 {
			n := int(data[1])<<16 | int(data[2])<<8 | int(data[3])
			if len(data) < 4+n {
				break
			}
			if data[0] == 1 {
				hellos = append(hellos, data[:4+n])
			}
			data = data[4+n:]
		}
		if len(hellos) != 2 {
			continue
		}
		ch1, e1 := wire.ParseClientHello(hellos[0])
		ch2, e2 := wire.ParseClientHello(hellos[1])
		if e1 != nil || e2 != nil {
			r.Violation(map[string]string{"kind": "unparseable_hello", "target": "quic"}, fmt.Sprintf("%v / %v", e1, e2), nil)
			continue
		}
		for _, p := range compareRetryHellos(ch1, ch2, uint16(g), nil, false) {
			r.Violation(map[string]string{"kind": "retry_hello_differs", "target": "quic", "what": firstWords(p, 3)},
				fmt.Sprintf("QUIC (HRR %#04x): %s", uint16(g), p), map[string]any{"case": i, "ch1": mon.Hex(hellos[0]), "ch2": mon.Hex(hellos[1])})
		}
		quicHRR++
		r.Case(fmt.Sprintf("quic|%04x", uint16(g)), true)
	}
	r.Count("quic_retry_hello_pairs", int64(quicHRR))
	r.Floor("quic_retry_hello_pairs", 10)
	r.Count("families_with_valid_hrr", int64(len(validByFamily)))
	r.Floor("completed_after_hrr", 100)
	r.Floor("invalid_hrr_cases", 30)
	r.Floor("families_with_valid_hrr", 25)
}
