package props

import (
	"bytes"
	"errors"
	"fmt"
	"io"
	"math/rand"
	"reflect"
	"testing"

	tls "github.com/refraction-networking/utls"
	"verifharness/mon"
	"verifharness/wire"
)

// genExtValues yields random instances of every built-in extension type.
func genExtValues(rg *rand.Rand) []tls.TLSExtension {
	n := func(max int) int { return rg.Intn(max + 1) }
	// a quarter of the values are drawn at the sizes where a length prefix changes its high
	// byte or overflows one byte (entry counts / byte lengths around 127, 255, 511), capped by
	// the field's own limit
	boundary := rg.Intn(4) == 0
	bsizes := []int{125, 126, 127, 128, 129, 253, 254, 255, 256, 257, 258, 509, 510, 511, 512, 513}
	bn := func(small, hard int) int {
		if boundary && rg.Intn(2) == 0 {
			for try := 0; try < 8; try++ {
				if v := bsizes[rg.Intn(len(bsizes))]; v <= hard {
					return v
				}
			}
		}
		return rg.Intn(small + 1)
	}
	u16list := func(max int) []uint16 {
		l := make([]uint16, 1+n(max))
		for i := range l {
			l[i] = uint16(rg.Intn(65536))
			if rg.Intn(8) == 0 {
				l[i] = 0x0a0a
			}
		}
		return l
	}
	sigs := func(max int) []tls.SignatureScheme {
		v := u16list(max)
		o := make([]tls.SignatureScheme, len(v))
		for i := range v {
			o[i] = tls.SignatureScheme(v[i])
		}
		return o
	}
	curves := func(max int) []tls.CurveID {
		v := u16list(max)
		o := make([]tls.CurveID, len(v))
		for i := range v {
			o[i] = tls.CurveID(v[i])
		}
		return o
	}
	protos := func() []string {
		l := make([]string, 1+n(5))
		for i := range l {
			l[i] = string(randBytes(rg, 1+n([]int{3, 20, 254}[rg.Intn(3)])))
		}
		return l
	}
	var shares []tls.KeyShare
	for _, g := range pickSubset(rg, []tls.CurveID{tls.X25519, tls.CurveP256, tls.CurveP384, tls.CurveP521, tls.X25519MLKEM768, 0x0a0a, 0x4444}, 0, 5) {
		sz := KeyShareSize(uint16(g))
		if sz < 0 {
			sz = 1 + n(40)
		}
		if g == 0x0a0a {
			sz = 1
		}
		shares = append(shares, tls.KeyShare{Group: g, Data: randBytes(rg, sz)})
	}
	algs := make([]tls.CertCompressionAlgo, 1+bn(6, 126))
	for i := range algs {
		algs[i] = tls.CertCompressionAlgo(rg.Intn(65536))
	}
	vers := u16list(bn(8, 126))
	nid := 1 + n(2)
	fpsk := &tls.FakePreSharedKeyExtension{}
	for i := 0; i < nid; i++ {
		fpsk.Identities = append(fpsk.Identities, tls.PskIdentity{Label: randBytes(rg, 1+bn(300, 2000)), ObfuscatedTicketAge: rg.Uint32()})
		fpsk.Binders = append(fpsk.Binders, randBytes(rg, []int{32, 48}[rg.Intn(2)]))
	}
	ech := tls.BoringGREASEECH()
	if rg.Intn(2) == 0 {
		// every (KDF, AEAD) pair the HPKE registry names for ECH: HKDF-SHA256/384/512 x
		// AES-128-GCM/AES-256-GCM/ChaCha20-Poly1305; several candidates, several lengths
		var cands []tls.HPKESymmetricCipherSuite
		for k := 0; k < 1+rg.Intn(3); k++ {
			cands = append(cands, tls.HPKESymmetricCipherSuite{KdfId: []uint16{1, 2, 3}[rg.Intn(3)], AeadId: []uint16{1, 2, 3}[rg.Intn(3)]})
		}
		var lens []uint16
		for k := 0; k < 1+rg.Intn(3); k++ {
			lens = append(lens, uint16(n(300)))
		}
		ech = &tls.GREASEEncryptedClientHelloExtension{CandidateCipherSuites: cands, CandidatePayloadLens: lens}
	}
	host := []string{"", "example.test", "192.0.2.1", "a.b.c.test.", sniOfLen(3+n(250), 1)}[rg.Intn(5)]
	pad := &tls.UtlsPaddingExtension{PaddingLen: bn(600, 4000), WillPad: rg.Intn(4) != 0}
	return []tls.TLSExtension{
		&tls.SNIExtension{ServerName: host},
		&tls.StatusRequestExtension{},
		&tls.SupportedCurvesExtension{Curves: curves(bn(12, 600))},
		&tls.SupportedPointsExtension{SupportedPoints: randBytes(rg, 1+bn(4, 254))},
		&tls.SignatureAlgorithmsExtension{SupportedSignatureAlgorithms: sigs(bn(20, 600))},
		&tls.StatusRequestV2Extension{},
		&tls.SignatureAlgorithmsCertExtension{SupportedSignatureAlgorithms: sigs(bn(20, 600))},
		&tls.ALPNExtension{AlpnProtocols: protos()},
		&tls.ApplicationSettingsExtension{SupportedProtocols: protos()},
		&tls.ApplicationSettingsExtensionNew{SupportedProtocols: protos()},
		&tls.SCTExtension{},
		&tls.GenericExtension{Id: uint16(0x8000 + rg.Intn(4096)), Data: randBytes(rg, bn([]int{0, 10, 2000}[rg.Intn(3)], 60000))},
		&tls.ExtendedMasterSecretExtension{},
		&tls.UtlsGREASEExtension{Value: 0x0a0a + uint16(rg.Intn(16))*0x1010, Body: randBytes(rg, n(3))},
		pad,
		&tls.UtlsCompressCertExtension{Algorithms: algs},
		&tls.KeyShareExtension{KeyShares: shares},
		&tls.QUICTransportParametersExtension{TransportParameters: genTPList(rg)},
		&tls.PSKKeyExchangeModesExtension{Modes: randBytes(rg, 1+bn(3, 254))},
		&tls.SupportedVersionsExtension{Versions: vers},
		&tls.CookieExtension{Cookie: randBytes(rg, 1+bn(500, 60000))},
		&tls.NPNExtension{},
		&tls.RenegotiationInfoExtension{RenegotiatedConnection: randBytes(rg, []int{0, 0, 12, 36}[rg.Intn(4)])},
		&tls.FakeChannelIDExtension{OldExtensionID: rg.Intn(2) == 0},
		&tls.FakeRecordSizeLimitExtension{Limit: uint16(rg.Intn(65536))},
		&tls.FakeTokenBindingExtension{MajorVersion: byte(n(3)), MinorVersion: byte(n(20)), KeyParameters: randBytes(rg, 1+n(4))},
		&tls.FakeDelegatedCredentialsExtension{SupportedSignatureAlgorithms: sigs(bn(8, 600))},
		&tls.SessionTicketExtension{Ticket: randBytes(rg, bn([]int{0, 50, 300}[rg.Intn(3)], 30000)), Initialized: true},
		fpsk,
		&tls.UtlsPreSharedKeyExtension{OmitEmptyPsk: true}, // uninitialised real PSK: documented zero-length encoding
		ech,
		realPSK(rg),
	}
}

// realPSK: the real pre_shared_key extension in every combination of its exported fields
// (with / without a session, 0..3 identities and binders, both OmitEmptyPsk settings).
func realPSK(rg *rand.Rand) tls.TLSExtension {
	e := &tls.UtlsPreSharedKeyExtension{OmitEmptyPsk: rg.Intn(4) != 0}
	if rg.Intn(3) != 0 {
		e.Session = &tls.SessionState{}
	}
	ni := rg.Intn(4)
	for i := 0; i < ni; i++ {
		e.Identities = append(e.Identities, tls.PskIdentity{Label: randBytes(rg, 1+rg.Intn(300)), ObfuscatedTicketAge: rg.Uint32()})
	}
	nb := ni // one binder per identity (RFC 8446); or none at all yet
	if rg.Intn(5) == 0 {
		nb = 0
	}
	for i := 0; i < nb; i++ {
		e.Binders = append(e.Binders, randBytes(rg, []int{32, 48, 64}[rg.Intn(3)]))
	}
	return e
}

// C08 — Every extension's encoder and decoder agree.
func TestC08(t *testing.T) {
	r := mon.New("C08", "every built-in TLSExtension type (31 structs) x generated field values (lists of 1..n entries, boundary lengths): Len() vs bytes Read() writes into a canary-tailed buffer that is pre-filled with 0x00 / 0xFF / 0xA7 (the encoding must not depend on it), the same after the exported fields were changed following a first Len() call, header/inner length prefixes under the strict grammar, io.ErrShortBuffer on every shorter buffer (all sizes for n<=96, sampled above), and for writers Read(Write(body)) reproduces the bytes modulo the documented normalisations (independent normaliser). distinct = (type, encoded length) pairs")
	defer r.Finish(t)
	rounds := mon.Pick(3000, 300000)
	rewrites := 0
	typesSeen := map[string]int{}
	for i := 0; i < rounds; i++ {
		rg := Sub("C08", i)
		for _, e := range genExtValues(rg) {
			tn := fmt.Sprintf("%T", e)
			typesSeen[tn]++
			viol := func(kind, what string, enc []byte) {
				r.Violation(map[string]string{"kind": kind, "type": tn}, tn+": "+what, map[string]any{"case": i, "encoded": mon.Hex(enc)})
			}
			var n int
			pn, pv := recoverPanic(func() { n = e.Len() })
			if pn {
				viol("len_panic", fmt.Sprint(pv), nil)
				continue
			}
			buf := make([]byte, n+16)
			for k := n; k < len(buf); k++ {
				buf[k] = 0xC5
			}
			// the destination is the caller's buffer: it may hold anything (a reused buffer)
			dirt := []byte{0x00, 0xFF, 0xA7}[(i+len(tn))%3]
			for k := 0; k < n; k++ {
				buf[k] = dirt
			}
			var got int
			var rerr error
			pn, pv = recoverPanic(func() { got, rerr = e.Read(buf) })
			if pn {
				viol("read_panic", fmt.Sprint(pv), nil)
				continue
			}
			if n == 0 && errors.Is(rerr, tls.ErrEmptyPsk) {
				r.Case(tn+"|refused-empty-psk", true)
				continue // documented: an empty real PSK is refused unless OmitEmptyPsk is set
			}
			if dirt != 0 && !pn && (rerr == nil || rerr == io.EOF) && got == n {
				clean := make([]byte, n)
				if g2, _ := e.Read(clean); g2 == n && !bytes.Equal(clean, buf[:n]) {
					viol("read_leaves_bytes_unwritten", fmt.Sprintf("Read reports %d bytes but the encoding depends on what the buffer held before (zeroed: %x, filled with %#02x: %x)", n, clean, dirt, buf[:n]), buf[:n])
					copy(buf, clean)
				}
				r.Count("dirty_buffer_reads", 1)
			}
			if rerr != nil && rerr != io.EOF {
				viol("read_error", fmt.Sprintf("Read into a sufficient buffer: %v", rerr), nil)
				continue
			}
			if got != n {
				viol("len_read_mismatch", fmt.Sprintf("Len()=%d but Read wrote %d", n, got), buf[:n])
			}
			for k := n; k < len(buf); k++ {
				if buf[k] != 0xC5 {
					viol("read_overrun", fmt.Sprintf("Read wrote beyond Len()=%d (offset %d)", n, k), buf)
					break
				}
			}
			enc := buf[:n]
			r.Case(fmt.Sprintf("%s|%d", tn, n), n > 0)
			if n == 0 {
				continue // documented zero-length encodings
			}
			if n < 4 {
				viol("encoding_too_short", fmt.Sprintf("%d encoded bytes", n), enc)
				continue
			}
			ty := uint16(enc[0])<<8 | uint16(enc[1])
			bl := int(enc[2])<<8 | int(enc[3])
			if bl != n-4 {
				viol("extension_length_prefix", fmt.Sprintf("extension length prefix %d, body %d", bl, n-4), enc)
				continue
			}
			if x, ok := ExpectFor(e); ok && !x.GreaseTy && x.Type != ty {
				viol("extension_type", fmt.Sprintf("type %d on the wire, expected %d", ty, x.Type), enc)
			}
			pch, perr := wire.ParseExtension(ty, enc[4:])
			if perr != nil {
				viol("inner_grammar", "body does not parse under the RFC grammar: "+perr.Error(), enc)
				continue
			}
			// shorter buffers
			sizes := []int{}
			if n <= 96 {
				for k := 0; k < n; k++ {
					sizes = append(sizes, k)
				}
			} else {
				sizes = []int{0, 1, 3, 4, 5, n / 2, n - 2, n - 1}
			}
			for _, k := range sizes {
				sb := make([]byte, k)
				var g int
				var serr error
				pn, pv := recoverPanic(func() { g, serr = e.Read(sb) })
				if pn {
					viol("short_buffer_panic", fmt.Sprintf("Read into %d of %d bytes panicked: %v", k, n, pv), enc)
					break
				}
				if !errors.Is(serr, io.ErrShortBuffer) || g != 0 {
					viol("short_buffer_not_refused", fmt.Sprintf("Read into %d of %d bytes returned (%d, %v)", k, n, g, serr), enc)
					break
				}
			}
			// writers: decode the body and encode again
			w, isWriter := tls.ExtensionFromID(ty).(tls.TLSExtensionWriter)
			if _, isPSK := e.(*tls.UtlsPreSharedKeyExtension); isPSK {
				w, isWriter = &tls.UtlsPreSharedKeyExtension{}, true
			}
			if !isWriter || fmt.Sprintf("%T", w) != tn {
				continue
			}
			var werr error
			pn, pv = recoverPanic(func() { _, werr = w.Write(enc[4:]) })
			if pn {
				viol("write_panic", fmt.Sprint(pv), enc)
				continue
			}
			if werr != nil {
				// decoders may refuse values the property excludes (e.g. SNI with a trailing dot)
				if tn == "*tls.SNIExtension" || tn == "*tls.GREASEEncryptedClientHelloExtension" && len(pch.ECH.Payload) < 16 {
					continue
				}
				viol("write_rejects_own_encoding", "Write rejects a body Read produced: "+werr.Error(), enc)
				continue
			}
			switch tn {
			case "*tls.SNIExtension", "*tls.SessionTicketExtension", "*tls.RenegotiationInfoExtension", "*tls.UtlsPreSharedKeyExtension", "*tls.UtlsPaddingExtension":
				continue // documented: name / ticket dropped, bodies ignored, padding recomputed
			}
			m := w.Len()
			out := make([]byte, m)
			if g, _ := w.Read(out); g != m {
				viol("reencode_len_read_mismatch", fmt.Sprintf("after Write: Len()=%d, Read wrote %d", m, g), out)
				continue
			}
			if m < 4 {
				viol("reencode_empty", "re-encoding is empty", enc)
				continue
			}
			// decoding the same body once more into the same object (an importer that reuses
			// its extension objects) must not change what it encodes to: same size, and for
			// types without regenerated material the same bytes
			{
				var werr2 error
				pn2, pv2 := recoverPanic(func() { _, werr2 = w.Write(enc[4:]) })
				if pn2 || werr2 != nil {
					viol("second_write_fails", fmt.Sprintf("a second Write of the same body into the same object: panic=%v err=%v", pv2, werr2), enc)
					continue
				}
				out2 := make([]byte, w.Len())
				w.Read(out2)
				if len(out2) != len(out) || (tn != "*tls.GREASEEncryptedClientHelloExtension" && tn != "*tls.KeyShareExtension" && !bytes.Equal(out2, out)) {
					viol("second_write_changes_encoding", fmt.Sprintf("decoding the same body twice into one object changes its encoding: %d -> %d bytes", len(out), len(out2)), enc)
					continue
				}
				rewrites++
			}
			if tn == "*tls.KeyShareExtension" {
				// documented: non-GREASE key data is dropped (regenerated by ApplyPreset), so the
				// re-encoding is not a complete key_share yet: compare the group sequence only
				if a, b := groupsOnly(pch), groupsOfRaw(out[4:]); a != b {
					viol("roundtrip_differs", fmt.Sprintf("key_share groups %s -> %s", a, b), enc)
				}
				continue
			}
			pch2, perr2 := wire.ParseExtension(uint16(out[0])<<8|uint16(out[1]), out[4:])
			if perr2 != nil {
				viol("reencode_grammar", perr2.Error(), out)
				continue
			}
			a := NormExt(pch, wire.Ext{Type: ty, Data: enc[4:]})
			b := NormExt(pch2, wire.Ext{Type: uint16(out[0])<<8 | uint16(out[1]), Data: out[4:]})

			if tn == "*tls.UtlsGREASEExtension" {
				if !bytes.Equal(out[4:], enc[4:]) || !wire.IsGREASE(uint16(out[0])<<8|uint16(out[1])) {
					viol("roundtrip_differs", fmt.Sprintf("GREASE extension re-encodes to %x", out), enc)
				}
				continue
			}
			if a != b {
				viol("roundtrip_differs", fmt.Sprintf("decode+encode changes the extension: %s -> %s", trunc(a, 200), trunc(b, 200)), enc)
			}
		}
	}
	// field values changed after a first Len(): the statement quantifies over field values,
	// whatever the object was asked before
	for i := 0; i < rounds/4; i++ {
		es1, es2 := genExtValues(Sub("C08", i)), genExtValues(Sub("C08second", i))
		for k := range es1 {
			a, b := es1[k], es2[k]
			tn := fmt.Sprintf("%T", a)
			if fmt.Sprintf("%T", b) != tn {
				continue
			}
			if pn, _ := recoverPanic(func() { a.Len() }); pn {
				continue
			}
			va, vb := reflect.ValueOf(a).Elem(), reflect.ValueOf(b).Elem()
			if va.Kind() != reflect.Struct {
				continue
			}
			for f := 0; f < va.NumField(); f++ {
				if va.Type().Field(f).IsExported() && va.Field(f).CanSet() {
					va.Field(f).Set(vb.Field(f))
				}
			}
			var n, got int
			var rerr error
			var buf []byte
			pn, pv := recoverPanic(func() {
				n = a.Len()
				buf = make([]byte, n+8)
				got, rerr = a.Read(buf)
			})
			if pn {
				r.Violation(map[string]string{"kind": "panic_after_field_change", "type": tn}, fmt.Sprintf("%s: %v", tn, pv), map[string]any{"case": i})
				continue
			}
			r.Count("field_change_cases", 1)
			if n == 0 && errors.Is(rerr, tls.ErrEmptyPsk) {
				continue
			}
			if (rerr == nil || rerr == io.EOF) && got != n {
				r.Violation(map[string]string{"kind": "len_read_mismatch_after_field_change", "type": tn},
					fmt.Sprintf("%s: after its exported fields were changed following a first Len() call, Len()=%d but Read wrote %d", tn, n, got), map[string]any{"case": i, "encoded": mon.Hex(buf[:min(got, len(buf))])})
			}
		}
	}
	for tn, c := range typesSeen {
		r.Count("type_"+tn, int64(c))
	}
	r.Count("types_covered", int64(len(typesSeen)))
	r.Count("second_writes_into_the_same_object", int64(rewrites))
	r.Floor("second_writes_into_the_same_object", 1000)
	r.Floor("types_covered", 31)
}

func groupsOnly(ch *wire.ClientHello) string {
	s := ""
	for _, k := range ch.KeyShares {
		s += fmt.Sprintf("%04x,", g16(k.Group))
		if wire.IsGREASE(k.Group) {
			s += fmt.Sprintf("[%x],", k.Key) // only non-GREASE key data is documented as dropped
		}
	}
	return s
}

func trunc(s string, n int) string {
	if len(s) > n {
		return s[:n] + "…"
	}
	return s
}

func groupsOfRaw(b []byte) string {
	s := ""
	if len(b) < 2 {
		return "?"
	}
	b = b[2:]
	for len(b) >= 4 {
		g := uint16(b[0])<<8 | uint16(b[1])
		l := int(b[2])<<8 | int(b[3])
		if len(b) < 4+l {
			return s + "?"
		}
		s += fmt.Sprintf("%04x,", g16(g))
		if wire.IsGREASE(g) {
			s += fmt.Sprintf("[%x],", b[4:4+l])
		}
		b = b[4+l:]
	}
	return s
}
