package props

import (
	"context"
	"errors"
	"fmt"
	"math/rand"
	"strings"
	"sync/atomic"
	"testing"
	"time"

	tls "github.com/refraction-networking/utls"
	"verifharness/mon"
	"verifharness/peer"
	"verifharness/wire"
)

const quicCallBound = 10 * time.Second

// bounded runs f in its own goroutine and reports whether it returned in time.  A call that
// has not returned counts as stuck only if its goroutine is parked (goroutine-state rule
// of hostile.go); if it is running/runnable the machine is slow and slowCalls is bumped so
// that the run is reported as inconclusive instead.
var quicSlowCalls atomic.Int64

func bounded(f func() error) (err error, returned bool) {
	o := runBounded(quicCallBound, f)
	if o.Returned {
		if o.Panic != "" {
			panic(o.Panic)
		}
		return o.Err, true
	}
	if !parkedState(o.State) {
		quicSlowCalls.Add(1)
	}
	return nil, false
}

type quicSide struct {
	name   string
	next   func() tls.QUICEvent
	handle func(l tls.QUICEncryptionLevel, d []byte) error
	events []string
	// observations
	writeSecret map[tls.QUICEncryptionLevel]int // event index
	readSecret  map[tls.QUICEncryptionLevel]int
	doneAt      int
	tpEvents    int
	crypto      map[tls.QUICEncryptionLevel][]byte
	firstCrypto []byte
}

func newSide(name string) *quicSide {
	return &quicSide{name: name, writeSecret: map[tls.QUICEncryptionLevel]int{}, readSecret: map[tls.QUICEncryptionLevel]int{}, doneAt: -1, crypto: map[tls.QUICEncryptionLevel][]byte{}}
}

// handshakeMsgsOK: the concatenated CRYPTO data of one level is a sequence of complete
// handshake messages with known types.
func handshakeMsgsOK(b []byte) string {
	for len(b) > 0 {
		if len(b) < 4 {
			return fmt.Sprintf("trailing %d bytes", len(b))
		}
		switch b[0] {
		case 1, 2, 4, 8, 11, 13, 15, 20, 24, 25:
		default:
			return fmt.Sprintf("unexpected handshake type %d", b[0])
		}
		l := int(b[1])<<16 | int(b[2])<<8 | int(b[3])
		if len(b) < 4+l {
			return fmt.Sprintf("truncated message of type %d", b[0])
		}
		b = b[4+l:]
	}
	return ""
}

type quicRun struct {
	cli, srv     *quicSide
	err          error
	hang         string
	startErr     error
	completed    bool
	tpRequests   int
	orderSig     string
	cancelledAt  int
	closeErr     error
	clientEvents int
	// wrongLevelErrs: HandleData calls of the wrong-level injection that returned an error
	wrongLevelErrs int
	cliState       tls.ConnectionState
}

// driveQUIC pumps a UQUICConn client against a QUICServer with a PRNG-chosen order.
// quicOpts: further knobs of one driven QUIC handshake.
type quicOpts struct {
	beforeStart func() // runs after ApplyPreset / SetTransportParameters, before Start
	// wrongLevelAt: at this pump step CRYPTO data is handed to the client at every
	// encryption level in turn (at least two of them are not the level it expects)
	wrongLevelAt int
	serverPlan   *tls.VerifPlan // hooks for the QUIC server's connection
	neverStart   bool           // Start is not called at all; HandleData / Close must still return
	tpOnRequest  bool           // SetTransportParameters only in answer to QUICTransportParametersRequired
}

func driveQUIC(rg *rand.Rand, ccfg *tls.Config, spec *tls.ClientHelloSpec, scfg *tls.Config, cancelAt int, fragment bool, qo quicOpts) *quicRun {
	beforeStart := qo.beforeStart
	run := &quicRun{cli: newSide("client"), srv: newSide("server"), cancelledAt: -1}
	ctx, cancel := context.WithCancel(context.Background())
	defer cancel()
	if cancelAt == 0 {
		cancel() // the context is already done when Start is called
		run.cancelledAt = 0
	} else if cancelAt == -2 {
		var c2 context.CancelFunc
		ctx, c2 = context.WithDeadline(context.Background(), time.Now().Add(-time.Second))
		defer c2()
		run.cancelledAt = 0
	}
	q := tls.UQUICClient(&tls.QUICConfig{TLSConfig: ccfg}, tls.HelloCustom)
	if err := q.ApplyPreset(spec); err != nil {
		run.startErr = fmt.Errorf("ApplyPreset: %w", err)
		run.err = run.startErr
		return run
	}
	if !qo.tpOnRequest {
		q.SetTransportParameters([]byte{})
	}
	if beforeStart != nil {
		beforeStart()
	}
	s := tls.QUICServer(&tls.QUICConfig{TLSConfig: scfg})
	if qo.serverPlan != nil {
		tls.VerifAttachQUIC(s, qo.serverPlan)
	}
	s.SetTransportParameters([]byte{0x01, 0x01, 0x05})
	run.cli.next, run.cli.handle = q.NextEvent, q.HandleData
	run.srv.next, run.srv.handle = s.NextEvent, s.HandleData
	closeAll := func() {
		if e, ok := bounded(q.Close); !ok {
			run.hang = "UQUICConn.Close"
		} else {
			run.closeErr = e
		}
		bounded(s.Close)
	}
	var ok bool
	if qo.neverStart {
		// a caller that never calls Start (e.g. because an earlier step of its own failed)
		// and then feeds data / closes: the calls must return
		run.startErr, ok = errors.New("verif: Start was never called"), true
	} else if run.startErr, ok = bounded(func() error { return q.Start(ctx) }); !ok {
		run.hang = "UQUICConn.Start"
		cancel()
		return run
	}
	if run.startErr != nil {
		run.err = run.startErr
		// a caller that goes on feeding CRYPTO data (or closes first and feeds then): the
		// calls must still return
		feed := func() error { return q.HandleData(tls.QUICEncryptionLevelInitial, []byte{2, 0, 0, 0}) }
		if rg.Intn(2) == 0 {
			if _, ok := bounded(feed); !ok {
				run.hang = "UQUICConn.HandleData after a failed Start"
				return run
			}
			closeAll()
		} else {
			closeAll()
			if run.hang == "" {
				if _, ok := bounded(feed); !ok {
					run.hang = "UQUICConn.HandleData after a failed Start and Close"
				}
			}
		}
		return run
	}
	if e, ok := bounded(func() error { return s.Start(context.Background()) }); !ok || e != nil {
		run.err = fmt.Errorf("server start: %v", e)
		closeAll()
		return run
	}
	var order strings.Builder
	idle := 0
	idleSides := map[string]bool{}
	a, b := run.cli, run.srv
	step := 0
	srvDone, cliDone := false, false
	for step < 2000 {
		step++
		if cancelAt >= 0 && step == cancelAt {
			cancel()
			run.cancelledAt = step
		}
		if qo.wrongLevelAt > 0 && step == qo.wrongLevelAt {
			for _, lvl := range []tls.QUICEncryptionLevel{tls.QUICEncryptionLevelHandshake, tls.QUICEncryptionLevelApplication, tls.QUICEncryptionLevelInitial} {
				lvl := lvl
				herr, ok := bounded(func() error { return q.HandleData(lvl, []byte{2, 0, 0, 1, 0}) })
				if !ok {
					run.hang = fmt.Sprintf("UQUICConn.HandleData at level %v (step %d of the handshake)", lvl, step)
					cancel()
					return run
				}
				if herr != nil {
					run.wrongLevelErrs++
				}
			}
			run.err = fmt.Errorf("CRYPTO data injected at the wrong levels (%d calls returned an error)", run.wrongLevelErrs)
			run.orderSig = order.String()
			closeAll()
			return run
		}
		// PRNG-chosen side (bias towards the side that has work: swap on idle)
		if rg.Intn(4) == 0 {
			a, b = b, a
		}
		e := a.next()
		if e.Kind == tls.QUICNoEvent {
			// finished only when BOTH sides are idle one after the other
			idleSides[a.name] = true
			a, b = b, a
			if idleSides["client"] && idleSides["server"] {
				idle++
				if idle >= 2 {
					break
				}
				idleSides = map[string]bool{}
			}
			continue
		}
		idle = 0
		idleSides = map[string]bool{}
		idx := len(a.events)
		a.events = append(a.events, fmt.Sprintf("%d/%v", e.Kind, e.Level))
		order.WriteString(fmt.Sprintf("%s%d,", a.name[:1], e.Kind))
		switch e.Kind {
		case tls.QUICSetWriteSecret:
			if _, dup := a.writeSecret[e.Level]; !dup {
				a.writeSecret[e.Level] = idx
			}
		case tls.QUICSetReadSecret:
			if _, dup := a.readSecret[e.Level]; !dup {
				a.readSecret[e.Level] = idx
			}
		case tls.QUICHandshakeDone:
			a.doneAt = idx
			if a == run.srv {
				srvDone = true
			} else {
				cliDone = true
			}
		case tls.QUICTransportParameters:
			a.tpEvents++
		case tls.QUICTransportParametersRequired:
			if a == run.cli && qo.tpOnRequest {
				// the application supplies its parameters when it is asked for them
				if _, ok := bounded(func() error { q.SetTransportParameters([]byte{}); return nil }); !ok {
					run.hang = "UQUICConn.SetTransportParameters (answering QUICTransportParametersRequired)"
					cancel()
					return run
				}
				run.tpRequests++
			} else {
				run.err = fmt.Errorf("%s: unexpected QUICTransportParametersRequired", a.name)
			}
		case tls.QUICWriteData:
			data := append([]byte(nil), e.Data...)
			a.crypto[e.Level] = append(a.crypto[e.Level], data...)
			if a == run.cli && a.firstCrypto == nil {
				a.firstCrypto = data
			}
			pieces := [][]byte{data}
			if fragment && len(data) > 8 {
				cut := 1 + rg.Intn(len(data)-1)
				pieces = [][]byte{data[:cut], data[cut:]}
			}
			for _, p := range pieces {
				p := p
				lvl := e.Level
				herr, ok := bounded(func() error { return b.handle(lvl, p) })
				if !ok {
					run.hang = b.name + ".HandleData"
					cancel()
					return run
				}
				if herr != nil {
					run.err = fmt.Errorf("%s.HandleData: %w", b.name, herr)
					run.orderSig = order.String()
					closeAll()
					return run
				}
			}
		}
		if run.err != nil {
			break
		}
	}
	run.completed = srvDone && cliDone && run.err == nil
	run.cliState = q.ConnectionState()
	run.orderSig = order.String()
	run.clientEvents = len(run.cli.events)
	closeAll()
	return run
}

// C23 — QUIC clients complete the handshake through the event API and never hang.
func TestC23(t *testing.T) {
	r := mon.New("C23", "generated TLS 1.3-only QUIC ClientHello specs (quic_transport_parameters incl. GREASE parameters) x QUIC server configs (incl. HelloRetryRequest) x PRNG-chosen event-pump orders and CRYPTO fragmentation x failure injections (unbuildable config: no ServerName, empty PSK without OmitEmptyPsk, two padding extensions; a Config whose MinVersion Start refuses; HandleData and Close in both orders after a failed Start; server alert; CRYPTO data handed over at the wrong encryption levels at a random step of the handshake; context cancelled at a random step, already cancelled / past its deadline before Start): trace specification over the NextEvent streams of both sides; every Start/HandleData/Close runs in its own goroutine and must return within 10 s. Race detector on. distinct = event-order signatures")
	defer r.Finish(t)
	n := mon.Pick(400, 30000)
	orders := map[string]bool{}
	hangs := 0
	for i := 0; i < n; i++ {
		rg := Sub("C23", i)
		spec, _ := GenSpec(rg, GenOpts{QUIC: true, ForHandshake: true})
		var protos []string
		var kshare []tls.CurveID
		var listed []tls.CurveID
		for _, e := range spec.Extensions {
			switch v := e.(type) {
			case *tls.ALPNExtension:
				protos = v.AlpnProtocols
			case *tls.KeyShareExtension:
				for _, k := range v.KeyShares {
					kshare = append(kshare, k.Group)
				}
			case *tls.SupportedCurvesExtension:
				listed = v.Curves
			}
		}
		scenario := []string{"ok", "ok", "ok", "hrr", "no-servername", "empty-psk", "two-paddings", "server-alert", "cancel", "cancel", "minversion-below-1.3", "wrong-level", "never-started", "ech-accepted"}[i%14]
		ccfg := &tls.Config{ServerName: "example.test", RootCAs: peer.Fix().CA.Pool, Time: peer.FixedTime, MinVersion: tls.VersionTLS13, NextProtos: protos}
		scfg := peer.ServerConfig()
		scfg.MinVersion = tls.VersionTLS13
		scfg.NextProtos = protos[:1]
		cancelAt := -1
		switch scenario {
		case "hrr":
			var g tls.CurveID
			for _, l := range listed {
				has := false
				for _, k := range kshare {
					if k == l {
						has = true
					}
				}
				if !has && (l == tls.X25519 || l == tls.CurveP256 || l == tls.CurveP384 || l == tls.CurveP521) {
					g = l
				}
			}
			if g == 0 {
				scenario = "ok"
			} else {
				scfg.CurvePreferences = []tls.CurveID{g}
			}
		case "minversion-below-1.3":
			ccfg.MinVersion = []uint16{0, tls.VersionTLS12, tls.VersionTLS10}[rg.Intn(3)] // Start refuses such a Config
		case "no-servername":
			ccfg.ServerName = ""
		case "empty-psk":
			spec.Extensions = append(spec.Extensions, &tls.UtlsPreSharedKeyExtension{})
			ccfg.ClientSessionCache = tls.NewLRUClientSessionCache(1)
		case "two-paddings":
			spec.Extensions = append(spec.Extensions, &tls.UtlsPaddingExtension{GetPaddingLen: tls.BoringPaddingStyle}, &tls.UtlsPaddingExtension{GetPaddingLen: tls.BoringPaddingStyle})
		case "server-alert":
			scfg.NextProtos = []string{"verif-no-overlap"}
		case "cancel":
			cancelAt = 1 + rg.Intn(12)
			switch rg.Intn(4) {
			case 0:
				cancelAt = 0 // already cancelled before Start
			case 1:
				cancelAt = -2 // deadline already exceeded before Start
			}
		}
		var beforeStart func()
		if scenario == "minversion-below-1.3" {
			// (ApplyPreset writes the spec's versions into the Config; the caller lowers the
			// minimum afterwards)
			mv := ccfg.MinVersion
			beforeStart = func() { ccfg.MinVersion = mv }
		}
		qo := quicOpts{beforeStart: beforeStart}
		if scenario == "wrong-level" {
			qo.wrongLevelAt = 1 + rg.Intn(14)
		}
		if scenario == "never-started" {
			qo.neverStart = true
		}
		if scenario == "ech-accepted" {
			// a real ECH offer over QUIC: the inner hello is built by crypto/tls, which asks
			// the application for its transport parameters (they are supplied on request)
			key := gridECHKey()
			scfg.EncryptedClientHelloKeys = peer.ECHServerKeys(true, key)
			ccfg.EncryptedClientHelloConfigList = peer.ECHConfigList(key)
			spec.Extensions = append(spec.Extensions[:len(spec.Extensions):len(spec.Extensions)], tls.BoringGREASEECH())
			qo.tpOnRequest = true
			// (the inner hello offers crypto/tls's three TLS 1.3 suites whatever the spec says;
			// that mismatch is outside this property: let the outer hello offer them too)
			spec.CipherSuites = []uint16{tls.TLS_AES_128_GCM_SHA256, tls.TLS_AES_256_GCM_SHA384, tls.TLS_CHACHA20_POLY1305_SHA256}
		}
		run := driveQUIC(rg, ccfg, spec, scfg, cancelAt, rg.Intn(2) == 0, qo)
		sig := map[string]string{"scenario": scenario}
		rep := map[string]any{"case": i, "scenario": scenario, "start_err": fmt.Sprint(run.startErr), "err": fmt.Sprint(run.err), "client_events": run.cli.events, "server_events": run.srv.events, "cancelled_at": run.cancelledAt}
		if run.hang != "" {
			sig["kind"] = "call_did_not_return"
			sig["call"] = run.hang
			r.Violation(sig, fmt.Sprintf("scenario %s: %s did not return within %s", scenario, run.hang, quicCallBound), rep)
			r.Case("hang|"+scenario, true)
			hangs++
			if hangs >= 3 {
				// every further hang costs the full bound: three witnesses are enough
				r.Note("run cut short after 3 calls that did not return")
				break
			}
			continue
		}
		orders[run.orderSig] = true
		viol := func(kind, what string) {
			s := map[string]string{"kind": kind, "scenario": scenario}
			r.Violation(s, fmt.Sprintf("scenario %s: %s", scenario, what), rep)
		}
		switch scenario {
		case "ok", "hrr":
			if !run.completed {
				viol("quic_handshake_incomplete", fmt.Sprintf("handshake did not complete: start=%v err=%v", run.startErr, run.err))
				break
			}
			r.Count("completed", 1)
			if scenario == "hrr" {
				r.Count("completed_with_hrr", 1)
			}
			c := run.cli
			ch, err := wire.ParseClientHello(firstMsg(c.firstCrypto))
			if err != nil {
				viol("first_crypto_not_one_clienthello", "first CRYPTO data is not exactly one valid ClientHello: "+err.Error())
			} else {
				if len(firstMsg(c.firstCrypto)) != len(c.firstCrypto) {
					viol("first_crypto_not_one_clienthello", "first CRYPTO data holds more than one message")
				}
				if len(ch.SessionID) != 0 {
					viol("quic_session_id", fmt.Sprintf("QUIC ClientHello has a %d-byte legacy session id", len(ch.SessionID)))
				}
				if !ch.Has(wire.ExtQUICTP) {
					viol("quic_tp_missing", "ClientHello lacks quic_transport_parameters")
				}
			}
			for _, side := range []*quicSide{run.cli, run.srv} {
				for lvl, data := range side.crypto {
					if msg := handshakeMsgsOK(data); msg != "" {
						viol("crypto_not_handshake_messages", fmt.Sprintf("%s CRYPTO data at level %v: %s", side.name, lvl, msg))
					}
				}
				for _, lvl := range []tls.QUICEncryptionLevel{tls.QUICEncryptionLevelHandshake, tls.QUICEncryptionLevelApplication} {
					w, okw := side.writeSecret[lvl]
					rd, okr := side.readSecret[lvl]
					if !okw || !okr {
						viol("secret_missing", fmt.Sprintf("%s: level %v write secret %v read secret %v", side.name, lvl, okw, okr))
					} else if side == run.cli && w > rd {
						viol("read_secret_before_write_secret", fmt.Sprintf("client: level %v read secret (event %d) before write secret (event %d)", lvl, rd, w))
					}
				}
				if rd, ok := side.readSecret[tls.QUICEncryptionLevelApplication]; ok && side == run.cli && (side.doneAt < 0 || rd < side.doneAt) {
					viol("one_rtt_read_secret_before_handshake_done", fmt.Sprintf("client: 1-RTT read secret at event %d, HandshakeDone at %d", rd, side.doneAt))
				}
				if side.tpEvents != 1 {
					viol("transport_parameters_events", fmt.Sprintf("%s received %d QUICTransportParameters events", side.name, side.tpEvents))
				}
			}
		case "no-servername", "empty-psk", "two-paddings", "minversion-below-1.3":
			if run.startErr == nil {
				viol("start_accepts_unbuildable_hello", "Start returned nil although the ClientHello cannot be built")
			} else {
				r.Count("unbuildable_reported", 1)
			}
		case "ech-accepted":
			if !run.completed {
				viol("quic_handshake_incomplete", fmt.Sprintf("QUIC handshake with an ECH offer did not complete (transport parameters requested %d time(s)): start=%v err=%v", run.tpRequests, run.startErr, run.err))
			} else {
				r.Count("completed_with_ech_offer", 1)
			}
		case "never-started":
			r.Count("never_started_runs", 1)
		case "wrong-level":
			if run.wrongLevelErrs >= 2 {
				r.Count("wrong_level_deliveries_refused", 1)
			} else if run.err != nil && strings.HasPrefix(run.err.Error(), "CRYPTO data injected") {
				viol("wrong_level_data_accepted", fmt.Sprintf("CRYPTO data handed over at three different levels, only %d call(s) returned an error", run.wrongLevelErrs))
			}
		case "server-alert":
			if run.completed || run.err == nil {
				viol("server_alert_not_reported", "the server refused (no ALPN overlap) but the client reported no error")
			} else {
				r.Count("server_alert_reported", 1)
			}
		case "cancel":
			r.Count("cancel_runs", 1)
			if cancelAt == 0 || cancelAt == -2 {
				r.Count("cancelled_before_start_runs", 1)
			}
		}
		r.Case(scenario+"|"+run.orderSig, true)
		if i%37 == 0 {
			r.Sample(map[string]any{"scenario": scenario, "client_events": run.cli.events, "server_events": run.srv.events, "completed": run.completed})
		}
	}
	r.Count("distinct_event_orders", int64(len(orders)))
	if k := quicSlowCalls.Load(); k > 0 {
		// "did not return" verdicts of this run may stem from machine load
		r.Demote("call_did_not_return", fmt.Sprintf("%d QUIC call(s) exceeded %s while their goroutine was running/runnable (machine load)", k, quicCallBound))
		r.Inconclusive(fmt.Sprintf("%d QUIC call(s) exceeded %s while their goroutine was running/runnable (machine load)", k, quicCallBound))
	}
	r.Floor("completed", int64(n/4))
	r.Floor("completed_with_hrr", 3)
	r.Floor("distinct_event_orders", 10)
}

func firstMsg(b []byte) []byte {
	if len(b) < 4 {
		return b
	}
	l := int(b[1])<<16 | int(b[2])<<8 | int(b[3])
	if len(b) < 4+l {
		return b
	}
	return b[:4+l]
}
