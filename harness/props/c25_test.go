package props

import (
	"bytes"
	"fmt"
	"io"
	"os"
	"sync"
	"sync/atomic"
	"testing"
	"time"

	tls "github.com/refraction-networking/utls"
	"verifharness/mon"
	"verifharness/peer"
)

// allSuitesSpec: a custom spec offering every suite utls implements (so that the
// hooked server can negotiate each of them), with or without TLS 1.3.
func allSuitesSpec(weak bool) func() (*tls.ClientHelloSpec, error) {
	return func() (*tls.ClientHelloSpec, error) {
		s, err := tls.UTLSIdToSpec(tls.HelloChrome_102)
		if err != nil {
			return nil, err
		}
		suites := []uint16{0x1301, 0x1302, 0x1303}
		for _, cs := range append(tls.CipherSuites(), tls.InsecureCipherSuites()...) {
			if cs.ID < 0x1300 || cs.ID > 0x13ff {
				suites = append(suites, cs.ID)
			}
		}
		suites = append(suites, tls.OLD_TLS_ECDHE_RSA_WITH_CHACHA20_POLY1305_SHA256, tls.OLD_TLS_ECDHE_ECDSA_WITH_CHACHA20_POLY1305_SHA256)
		if weak {
			suites = append(suites, tls.DISABLED_TLS_RSA_WITH_AES_256_CBC_SHA256, tls.DISABLED_TLS_ECDHE_ECDSA_WITH_AES_256_CBC_SHA384, tls.DISABLED_TLS_ECDHE_RSA_WITH_AES_256_CBC_SHA384)
		}
		s.CipherSuites = suites
		s.TLSVersMin, s.TLSVersMax = tls.VersionTLS10, tls.VersionTLS13
		for _, e := range s.Extensions {
			if sv, ok := e.(*tls.SupportedVersionsExtension); ok {
				sv.Versions = []uint16{tls.GREASE_PLACEHOLDER, tls.VersionTLS13, tls.VersionTLS12, tls.VersionTLS11, tls.VersionTLS10}
			}
		}
		return &s, nil
	}
}

type xfer struct {
	sent, got []byte
	rerr      error
	werr      error
}

// pump writes the chunks on w and reads on r with the given buffer sizes until n bytes or error.
func pump(w io.Writer, r io.Reader, chunks [][]byte, bufSizes []int, between func(k int)) *xfer {
	x := &xfer{}
	for _, c := range chunks {
		x.sent = append(x.sent, c...)
	}
	var wg sync.WaitGroup
	wg.Add(1)
	go func() {
		defer wg.Done()
		for k, c := range chunks {
			if between != nil {
				between(k)
			}
			if err := writeAll(w, c); err != nil {
				x.werr = err
				return
			}
		}
	}()
	k := 0
	for len(x.got) < len(x.sent) {
		bs := bufSizes[k%len(bufSizes)]
		k++
		buf := make([]byte, bs)
		n, err := r.Read(buf)
		x.got = append(x.got, buf[:n]...)
		if err != nil {
			x.rerr = err
			break
		}
	}
	wg.Wait()
	return x
}

// C25 — Application data arrives intact and tampering is detected.
func TestC25(t *testing.T) {
	weak := os.Getenv("VERIF_WEAK") == "1"
	r := mon.New("C25", "every (version, suite) the hooked in-repo server can negotiate with a client offering all implemented suites (TLS 1.0-1.3; legacy ChaCha20 and, in a second process after EnableWeakCiphers, the weak CBC suites via hooks H4/H5) plus parrots x write-size sequences from {0,1,2,15,16,17,2^14-1,2^14,2^14+1,2^15,random} in both directions x read-buffer sizes x TLS 1.3 KeyUpdates sent by the server between writes (with/without update_requested), also coalesced with NewSessionTickets / further KeyUpdates into one record: bytes read are always a prefix of, and finally equal to, the bytes written. Tamper runs: one ciphertext byte of the k-th record flipped, or the record truncated, on the wire: the receiver returns an error and delivers nothing but the plaintext of the records before it. distinct = (version, suite, scenario)")
	defer r.Finish(t)
	if weak {
		tls.EnableWeakCiphers()
	}
	type combo struct {
		v     uint16
		suite uint16
		force bool
	}
	var combos []combo
	for _, cs := range append(tls.CipherSuites(), tls.InsecureCipherSuites()...) {
		for _, v := range cs.SupportedVersions {
			if weak && v != tls.VersionTLS12 {
				continue
			}
			combos = append(combos, combo{v, cs.ID, v == tls.VersionTLS13})
		}
	}
	// the legacy ChaCha20 code points, in both processes: enabling the weak suites takes none away
	combos = append(combos, combo{tls.VersionTLS12, tls.OLD_TLS_ECDHE_RSA_WITH_CHACHA20_POLY1305_SHA256, true}, combo{tls.VersionTLS12, tls.OLD_TLS_ECDHE_ECDSA_WITH_CHACHA20_POLY1305_SHA256, true})
	if weak {
		combos = append(combos, combo{tls.VersionTLS12, tls.DISABLED_TLS_RSA_WITH_AES_256_CBC_SHA256, true}, combo{tls.VersionTLS12, tls.DISABLED_TLS_ECDHE_ECDSA_WITH_AES_256_CBC_SHA384, true}, combo{tls.VersionTLS12, tls.DISABLED_TLS_ECDHE_RSA_WITH_AES_256_CBC_SHA384, true})
	}
	sizes := []int{0, 1, 2, 15, 16, 17, 16383, 16384, 16385, 32768, 150000} // the last one takes the writer past the ramp-up of dynamic record sizing, into full-size records
	client := Target{Name: "all-suites", Spec: allSuitesSpec(weak)}
	reps := mon.Pick(4, 300)
	type job struct {
		c        combo
		scenario string
		rep      int
	}
	var jobs []job
	for _, c := range combos {
		for rep := 0; rep < reps; rep++ {
			jobs = append(jobs, job{c, "transfer", rep}, job{c, "flip", rep}, job{c, "truncate", rep}, job{c, "close", rep}, job{c, "close-eof-with-data", rep}, job{c, "empty-records", rep})
			if c.v == tls.VersionTLS13 {
				jobs = append(jobs, job{c, "keyupdate", rep}, job{c, "coalesced", rep}, job{c, "upload-rekey", rep})
			}
		}
	}
	negotiated := map[string]bool{}
	var mu sync.Mutex
	parallel(len(jobs), func(i int) {
		j := jobs[i]
		rg := Sub("C25", i)
		scfg := peer.ServerConfig()
		scfg.MaxVersion = j.c.v
		plan := &tls.VerifPlan{}
		if j.c.v != tls.VersionTLS13 {
			// the leaf must match the suite's authentication (matters when the suite is forced by the hook)
			if suiteNeedsECDSA(j.c.suite) || j.c.suite == tls.OLD_TLS_ECDHE_ECDSA_WITH_CHACHA20_POLY1305_SHA256 || j.c.suite == tls.DISABLED_TLS_ECDHE_ECDSA_WITH_AES_256_CBC_SHA384 {
				scfg.Certificates = []tls.Certificate{peer.Fix().ECDSA}
			} else {
				scfg.Certificates = []tls.Certificate{peer.Fix().RSA}
			}
		}
		if j.c.v == tls.VersionTLS13 {
			plan.ForceSuite13 = j.c.suite
		} else if j.c.force {
			plan.ForceSuite12 = j.c.suite
		} else {
			scfg.CipherSuites = []uint16{j.c.suite}
		}
		// after the handshake the tap is armed by the scenario
		h := RunCase(client, GridCase{Server: scfg, Plan: plan}, "example.test", nil, peer.Opts{NoEcho: true, KeepOpen: true})
		defer func() {
			h.CEnd.Close()
			h.SEnd.Close()
		}()
		sig := map[string]string{"version": fmt.Sprintf("%04x", j.c.v), "suite": fmt.Sprintf("%04x", j.c.suite), "scenario": j.scenario}
		rep := map[string]any{"case": i, "version": j.c.v, "suite": j.c.suite, "scenario": j.scenario, "err": h.ErrString()}
		if h.ClientPanic != "" || h.ServerPanic != "" {
			sig["kind"] = "panic"
			r.Violation(sig, firstLine(h.ClientPanic+h.ServerPanic), rep)
			return
		}
		if !h.OK() {
			if allowed, class := classifyFailure(h); allowed {
				r.Count("combo_refused_by_server", 1)
			} else {
				sig["kind"] = "handshake_failed"
				sig["class"] = class
				r.Violation(sig, fmt.Sprintf("version %#04x suite %#04x: handshake failed (%s): %s", j.c.v, j.c.suite, class, h.ErrString()), rep)
			}
			return
		}
		if h.SState.CipherSuite != j.c.suite || h.SState.Version != j.c.v {
			r.Count("combo_not_negotiated", 1)
			return
		}
		mu.Lock()
		negotiated[fmt.Sprintf("%04x/%04x", j.c.v, j.c.suite)] = true
		mu.Unlock()
		dl := time.Now().Add(peer.IODeadline)
		h.CEnd.SetDeadline(dl)
		h.SEnd.SetDeadline(dl)
		mkChunks := func(n int) [][]byte {
			var out [][]byte
			for k := 0; k < n; k++ {
				sz := sizes[rg.Intn(len(sizes))]
				if rg.Intn(3) == 0 {
					sz = rg.Intn(40000)
				}
				out = append(out, randBytes(rg, sz))
			}
			out = append(out, randBytes(rg, 1+rg.Intn(100))) // make sure the stream is not empty
			return out
		}
		bufs := []int{1, 7, 100, 16384, 20000, 70000}
		rg.Shuffle(len(bufs), func(a, b int) { bufs[a], bufs[b] = bufs[b], bufs[a] })
		check := func(dir string, x *xfer, tampered bool, intactPrefix int) {
			if !bytes.HasPrefix(x.sent, x.got) {
				sig["kind"] = "data_altered"
				sig["dir"] = dir
				r.Violation(sig, fmt.Sprintf("%#04x/%#04x %s %s: the bytes read (%d) are not a prefix of the bytes written (%d)", j.c.v, j.c.suite, j.scenario, dir, len(x.got), len(x.sent)), rep)
				return
			}
			if !tampered {
				if len(x.got) != len(x.sent) || x.rerr != nil || x.werr != nil {
					sig["kind"] = "data_lost"
					sig["dir"] = dir
					r.Violation(sig, fmt.Sprintf("%#04x/%#04x %s %s: wrote %d bytes, read %d (read error %v, write error %v)", j.c.v, j.c.suite, j.scenario, dir, len(x.sent), len(x.got), x.rerr, x.werr), rep)
				}
				return
			}
			if x.rerr == nil {
				sig["kind"] = "tampering_not_detected"
				sig["dir"] = dir
				r.Violation(sig, fmt.Sprintf("%#04x/%#04x %s %s: a tampered record was accepted (read %d of %d bytes without error)", j.c.v, j.c.suite, j.scenario, dir, len(x.got), len(x.sent)), rep)
			} else if len(x.got) > intactPrefix {
				sig["kind"] = "plaintext_beyond_tampered_record"
				sig["dir"] = dir
				r.Violation(sig, fmt.Sprintf("%#04x/%#04x %s %s: %d plaintext bytes delivered although only %d precede the tampered record", j.c.v, j.c.suite, j.scenario, dir, len(x.got), intactPrefix), rep)
			} else {
				r.Count("tampering_detected", 1)
			}
		}
		switch j.scenario {
		case "transfer":
			x1 := pump(h.Client, h.Server, mkChunks(4), bufs, nil)
			check("c2s", x1, false, 0)
			x2 := pump(h.Server, h.Client, mkChunks(4), bufs, nil)
			check("s2c", x2, false, 0)
			r.Count("bytes_transferred", int64(len(x1.got)+len(x2.got)))
		case "close", "close-eof-with-data":
			// the sender writes its last data and closes at once, so that the final data record and
			// close_notify reach the receiver together; the receiver must still get every byte, then EOF
			if j.scenario == "close-eof-with-data" {
				// a transport whose last Read hands over the final bytes together with io.EOF
				h.CEnd.EOFWithData.Store(true)
				h.SEnd.EOFWithData.Store(true)
				r.Count("closes_on_a_transport_that_reports_eof_with_the_last_bytes", 1)
			}
			dir := []string{"s2c", "c2s"}[j.rep%2]
			var w io.WriteCloser = h.Server
			var rd io.Reader = h.Client
			if dir == "c2s" {
				w, rd = h.Client, h.Server
			}
			chunks := mkChunks(1 + rg.Intn(3))
			var sent []byte
			for _, c := range chunks {
				sent = append(sent, c...)
				if err := writeAll(w, c); err != nil {
					sig["kind"] = "write_failed"
					r.Violation(sig, err.Error(), rep)
					return
				}
			}
			w.Close()
			var got []byte
			var rerr error
			bs := []int{len(sent), len(sent) + 10, 1 << 15, 300, 17}[rg.Intn(5)]
			if bs == 0 {
				bs = 1
			}
			for {
				buf := make([]byte, bs)
				n, err := rd.Read(buf)
				got = append(got, buf[:n]...)
				if err != nil {
					rerr = err
					break
				}
			}
			if !bytes.Equal(got, sent) {
				sig["kind"] = "data_lost_at_close"
				sig["dir"] = dir
				r.Violation(sig, fmt.Sprintf("%#04x/%#04x %s: peer wrote %d bytes and closed; the reader got %d bytes before %v (buffer %d)", j.c.v, j.c.suite, dir, len(sent), len(got), rerr, bs), rep)
			} else if rerr != io.EOF {
				sig["kind"] = "close_not_eof"
				sig["dir"] = dir
				r.Violation(sig, fmt.Sprintf("%#04x/%#04x %s: orderly close reported as %v", j.c.v, j.c.suite, dir, rerr), rep)
			} else {
				r.Count("orderly_closes", 1)
			}
		case "keyupdate":
			upd := 0
			x := pump(h.Server, h.Client, mkChunks(6), bufs, func(k int) {
				if k > 0 && k%2 == 0 {
					if err := tls.VerifSendKeyUpdate(h.Server, k%4 == 0); err == nil {
						upd++
					}
				}
			})
			check("s2c", x, false, 0)
			// and the reverse direction still works after the client answered update requests
			x2 := pump(h.Client, h.Server, mkChunks(3), bufs, nil)
			check("c2s", x2, false, 0)
			r.Count("key_updates_sent", int64(upd))
		case "empty-records":
			// a peer that puts zero-length application_data records between its data (legal in
			// every version; some stacks use them as keep-alives or traffic-analysis cover):
			// they carry no bytes and must not disturb the stream
			sentEmpty := 0
			x := pump(h.Server, h.Client, mkChunks(6), bufs, func(k int) {
				for e := 0; e < 1+(k+j.rep)%3; e++ {
					if err := tls.VerifWriteEmptyRecord(h.Server, 23); err == nil {
						sentEmpty++
					}
				}
			})
			check("s2c", x, false, 0)
			x2 := pump(h.Client, h.Server, mkChunks(2), bufs, nil)
			check("c2s", x2, false, 0)
			r.Count("empty_application_data_records_sent", int64(sentEmpty))
		case "upload-rekey":
			// a long upload during which the server has nothing to say but rotates its sending
			// keys again and again (each KeyUpdate in a record of its own, no application data
			// from the server in between), then the response: it must arrive completely
			m := []int{5, 31, 32, 33, 48, 100}[(j.rep+i)%6]
			resp := randBytes(rg, 1+rg.Intn(5000))
			var got []byte
			var rerr error
			done := make(chan struct{})
			go func() {
				defer close(done)
				buf := make([]byte, 4096)
				for len(got) < len(resp) {
					n, err := h.Client.Read(buf)
					got = append(got, buf[:n]...)
					if err != nil {
						rerr = err
						return
					}
				}
			}()
			var chunks [][]byte
			for k := 0; k < m; k++ {
				chunks = append(chunks, randBytes(rg, 200+rg.Intn(1000)))
			}
			upd := 0
			x := pump(h.Client, h.Server, chunks, bufs, func(k int) {
				if err := tls.VerifSendKeyUpdate(h.Server, k%16 == 7); err == nil {
					upd++
				}
			})
			check("c2s", x, false, 0)
			werr := writeAll(h.Server, resp)
			if werr != nil {
				h.CEnd.Close() // the reader must not wait for a response that will not come
				h.SEnd.Close()
			}
			<-done
			if !bytes.Equal(got, resp) {
				sig["kind"] = "data_lost_after_key_updates"
				r.Violation(sig, fmt.Sprintf("%#04x/%#04x: after %d KeyUpdates sent during an upload the client read %d of the %d response bytes (read error %v, server write error %v)", j.c.v, j.c.suite, upd, len(got), len(resp), rerr, werr), rep)
			} else {
				r.Count("uploads_with_key_updates", 1)
				r.Count("key_updates_sent", int64(upd))
				if upd >= 33 {
					r.Count("uploads_with_33_or_more_key_updates", 1)
				}
			}
		case "coalesced":
			// a server that puts several post-handshake messages into one record (two session
			// tickets; a ticket and a KeyUpdate; several KeyUpdates) before / between its data
			nst := func() []byte {
				body := []byte{0, 0, 0x1c, 0x20, byte(rg.Intn(256)), byte(rg.Intn(256)), byte(rg.Intn(256)), byte(rg.Intn(256))}
				body = append(body, vec8(randBytes(rg, 1+rg.Intn(8)))...)
				body = append(body, vec16(randBytes(rg, 16+rg.Intn(200)))...)
				body = append(body, 0, 0)
				return hsMsg(4, body)
			}
			sent := 0
			x := pump(h.Server, h.Client, mkChunks(6), bufs, func(k int) {
				if k%2 == 1 {
					return
				}
				var prefix []byte
				nku := 0
				switch (k/2 + j.rep) % 4 {
				case 0:
					prefix = append(nst(), nst()...)
				case 1:
					prefix, nku = nst(), 1
				case 2:
					nku = 2 + rg.Intn(3)
				case 3:
					prefix, nku = append(append(nst(), nst()...), nst()...), 1
				}
				if err := tls.VerifSendCoalesced(h.Server, prefix, nku, rg.Intn(2) == 0); err == nil {
					sent++
				}
			})
			check("s2c", x, false, 0)
			x2 := pump(h.Client, h.Server, mkChunks(3), bufs, nil)
			check("c2s", x2, false, 0)
			r.Count("coalesced_post_handshake_records_sent", int64(sent))
		case "flip", "truncate":
			dir := []string{"c2s", "s2c"}[rg.Intn(2)]
			var w io.Writer = h.Client
			var rd io.Reader = h.Server
			wend := h.CEnd
			if dir == "s2c" {
				w, rd, wend = h.Server, h.Client, h.SEnd
			}
			chunks := [][]byte{randBytes(rg, 1+rg.Intn(3000)), randBytes(rg, 1+rg.Intn(3000)), randBytes(rg, 1+rg.Intn(20000)), randBytes(rg, 1+rg.Intn(100))}
			target := 1 + rg.Intn(3) // which Write call gets tampered
			intact := 0
			for k := 0; k < target; k++ {
				intact += len(chunks[k])
			}
			// tamper the first wire record written while chunk[target] is being sent
			var written atomic.Int32
			written.Store(-1)
			var done atomic.Bool
			h.Tap.Mutate = func(d string, off int, p []byte) []byte {
				if d != dir || len(p) < 7 || int(written.Load()) != target || done.Swap(true) {
					return p
				}
				q := append([]byte(nil), p...)
				// the FIRST record of this transport write is the one that is tampered with (a
				// write may carry several: TLS 1.0 CBC splits application data 1/n-1, and the
				// one-byte record in front is a record "before" the second one)
				first := len(q)
				if rl := 5 + (int(q[3])<<8 | int(q[4])); rl >= 7 && rl < len(q) {
					first = rl
				}
				if j.scenario == "flip" {
					pos := 5 + rg.Intn(first-5)
					q[pos] ^= 1 << uint(rg.Intn(8))
					return q
				}
				// truncate the record and cut the connection afterwards
				cut := 1 + rg.Intn(first-6)
				go func() { time.Sleep(20 * time.Millisecond); wend.Close() }()
				return q[:first-cut]
			}
			x := pump(w, rd, chunks, bufs, func(k int) { written.Store(int32(k)) })
			check(dir, x, true, intact)
			h.Tap.Mutate = nil
		}
		r.Case(fmt.Sprintf("%04x|%04x|%s", j.c.v, j.c.suite, j.scenario), true)
		if i%61 == 0 {
			r.Sample(map[string]any{"version": fmt.Sprintf("%#04x", j.c.v), "suite": fmt.Sprintf("%#04x", j.c.suite), "scenario": j.scenario})
		}
	})
	r.Count("combos_negotiated", int64(len(negotiated)))
	r.Count("combos_planned", int64(len(combos)))
	if len(negotiated) < len(combos)*8/10 {
		r.Inconclusive(fmt.Sprintf("only %d of %d (version, suite) combinations were negotiated", len(negotiated), len(combos)))
	}
	r.Floor("tampering_detected", 20)
	if !weak {
		r.Floor("key_updates_sent", 5)
		r.Floor("uploads_with_33_or_more_key_updates", 3)
		r.Floor("empty_application_data_records_sent", 100)
	}
}

// writeAll writes p the way a careful caller does: it honours the count Write returns and
// goes on with the rest.  io.Writer's contract (a short count comes with an error) is part
// of "the peer reads what was written": a Write that puts all bytes on the wire but reports
// fewer makes such a caller send bytes twice.
func writeAll(w io.Writer, p []byte) error {
	for len(p) > 0 {
		n, err := w.Write(p)
		if err != nil {
			return err
		}
		if n < 0 || n > len(p) {
			return fmt.Errorf("Write returned an impossible count %d for %d bytes", n, len(p))
		}
		if n < len(p) {
			return fmt.Errorf("Write returned (%d, nil) for %d bytes: a short write without an error", n, len(p))
		}
		p = p[n:]
	}
	return nil
}
