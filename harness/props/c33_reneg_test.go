package props

import (
	"fmt"
	"math/rand"
	"time"

	tls "github.com/refraction-networking/utls"
	"verifharness/peer"
	"verifharness/wire"
)

// ---------------------------------------------------------------------------------
// C33 workload E — hostile post-handshake input over an established connection.
//
// Every parrot except HelloGolang switches renegotiation on (its renegotiation_info
// extension sets Config.Renegotiation), so a TLS <= 1.2 server that sends a HelloRequest
// makes UConn.Read rebuild the ClientHello and run a second handshake whose messages
// come, encrypted, from the same hostile peer.  The real in-repo server completes the
// first handshake; then the harness speaks through the server Conn's record layer
// (hooks VerifWriteRecord / VerifReadHandshake): HelloRequest, read the renegotiation
// ClientHello, answer it from a script.  The same scripts also run over TLS 1.3
// connections, where no renegotiation exists and every one of them is just hostile
// post-handshake input.
// ---------------------------------------------------------------------------------

type renegRec struct {
	typ  byte
	data []byte
}

type renegScript struct {
	name string
	// f builds what the server sends after it has read (or failed to read) the client's
	// renegotiation ClientHello ch2 (nil when none arrived or it did not parse).
	f func(rg *rand.Rand, ch2 *wire.ClientHello) []renegRec
	// g, if set, is used instead of f: it also gets the renegotiation_info body that is
	// correct for this connection (both verify_data values of the first handshake), so
	// that the client's processing goes beyond the extension check
	g func(rg *rand.Rand, ch2 *wire.ClientHello, ri []byte) []renegRec
}

func hsRec(msgs ...[]byte) renegRec {
	var b []byte
	for _, m := range msgs {
		b = append(b, m...)
	}
	return renegRec{22, b}
}

// shFor builds a well-formed ServerHello answering ch2 (or a generic one).
func shFor(rg *rand.Rand, ch2 *wire.ClientHello, tls13 bool) *wire.ServerHello {
	sh := &wire.ServerHello{Version: 0x0303, Random: randBytes(rg, 32), Exts: []wire.Ext{}}
	var suites []uint16
	var groups []wire.KeyShareEntry
	if ch2 != nil {
		suites = ch2.Suites
		groups = ch2.KeyShares
		if tls13 {
			sh.SessionID = append([]byte(nil), ch2.SessionID...)
		}
	}
	pick := func(ok func(uint16) bool, dflt uint16) uint16 {
		var c []uint16
		for _, s := range suites {
			if ok(s) {
				c = append(c, s)
			}
		}
		if len(c) == 0 {
			return dflt
		}
		return c[rg.Intn(len(c))]
	}
	if tls13 {
		sh.Suite = pick(func(s uint16) bool { return s >= 0x1301 && s <= 0x1303 }, 0x1301)
		sh.SetExt(wire.ExtSupportedVersions, be16(0x0304))
		g, n := uint16(0x001d), 32
		var cand []wire.KeyShareEntry
		for _, k := range groups {
			if !wire.IsGREASE(k.Group) {
				cand = append(cand, k)
			}
		}
		if len(cand) > 0 {
			k := cand[rg.Intn(len(cand))]
			g = k.Group
			switch g {
			case 0x001d:
				n = 32
			case 0x0017:
				n = 65
			case 0x0018:
				n = 97
			case 0x0019:
				n = 133
			case 0x11ec:
				n = 1120
			case 0x6399:
				n = 1120
			default:
				n = len(k.Key)
			}
		}
		sh.SetExt(wire.ExtKeyShare, append(be16(g), vec16(randBytes(rg, n))...))
	} else {
		sh.Suite = pick(func(s uint16) bool {
			_, ok := tls.VerifCipherSuite12(s)
			return ok
		}, 0xc02f)
		switch rg.Intn(5) {
		case 0: // no renegotiation_info at all
		case 1:
			sh.SetExt(wire.ExtRenegotiationInfo, []byte{0})
		case 2:
			sh.SetExt(wire.ExtRenegotiationInfo, vec8(randBytes(rg, 24)))
		case 3:
			sh.SetExt(wire.ExtRenegotiationInfo, vec8(randBytes(rg, 12)))
		case 4:
			sh.SetExt(wire.ExtRenegotiationInfo, randBytes(rg, rg.Intn(40)))
		}
		if rg.Intn(2) == 0 {
			sh.SetExt(wire.ExtEMS, nil)
		}
		if rg.Intn(3) == 0 {
			sh.SetExt(wire.ExtSessionTicket, nil)
		}
	}
	return sh
}

func renegScripts() []renegScript {
	f := peer.Fix()
	certMsg := func() []byte {
		var list []byte
		for _, der := range f.RSA.Certificate {
			list = append(list, byte(len(der)>>16), byte(len(der)>>8), byte(len(der)))
			list = append(list, der...)
		}
		body := append([]byte{byte(len(list) >> 16), byte(len(list) >> 8), byte(len(list))}, list...)
		return hsMsg(11, body)
	}
	helloRequest := hsMsg(0, nil)
	smuts := serverHelloMuts()
	return []renegScript{
		{name: "nothing", f: func(rg *rand.Rand, ch2 *wire.ClientHello) []renegRec { return nil }},
		{name: "sh13", f: func(rg *rand.Rand, ch2 *wire.ClientHello) []renegRec {
			return []renegRec{hsRec(shFor(rg, ch2, true).Marshal())}
		}},
		{name: "sh13_then_flight", f: func(rg *rand.Rand, ch2 *wire.ClientHello) []renegRec {
			return []renegRec{hsRec(shFor(rg, ch2, true).Marshal()), {20, []byte{1}}, {23, randBytes(rg, 60)}}
		}},
		{name: "hrr", f: func(rg *rand.Rand, ch2 *wire.ClientHello) []renegRec {
			sh := shFor(rg, ch2, true)
			sh.Random = append([]byte(nil), wireHRRRandom...)
			sh.SetExt(wire.ExtKeyShare, be16([]uint16{0x0017, 0x0018, 0x001d, 0x11ec}[rg.Intn(4)]))
			if rg.Intn(2) == 0 {
				sh.SetExt(wire.ExtCookie, vec16(randBytes(rg, 1+rg.Intn(64))))
			}
			return []renegRec{hsRec(sh.Marshal())}
		}},
		{name: "sh12", f: func(rg *rand.Rand, ch2 *wire.ClientHello) []renegRec {
			return []renegRec{hsRec(shFor(rg, ch2, false).Marshal())}
		}},
		{name: "sh12_flight", f: func(rg *rand.Rand, ch2 *wire.ClientHello) []renegRec {
			ske := hsMsg(12, append([]byte{3, 0, 0x1d, 32}, append(randBytes(rg, 32), append([]byte{4, 1}, vec16(randBytes(rg, 256))...)...)...))
			msgs := [][]byte{shFor(rg, ch2, false).Marshal(), certMsg(), ske}
			if rg.Intn(2) == 0 {
				msgs = append(msgs, hsMsg(13, append(vec8([]byte{1, 64}), append(vec16([]byte{4, 1, 4, 3}), 0, 0)...)))
			}
			msgs = append(msgs, hsMsg(14, nil))
			if rg.Intn(2) == 0 {
				return []renegRec{hsRec(msgs...)}
			}
			var out []renegRec
			for _, m := range msgs {
				out = append(out, hsRec(m))
			}
			return out
		}},
		// the same flight with the renegotiation_info this connection calls for: the client
		// gets as far as the certificate (same identity / another identity) and the signature
		{name: "sh12_flight_valid_renegotiation_info", g: func(rg *rand.Rand, ch2 *wire.ClientHello, ri []byte) []renegRec {
			sh := shFor(rg, ch2, false)
			sh.SetExt(wire.ExtRenegotiationInfo, ri)
			cm := certMsg()
			if rg.Intn(3) == 0 {
				var list []byte
				for _, der := range f.ECDSA.Certificate {
					list = append(list, byte(len(der)>>16), byte(len(der)>>8), byte(len(der)))
					list = append(list, der...)
				}
				cm = hsMsg(11, append([]byte{byte(len(list) >> 16), byte(len(list) >> 8), byte(len(list))}, list...))
			}
			ske := hsMsg(12, append([]byte{3, 0, 0x1d, 32}, append(randBytes(rg, 32), append([]byte{8, 4}, vec16(randBytes(rg, 256))...)...)...))
			msgs := [][]byte{sh.Marshal(), cm, ske, hsMsg(14, nil)}
			if rg.Intn(2) == 0 {
				return []renegRec{hsRec(msgs...)}
			}
			var out []renegRec
			for _, m := range msgs {
				out = append(out, hsRec(m))
			}
			return out
		}},
		{name: "sh12_resumption_shaped", f: func(rg *rand.Rand, ch2 *wire.ClientHello) []renegRec {
			sh := shFor(rg, ch2, false)
			if ch2 != nil {
				sh.SessionID = append([]byte(nil), ch2.SessionID...)
			}
			return []renegRec{hsRec(sh.Marshal()), {20, []byte{1}}, hsRec(hsMsg(20, randBytes(rg, 12)))}
		}},
		{name: "sh_other_version", f: func(rg *rand.Rand, ch2 *wire.ClientHello) []renegRec {
			sh := shFor(rg, ch2, false)
			sh.Version = []uint16{0x0300, 0x0301, 0x0302, 0x0304, 0x0305, 0x0000, 0xffff}[rg.Intn(7)]
			return []renegRec{hsRec(sh.Marshal())}
		}},
		{name: "sh_field_mutation", f: func(rg *rand.Rand, ch2 *wire.ClientHello) []renegRec {
			m := shFor(rg, ch2, rg.Intn(2) == 0).Marshal()
			c := ch2
			if c == nil {
				c = &wire.ClientHello{}
			}
			fm := smuts[rg.Intn(len(smuts))]
			if out := fm.f(rg, append([]byte(nil), m...), c); out != nil {
				m = out
			}
			return []renegRec{hsRec(m)}
		}},
		{name: "sh_generic_mutation", f: func(rg *rand.Rand, ch2 *wire.ClientHello) []renegRec {
			m := shFor(rg, ch2, rg.Intn(2) == 0).Marshal()
			gm := genericMutations[rg.Intn(len(genericMutations))]
			if out := gm.f(rg, append([]byte(nil), m...)); out != nil {
				m = out
			}
			return []renegRec{hsRec(m)}
		}},
		{name: "more_hello_requests", f: func(rg *rand.Rand, ch2 *wire.ClientHello) []renegRec {
			n := []int{1, 2, 17, 40}[rg.Intn(4)]
			var out []renegRec
			for i := 0; i < n; i++ {
				out = append(out, hsRec(helloRequest))
			}
			return out
		}},
		{name: "hello_request_then_sh12_then_hello_request", f: func(rg *rand.Rand, ch2 *wire.ClientHello) []renegRec {
			return []renegRec{hsRec(helloRequest, shFor(rg, ch2, false).Marshal(), helloRequest)}
		}},
		{name: "random_handshake_messages", f: func(rg *rand.Rand, ch2 *wire.ClientHello) []renegRec {
			var out []renegRec
			for i := 0; i < 1+rg.Intn(4); i++ {
				typ := []byte{0, 1, 2, 3, 4, 5, 8, 11, 12, 13, 14, 15, 16, 20, 22, 24, 25, 67, 254, 255, byte(rg.Intn(256))}[rg.Intn(21)]
				out = append(out, hsRec(hsMsg(typ, randBytes(rg, []int{0, 1, 2, 4, 33, 200, 5000}[rg.Intn(7)]))))
			}
			return out
		}},
		{name: "appdata_then_sh12", f: func(rg *rand.Rand, ch2 *wire.ClientHello) []renegRec {
			return []renegRec{{23, []byte("early")}, hsRec(shFor(rg, ch2, false).Marshal())}
		}},
		{name: "alerts", f: func(rg *rand.Rand, ch2 *wire.ClientHello) []renegRec {
			var out []renegRec
			for i := 0; i < []int{1, 3, 20, 40}[rg.Intn(4)]; i++ {
				out = append(out, renegRec{21, []byte{1, []byte{0, 100, 90, 41}[rg.Intn(4)]}})
			}
			return append(out, renegRec{21, []byte{2, byte(rg.Intn(120))}})
		}},
		{name: "ccs", f: func(rg *rand.Rand, ch2 *wire.ClientHello) []renegRec {
			return []renegRec{{20, []byte{1}}, hsRec(shFor(rg, ch2, false).Marshal())}
		}},
		{name: "clienthello_echo", f: func(rg *rand.Rand, ch2 *wire.ClientHello) []renegRec {
			if ch2 == nil {
				return []renegRec{hsRec(hsMsg(1, randBytes(rg, 80)))}
			}
			return []renegRec{hsRec(ch2.Raw)}
		}},
		{name: "certificate_first", f: func(rg *rand.Rand, ch2 *wire.ClientHello) []renegRec {
			return []renegRec{hsRec(certMsg(), hsMsg(14, nil))}
		}},
		{name: "fragmented_sh12", f: func(rg *rand.Rand, ch2 *wire.ClientHello) []renegRec {
			m := shFor(rg, ch2, false).Marshal()
			var out []renegRec
			for i := 0; i < len(m); i += 3 {
				out = append(out, renegRec{22, m[i:min(i+3, len(m))]})
			}
			return out
		}},
		{name: "tls13_post_handshake_messages", f: func(rg *rand.Rand, ch2 *wire.ClientHello) []renegRec {
			// meaningful on TLS 1.3 connections: ticket / key update / certificate request shapes
			nst := hsMsg(4, append(append(randBytes(rg, 8), vec8(randBytes(rg, rg.Intn(9)))...), append(vec16(randBytes(rg, 1+rg.Intn(300))), 0, 0)...))
			ku := hsMsg(24, []byte{byte(rg.Intn(3))})
			cr := hsMsg(13, append(vec8(randBytes(rg, rg.Intn(4))), vec16(nil)...))
			pool := [][]byte{nst, ku, cr, helloRequest, hsMsg(24, nil), hsMsg(4, nil)}
			var msgs [][]byte
			for i := 0; i < 1+rg.Intn(5); i++ {
				msgs = append(msgs, pool[rg.Intn(len(pool))])
			}
			return []renegRec{hsRec(msgs...)}
		}},
	}
}

var wireHRRRandom = []byte{0xCF, 0x21, 0xAD, 0x74, 0xE5, 0x9A, 0x61, 0x11, 0xBE, 0x1D, 0x8C, 0x02, 0x1E, 0x65, 0xB8, 0x91, 0xC2, 0xA2, 0x11, 0x16, 0x7A, 0xBB, 0x8C, 0x5E, 0x07, 0x9E, 0x09, 0xE2, 0xC8, 0xA8, 0x33, 0x9C}

// renegServerKinds: the connection the hostile post-handshake input arrives on.
type renegKind struct {
	name string
	cfg  func() *tls.Config
	ok   func(o Offer) bool
}

func renegKinds() []renegKind {
	f := peer.Fix()
	srv := func(max uint16) *tls.Config {
		c := peer.ServerConfig()
		c.MaxVersion = max
		c.NextProtos = []string{"h2", "http/1.1"}
		return c
	}
	has12 := func(o Offer) bool { return o.Has(tls.VersionTLS12) && len(o.Suites12) > 0 }
	return []renegKind{
		{"tls12", func() *tls.Config { return srv(tls.VersionTLS12) }, has12},
		{"tls12-notickets", func() *tls.Config {
			c := srv(tls.VersionTLS12)
			c.SessionTicketsDisabled = true
			return c
		}, has12},
		{"tls12-rsa-leaf", func() *tls.Config {
			c := srv(tls.VersionTLS12)
			c.Certificates = []tls.Certificate{f.RSA}
			return c
		}, has12},
		{"tls11", func() *tls.Config { return srv(tls.VersionTLS11) }, func(o Offer) bool { return o.Has(tls.VersionTLS11) && len(o.Suites12) > 0 }},
		{"tls13", func() *tls.Config { return srv(tls.VersionTLS13) }, has13x},
	}
}

type renegCase struct {
	id     string
	tg     Target
	kind   renegKind
	script renegScript
	seed   int
	// warm13: the client's session cache already holds a TLS 1.3 session for this server
	// (a first, clean connection to a TLS 1.3 server is made with the same cache)
	warm13 bool
	// certless: the connection under test resumes a session forged without certificates
	// (MakeClientSessionState(ticket, vers, suite, secret, nil, nil) + SetSessionState, the
	// README way): it has no peer certificates when the server speaks again
	certless bool
	// reneg: Config.Renegotiation of the client, -1 = left as the preset sets it
	reneg int
	// preRequest: application data the server sends before the HelloRequest
	preRequest bool
	// requests: HelloRequests sent before the server looks at the client's answer
	requests int
	// can13: the target can complete a TLS 1.3 handshake (needed for warm13)
	can13 bool
	// after, if set, runs on the server side once the script's records are written (to look
	// at what the client answers)
	after func(server *tls.Conn, ch2 *wire.ClientHello)
}

type renegResult struct {
	resumed bool
	c33Result
	gotHello2   bool // the client answered the HelloRequest with a ClientHello
	hello2Parse bool
	version     uint16
}

func c33RunReneg(cs renegCase) renegResult {
	var res renegResult
	rg := Sub("C33reneg:"+cs.id, cs.seed)
	var cache tls.ClientSessionCache
	newCfg := func() *tls.Config {
		ccfg := peer.ClientConfig("example.test")
		ccfg.OmitEmptyPsk = true
		ccfg.ClientSessionCache = cache
		ccfg.PreferSkipResumptionOnNilExtension = true
		ccfg.NextProtos = nil
		if cs.reneg >= 0 {
			ccfg.Renegotiation = tls.RenegotiationSupport(cs.reneg)
		}
		return ccfg
	}
	if cs.warm13 {
		cache = tls.NewLRUClientSessionCache(4)
		w := peer.ServerConfig()
		w.MinVersion = tls.VersionTLS13
		hs := peer.Run(newCfg(), cs.tg.ClientID(), w, peer.Opts{Prepare: cs.tg.Prepare()})
		if hs == nil || hs.ClientErr != nil {
			res.phase = "warmup-failed"
			return res
		}
	}
	scfg := cs.kind.cfg()
	var forged *tls.ClientSessionState
	if cs.certless {
		// a clean first connection to the same server Config (same ticket keys)
		wc := newMapCache()
		cache = tls.NewLRUClientSessionCache(4)
		wcfg := newCfg()
		wcfg.ClientSessionCache = wc
		hs := peer.Run(wcfg, cs.tg.ClientID(), scfg, peer.Opts{Prepare: cs.tg.Prepare()})
		if hs == nil || hs.ClientErr != nil || wc.Any() == nil || wc.Any().Vers() >= tls.VersionTLS13 {
			res.phase = "warmup-failed"
			return res
		}
		st := wc.Any()
		forged = tls.MakeClientSessionState(st.SessionTicket(), st.Vers(), st.CipherSuite(), append([]byte(nil), st.MasterSecret()...), nil, nil)
		forged.SetEMS(st.EMS())
	}
	c, s, tap := peer.Pipe()
	defer c.Close()
	defer s.Close()
	c.SetDeadline(time.Now().Add(c33ClientDeadline))
	s.SetDeadline(time.Now().Add(c33ClientDeadline + 2*time.Second))
	server := tls.Server(s, scfg)
	// the server's own Finished (in the clear, before record protection): its verify_data is
	// the second half of a correct renegotiation_info
	var serverVerifyData []byte
	tls.VerifAttach(server, &tls.VerifPlan{RewriteOut: func(isClient bool, data []byte) []byte {
		if !isClient && len(data) == 16 && data[0] == 20 {
			serverVerifyData = append([]byte(nil), data[4:]...)
		}
		return nil
	}})
	stop := make(chan struct{})
	sdone := make(chan struct{})
	go func() {
		defer close(sdone)
		defer func() { recover() }() // the server is not the subject here
		if err := server.Handshake(); err != nil {
			s.Close()
			return
		}
		if cs.preRequest {
			server.Write([]byte("pong"))
		}
		for i := 0; i < cs.requests; i++ {
			if tls.VerifWriteRecord(server, 22, hsMsg(0, nil)) != nil {
				return
			}
		}
		var ch2 *wire.ClientHello
		if raw, err := tls.VerifReadHandshake(server); err == nil {
			res.gotHello2 = len(raw) > 0 && raw[0] == 1
			if h, err := wire.ParseClientHello(raw); err == nil {
				ch2 = h
				res.hello2Parse = true
			}
		}
		var recs []renegRec
		if cs.script.g != nil {
			// the client's half is what its renegotiation hello carries
			var ri []byte
			if ch2 != nil {
				if e := ch2.Ext(wire.ExtRenegotiationInfo); e != nil && len(e.Data) == 13 {
					ri = vec8(append(append([]byte(nil), e.Data[1:]...), serverVerifyData...))
				}
			}
			recs = cs.script.g(rg, ch2, ri)
		} else {
			recs = cs.script.f(rg, ch2)
		}
		for _, rec := range recs {
			if tls.VerifWriteRecord(server, rec.typ, rec.data) != nil {
				return
			}
		}
		if cs.after != nil {
			cs.after(server, ch2)
		}
	}()
	go func() {
		tk := time.NewTicker(2 * time.Millisecond)
		defer tk.Stop()
		n := 0
		for {
			select {
			case <-stop:
				return
			case <-tk.C:
				if peer.Quiescent(c, s) {
					n++
					if n >= 3 {
						s.Close()
						return
					}
				} else {
					n = 0
				}
			}
		}
	}()
	var u *tls.UConn
	out := runBounded(c33Limit, func() error {
		u = tls.UClient(c, newCfg(), cs.tg.ClientID())
		if prep := cs.tg.Prepare(); prep != nil {
			if err := prep(u); err != nil {
				res.phase = "prepare"
				return err
			}
		}
		if forged != nil {
			if err := u.SetSessionState(forged); err != nil {
				res.phase = "prepare"
				return err
			}
		}
		res.phase = "handshake"
		if err := u.Handshake(); err != nil {
			return err
		}
		res.completed = true
		res.resumed = u.ConnectionState().DidResume
		res.version = u.ConnectionState().Version
		res.phase = "read"
		buf := make([]byte, 4096)
		for i := 0; i < 64; i++ {
			_, err := u.Read(buf)
			if err != nil {
				res.readErr = err
				break
			}
		}
		res.phase = "close"
		u.Close()
		return nil
	})
	close(stop)
	if !out.Returned {
		res.hung = &out
	} else {
		res.clientErr = out.Err
		res.panicked = out.Panic
	}
	c.Close()
	s.Close()
	select {
	case <-sdone:
	case <-time.After(10 * time.Second):
	}
	_, s2c := tap.Snapshot()
	res.recvBytes = len(s2c)
	return res
}

func renegCaseID(cs renegCase) string {
	return fmt.Sprintf("reneg|%s|%s|%s|warm13=%v|certless=%v|reneg=%d|pre=%v|requests=%d|%d", cs.tg.Name, cs.kind.name, cs.script.name, cs.warm13, cs.certless, cs.reneg, cs.preRequest, cs.requests, cs.seed)
}
