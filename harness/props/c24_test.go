package props

import (
	"bufio"
	"bytes"
	"fmt"
	"io"
	"math/rand"
	"testing"

	tls "github.com/refraction-networking/utls"
	"verifharness/mon"
	"verifharness/wire"
)

func recoverPanic(f func()) (panicked bool, val any) {
	defer func() {
		if r := recover(); r != nil {
			panicked, val = true, r
		}
	}()
	f()
	return
}

// refVarint is the harness' own RFC 9000 §16 encoder.
func refVarint(v uint64) []byte {
	switch {
	case v < 1<<6:
		return []byte{byte(v)}
	case v < 1<<14:
		return []byte{byte(v>>8) | 0x40, byte(v)}
	case v < 1<<30:
		return []byte{byte(v>>24) | 0x80, byte(v >> 16), byte(v >> 8), byte(v)}
	default:
		return []byte{byte(v>>56) | 0xc0, byte(v >> 48), byte(v >> 40), byte(v >> 32), byte(v >> 24), byte(v >> 16), byte(v >> 8), byte(v)}
	}
}

func checkVarint(r *mon.Run, x uint64) {
	viol := func(kind, what string) {
		r.Violation(map[string]string{"kind": kind, "class": fmt.Sprint(wire.VarintLen(x))}, what, map[string]any{"x": fmt.Sprintf("%#x", x)})
	}
	if x >= 1<<62 {
		p, _ := recoverPanic(func() { tls.VerifVarintAppend(nil, x) })
		if !p {
			viol("varint_large_not_refused", fmt.Sprintf("Append(%#x) did not panic for a value >= 2^62", x))
		}
		p2, _ := recoverPanic(func() { tls.VerifVarintLen(x) })
		if !p2 {
			viol("varint_len_large_not_refused", fmt.Sprintf("Len(%#x) did not panic", x))
		}
		r.Case(fmt.Sprintf("big|%d", x>>58), true)
		return
	}
	want := refVarint(x)
	var got []byte
	p, pv := recoverPanic(func() { got = tls.VerifVarintAppend([]byte{0xEE}, x) })
	if p {
		viol("varint_append_panic", fmt.Sprintf("Append(%#x) panicked: %v", x, pv))
		return
	}
	if len(got) < 1 || got[0] != 0xEE {
		viol("varint_append_clobbers_prefix", fmt.Sprintf("Append(%#x) damaged the existing slice", x))
		return
	}
	got = got[1:]
	if l := tls.VerifVarintLen(x); l != len(got) || l != wire.VarintLen(x) {
		viol("varint_len_mismatch", fmt.Sprintf("Len(%#x)=%d, Append emitted %d bytes, minimal is %d", x, l, len(got), wire.VarintLen(x)))
	}
	if !bytes.Equal(got, want) {
		viol("varint_encoding", fmt.Sprintf("Append(%#x)=%x, RFC 9000 encoding is %x", x, got, want))
	}
	v, n, err := tls.VerifVarintRead(got)
	if err != nil || v != x || n != len(got) {
		viol("varint_read_roundtrip", fmt.Sprintf("Read(Append(%#x))=(%#x, consumed %d, %v)", x, v, n, err))
	}
	// also the independent decoder on utls output and utls decoder on reference output
	if v2, n2, err2 := wire.ReadVarint(got); err2 != nil || v2 != x || n2 != len(got) {
		viol("varint_ref_decode", fmt.Sprintf("reference decoder reads %x as (%#x,%d,%v), want %#x", got, v2, n2, err2, x))
	}
	if v3, n3, err3 := tls.VerifVarintRead(want); err3 != nil || v3 != x || n3 != len(want) {
		viol("varint_read_of_reference", fmt.Sprintf("Read(%x)=(%#x,%d,%v), want %#x", want, v3, n3, err3, x))
	}
	// the decoder is handed an io.ByteReader: whatever else the source implements and however
	// it delivers its bytes (one at a time, short reads, a buffer boundary in the middle of
	// the varint), the value and the number of bytes consumed are the same
	for _, enc := range [][]byte{want, tls.VerifVarintAppendWithLen(nil, x, 8)} {
		for _, pre := range []int{0, 13, 15} {
			stream := append(append(bytes.Repeat([]byte{0x01}, pre), enc...), 0x25, 0x26)
			for si, mk := range varintSources {
				src, rest := mk(stream)
				ok := true
				for k := 0; k < pre; k++ {
					if v, err := tls.VerifVarintReadFrom(src); err != nil || v != 1 {
						ok = false
					}
				}
				v, err := tls.VerifVarintReadFrom(src)
				v2, err2 := tls.VerifVarintReadFrom(src) // the next entry starts right behind
				if !ok || err != nil || v != x || err2 != nil || v2 != 0x25 || rest() != 1 {
					viol("varint_read_depends_on_source", fmt.Sprintf("Read of %x at offset %d from source %d: (%#x,%v), next entry (%#x,%v), %d bytes left; want %#x then 0x25 and 1 byte left", enc, pre, si, v, err, v2, err2, rest(), x))
				}
			}
		}
	}
	// AppendWithLen for every width
	min := wire.VarintLen(x)
	for _, w := range []int{1, 2, 4, 8} {
		var out []byte
		p, pv := recoverPanic(func() { out = tls.VerifVarintAppendWithLen(nil, x, w) })
		if w < min {
			if !p {
				viol("varint_appendwithlen_too_narrow_accepted", fmt.Sprintf("AppendWithLen(%#x,%d) did not panic (needs %d); emitted %x", x, w, min, out))
			}
			continue
		}
		if p {
			viol("varint_appendwithlen_panic", fmt.Sprintf("AppendWithLen(%#x,%d) panicked: %v", x, w, pv))
			continue
		}
		if len(out) != w {
			viol("varint_appendwithlen_width", fmt.Sprintf("AppendWithLen(%#x,%d) emitted %d bytes", x, w, len(out)))
			continue
		}
		v, n, err := wire.ReadVarint(out)
		if err != nil || v != x || n != w {
			viol("varint_appendwithlen_value", fmt.Sprintf("AppendWithLen(%#x,%d)=%x decodes to (%#x,%d,%v)", x, w, out, v, n, err))
		}
		v, n, err = tls.VerifVarintRead(out)
		if err != nil || v != x || n != w {
			viol("varint_appendwithlen_read", fmt.Sprintf("Read(AppendWithLen(%#x,%d))=(%#x,%d,%v)", x, w, v, n, err))
		}
	}
	for _, w := range []int{0, 3, 5, 6, 7, 9, -1} {
		p, _ := recoverPanic(func() { tls.VerifVarintAppendWithLen(nil, x, w) })
		if !p {
			viol("varint_appendwithlen_bad_width", fmt.Sprintf("AppendWithLen(%#x,%d) accepted an invalid width", x, w))
		}
	}
	r.Case(fmt.Sprintf("v|%d|%d", min, x%1021), true)
}

type tpWant struct {
	id  uint64
	val []byte
}

func genTP(rg *rand.Rand) (tls.TransportParameter, func() tpWant) {
	u := func() uint64 {
		switch rg.Intn(6) {
		case 0:
			return uint64(rg.Intn(64))
		case 1:
			return uint64(rg.Intn(1 << 14))
		case 2:
			return uint64(rg.Int63n(1 << 30))
		case 3:
			return uint64(rg.Int63()) >> 1
		case 4:
			return []uint64{0, 63, 64, 16383, 16384, 1<<30 - 1, 1 << 30, 1<<62 - 1}[rg.Intn(8)]
		}
		return uint64(rg.Intn(100000))
	}
	x := u()
	switch rg.Intn(17) {
	case 0:
		return tls.MaxIdleTimeout(x), func() tpWant { return tpWant{0x1, refVarint(x)} }
	case 1:
		return tls.MaxUDPPayloadSize(x), func() tpWant { return tpWant{0x3, refVarint(x)} }
	case 2:
		return tls.InitialMaxData(x), func() tpWant { return tpWant{0x4, refVarint(x)} }
	case 3:
		return tls.InitialMaxStreamDataBidiLocal(x), func() tpWant { return tpWant{0x5, refVarint(x)} }
	case 4:
		return tls.InitialMaxStreamDataBidiRemote(x), func() tpWant { return tpWant{0x6, refVarint(x)} }
	case 5:
		return tls.InitialMaxStreamDataUni(x), func() tpWant { return tpWant{0x7, refVarint(x)} }
	case 6:
		return tls.InitialMaxStreamsBidi(x), func() tpWant { return tpWant{0x8, refVarint(x)} }
	case 7:
		return tls.InitialMaxStreamsUni(x), func() tpWant { return tpWant{0x9, refVarint(x)} }
	case 8:
		return tls.MaxAckDelay(x), func() tpWant { return tpWant{0xb, refVarint(x)} }
	case 9:
		return &tls.DisableActiveMigration{}, func() tpWant { return tpWant{0xc, []byte{}} }
	case 10:
		return tls.ActiveConnectionIDLimit(x), func() tpWant { return tpWant{0xe, refVarint(x)} }
	case 11:
		b := randBytes(rg, rg.Intn(21))
		return tls.InitialSourceConnectionID(b), func() tpWant { return tpWant{0xf, b} }
	case 12:
		b := randBytes(rg, rg.Intn(300))
		return tls.PaddingTransportParameter(b), func() tpWant { return tpWant{0x15, b} }
	case 13:
		return tls.MaxDatagramFrameSize(x), func() tpWant { return tpWant{0x20, refVarint(x)} }
	case 14:
		return &tls.GREASEQUICBit{}, func() tpWant { return tpWant{0x2ab2, []byte{}} }
	case 15:
		g := &tls.GREASETransportParameter{Length: uint16(rg.Intn(40))}
		if rg.Intn(2) == 0 {
			g.IdOverride = 27 + 31*uint64(rg.Int63n(1<<40))
		}
		if rg.Intn(2) == 0 {
			g.ValueOverride = randBytes(rg, 1+rg.Intn(30))
		}
		return g, func() tpWant { return tpWant{g.ID(), g.Value()} }
	default:
		id := u()
		if id == 0 {
			id = 1
		}
		b := randBytes(rg, rg.Intn(5000)%(1+rg.Intn(5000)))
		f := &tls.FakeQUICTransportParameter{Id: id, Val: b}
		return f, func() tpWant { return tpWant{id, b} }
	}
}

// C24 — QUIC transport parameters and varints encode losslessly.
func TestC24(t *testing.T) {
	r := mon.New("C24", "varints: all 1- and 2-byte class values (exhaustive), every class boundary +-2, PRNG samples per class and >=2^62; checked against the harness' own RFC 9000 codec, all AppendWithLen widths. Transport parameters: generated lists (all 17 parameter types incl. GREASE and fake ids) marshalled and re-parsed by the independent reader. distinct = (class, value mod 1021) buckets + list shapes. The 62-bit space is sampled, not covered.")
	defer r.Finish(t)
	for x := uint64(0); x < 1<<14; x++ {
		checkVarint(r, x)
	}
	r.Count("exhaustive_small_classes", 1<<14)
	for _, b := range []uint64{1 << 6, 1 << 14, 1 << 30, 1 << 62} {
		for d := int64(-3); d <= 3; d++ {
			checkVarint(r, uint64(int64(b)+d))
		}
	}
	for _, x := range []uint64{1<<63 - 1, 1 << 63, ^uint64(0), 1<<62 + 12345, 1<<32 - 1, 1 << 32, 1<<32 + 1, 1<<30 + 1<<29} {
		checkVarint(r, x)
	}
	n := mon.Pick(200000, 20000000)
	rg := Sub("C24", 0)
	for i := 0; i < n; i++ {
		var x uint64
		switch i % 4 {
		case 0:
			x = 1<<14 + uint64(rg.Int63n(1<<30-1<<14))
		case 1:
			x = 1<<30 + uint64(rg.Int63n(1<<62-1<<30))
		case 2:
			x = uint64(1) << uint(rg.Intn(62)) // powers of two
			x += uint64(rg.Intn(3)) - 1
		default:
			x = rg.Uint64() // mostly >= 2^62 and 8-byte class
			if i%8 == 3 {
				x >>= uint(rg.Intn(64))
			}
		}
		checkVarint(r, x)
	}
	r.Count("sampled_values", int64(n))

	// transport parameter lists
	lists := mon.Pick(4000, 200000)
	readsWithoutLen := 0
	for i := 0; i < lists; i++ {
		rg := Sub("C24tp", i)
		k := rg.Intn(12)
		var tps tls.TransportParameters
		var wants []func() tpWant
		for j := 0; j < k; j++ {
			tp, w := genTP(rg)
			tps = append(tps, tp)
			wants = append(wants, w)
		}
		var body []byte
		p, pv := recoverPanic(func() { body = tps.Marshal() })
		if p {
			r.Violation(map[string]string{"kind": "tp_marshal_panic"}, fmt.Sprintf("Marshal panicked: %v", pv), map[string]any{"case": i})
			continue
		}
		parsed, err := wire.ParseTransportParameters(body)
		if err != nil {
			r.Violation(map[string]string{"kind": "tp_unparseable"}, fmt.Sprintf("marshalled list does not parse: %v", err), map[string]any{"case": i, "body": mon.Hex(body)})
			continue
		}
		if len(parsed) != k {
			r.Violation(map[string]string{"kind": "tp_count"}, fmt.Sprintf("%d parameters marshalled, %d parsed", k, len(parsed)), map[string]any{"case": i, "body": mon.Hex(body)})
			continue
		}
		shape := ""
		for j, w := range wants {
			ww := w()
			shape += fmt.Sprintf("%x/%d,", ww.id%64, len(ww.val)%8)
			if parsed[j].ID != ww.id || !bytes.Equal(parsed[j].Val, ww.val) {
				r.Violation(map[string]string{"kind": "tp_entry_mismatch", "type": fmt.Sprintf("%T", tps[j])},
					fmt.Sprintf("entry %d (%T): wire (id=%#x,val=%x) but list says (id=%#x,val=%x)", j, tps[j], parsed[j].ID, parsed[j].Val, ww.id, ww.val), map[string]any{"case": i})
			}
		}
		// the extension wrapper
		ext := &tls.QUICTransportParametersExtension{TransportParameters: tps}
		buf := make([]byte, ext.Len())
		nn, _ := ext.Read(buf)
		if len(body) > 65535 {
			// not encodable as a TLS extension; outside the statement
		} else if nn != len(buf) || len(buf) < 4 || buf[0] != 0 || buf[1] != 57 || int(buf[2])<<8|int(buf[3]) != len(buf)-4 {
			r.Violation(map[string]string{"kind": "tp_extension_framing"}, fmt.Sprintf("quic_transport_parameters extension framing wrong (Len=%d, Read=%d)", ext.Len(), nn), map[string]any{"case": i})
		}
		// a consumer that calls Read without asking for Len first (a Read into a large
		// buffer): the same list object in a fresh extension must yield the same bytes
		// (tps have produced their ids and values by now, so nothing random is left to draw)
		if len(body) <= 65535 {
			fresh := &tls.QUICTransportParametersExtension{TransportParameters: tps}
			// (TLSExtension.Read wants the whole encoding to fit: a buffer that is large
			// enough, of a size the caller chose without consulting Len)
			big := make([]byte, len(buf)+1+i%300)
			n2, _ := fresh.Read(big)
			got := big[:n2]
			if !bytes.Equal(got, buf) {
				r.Violation(map[string]string{"kind": "tp_extension_read_without_len"}, fmt.Sprintf("Read on a fresh extension (no Len call before) yields %d bytes (%x...), Len-then-Read yields %d", len(got), got[:min(len(got), 8)], len(buf)), map[string]any{"case": i})
			}
			readsWithoutLen++
		}
		r.Case("tplist|"+shape, k > 0)
		if i < 3 {
			r.Sample(map[string]any{"list_len": k, "body": mon.Hex(body)})
		}
	}
	r.Count("tp_lists", int64(lists))
	r.Count("extension_reads_without_len", int64(readsWithoutLen))
	r.Floor("extension_reads_without_len", 100)
	r.Assume("values in the 4- and 8-byte classes are sampled (boundaries, powers of two, uniform draws), not enumerated")
}

// byteOnly implements io.ByteReader and nothing else.
type byteOnly struct{ r *bytes.Reader }

func (b byteOnly) ReadByte() (byte, error) { return b.r.ReadByte() }

// dribble implements io.Reader and io.ByteReader; Read delivers at most n bytes per call
// (a legal short read).
type dribble struct {
	r *bytes.Reader
	n int
}

func (d dribble) ReadByte() (byte, error) { return d.r.ReadByte() }
func (d dribble) Read(p []byte) (int, error) {
	if len(p) > d.n {
		p = p[:d.n]
	}
	return d.r.Read(p)
}

// varintSources: each returns an io.ByteReader over the stream and a function reporting how
// many bytes of the stream have not been consumed through it yet.
var varintSources = []func(b []byte) (io.ByteReader, func() int){
	func(b []byte) (io.ByteReader, func() int) { r := bytes.NewReader(b); return r, r.Len },
	func(b []byte) (io.ByteReader, func() int) { r := bytes.NewReader(b); return byteOnly{r}, r.Len },
	func(b []byte) (io.ByteReader, func() int) { r := bytes.NewReader(b); return dribble{r, 1}, r.Len },
	func(b []byte) (io.ByteReader, func() int) { r := bytes.NewReader(b); return dribble{r, 3}, r.Len },
	func(b []byte) (io.ByteReader, func() int) {
		r := bytes.NewReader(b)
		br := bufio.NewReaderSize(dribble{r, 5}, 16)
		return br, func() int { return r.Len() + br.Buffered() }
	},
	func(b []byte) (io.ByteReader, func() int) {
		r := bytes.NewReader(b)
		br := bufio.NewReaderSize(r, 16)
		return br, func() int { return r.Len() + br.Buffered() }
	},
}
