package props

import (
	"fmt"
	"strings"
	"testing"

	tls "github.com/refraction-networking/utls"
	"verifharness/mon"
	"verifharness/wire"
)

// fpRoundTrip fingerprints hello A (handshake message) and builds hello B from the spec.
func fpRoundTrip(f *tls.Fingerprinter, a []byte, sni string) (b []byte, spec *tls.ClientHelloSpec, err error, panicked string) {
	pn, pv := recoverPanic(func() { spec, err = f.FingerprintClientHello(recordOf(a)) })
	if pn {
		return nil, nil, nil, fmt.Sprint(pv)
	}
	if err != nil {
		return nil, nil, err, ""
	}
	b, _, err, panicked = buildHello(&tls.Config{ServerName: sni, OmitEmptyPsk: true}, tls.HelloCustom, func(u *tls.UConn) error { return u.ApplyPreset(spec) })
	return b, spec, err, panicked
}

// expectedWithPadding inserts a padding component into the normalised shape of A at the
// documented position (before pre_shared_key if present, else at the end) when A has none.
func expectedWithPadding(normA string) string {
	if strings.Contains(normA, "0015:pad|") {
		return normA
	}
	if i := strings.Index(normA, "0029:psk|"); i >= 0 {
		return normA[:i] + "0015:pad|" + normA[i:]
	}
	return normA + "0015:pad|"
}

// C06 — Fingerprinting a ClientHello and re-applying it reproduces its shape.
func TestC06(t *testing.T) {
	r := mon.New("C06", "hellos A from every parrot, seeded randomized specs, generated custom specs and harness-written foreign hellos x SNI values x Fingerprinter flags {AllowBluntMimicry, AlwaysAddPadding, RealPSKResumption}: norm(A) == norm(B) for B built from FingerprintClientHello(A)+ApplyPreset (independent normaliser), equal total length for equal-size per-connection parts, and idempotence norm(fp(B))==norm(B). Inputs the importer rejects are counted separately. distinct = normalised shapes")
	defer r.Finish(t)
	type src struct {
		name string
		raw  []byte
		sni  string
		own  bool // produced by utls itself (must be representable)
	}
	var srcs []src
	snis := []string{"example.test", "a.test", sniOfLen(70, 3) + ".test"}
	for i, p := range AllParrots {
		for k := 0; k < mon.Pick(4, 12); k++ {
			sni := snis[(i+k)%3]
			raw, _, err, _ := buildHello(&tls.Config{ServerName: sni, OmitEmptyPsk: true}, p.ID, nil)
			if err == nil {
				srcs = append(srcs, src{p.Name, raw, sni, true})
			}
		}
	}
	for i := 0; i < mon.Pick(1500, 60000); i++ {
		rg := Sub("C06rand", i)
		var seed tls.PRNGSeed
		rg.Read(seed[:])
		id := []tls.ClientHelloID{tls.HelloRandomized, tls.HelloRandomizedALPN, tls.HelloRandomizedNoALPN}[i%3]
		id.Seed = &seed
		sni := snis[i%3]
		raw, _, err, _ := buildHello(&tls.Config{ServerName: sni, OmitEmptyPsk: true}, id, nil)
		if err == nil {
			srcs = append(srcs, src{"randomized", raw, sni, true})
		}
	}
	for i := 0; i < mon.Pick(3000, 80000); i++ {
		rg := Sub("C06spec", i)
		spec, d := GenSpec(rg, GenOpts{})
		hasUnrepresentable := false
		for _, k := range d.Kinds {
			if k == "cookie" || k == "generic" || k == "sigalgs_cert_x" {
				hasUnrepresentable = true
			}
		}
		sni := snis[i%3]
		raw, _, err, _ := buildHello(&tls.Config{ServerName: sni, OmitEmptyPsk: true}, tls.HelloCustom, func(u *tls.UConn) error { return u.ApplyPreset(spec) })
		if err == nil {
			srcs = append(srcs, src{"custom", raw, sni, !hasUnrepresentable})
		}
	}
	for i := 0; i < mon.Pick(2000, 80000); i++ {
		rg := Sub("C06foreign", i)
		sni := snis[i%3]
		msg, kinds := ForeignHello(rg, sni)
		if strings.Contains(strings.Join(kinds, ","), "exotic") {
			continue // shapes utls has no representation for (responder ids, extra name types): outside the statement
		}
		srcs = append(srcs, src{"foreign", msg, sni, false})
	}
	var rejected, compared int64
	for i, s := range srcs {
		chA, err := wire.ParseClientHello(s.raw)
		if err != nil {
			continue // C02's business
		}
		flagSets := []tls.Fingerprinter{{}, {AllowBluntMimicry: true}, {AlwaysAddPadding: true}, {RealPSKResumption: true}, {AllowBluntMimicry: true, AlwaysAddPadding: true}}
		f := flagSets[i%len(flagSets)]
		label := fmt.Sprintf("blunt=%v,pad=%v,realpsk=%v", f.AllowBluntMimicry, f.AlwaysAddPadding, f.RealPSKResumption)
		// a different server name of the same length
		sniB := strings.Repeat("z", len(s.sni))
		if len(sniB) > 5 {
			sniB = sniB[:len(sniB)-5] + ".test"
		}
		b, spec, err, pn := fpRoundTrip(&f, s.raw, sniB)
		sig := func(kind string) map[string]string {
			return map[string]string{"kind": kind, "src": s.name, "flags": label}
		}
		if pn != "" {
			r.Violation(sig("fingerprint_apply_panic"), s.name+": "+pn, map[string]any{"hello": mon.Hex(s.raw)})
			continue
		}
		if err != nil {
			rejected++
			if s.own && !(f.RealPSKResumption && chA.Has(wire.ExtPreSharedKey)) {
				// utls' own output must be representable (real-PSK without a session may legitimately refuse)
				r.Violation(sig("own_hello_not_representable"), fmt.Sprintf("%s: a hello utls produced cannot be fingerprinted and re-applied: %v", s.name, err), map[string]any{"hello": mon.Hex(s.raw)})
			}
			r.Case("rejected|"+s.name, false)
			continue
		}
		chB, err := wire.ParseClientHello(b)
		if err != nil {
			r.Violation(sig("regenerated_hello_invalid"), err.Error(), map[string]any{"a": mon.Hex(s.raw), "b": mon.Hex(b)})
			continue
		}
		compared++
		opts := NormOpts{}
		if f.AlwaysAddPadding {
			// the added padding extension follows the BoringSSL policy, so it is only on the
			// wire for lengths in (255,512): compare without padding, check its position
			opts.DropPadding = true
			if chB.Has(wire.ExtPadding) && !chA.Has(wire.ExtPadding) {
				last := chB.Exts[len(chB.Exts)-1].Type
				pos := -1
				for k, e := range chB.Exts {
					if e.Type == wire.ExtPadding {
						pos = k
					}
				}
				okPos := pos == len(chB.Exts)-1 || (last == wire.ExtPreSharedKey && pos == len(chB.Exts)-2)
				if !okPos {
					r.Violation(sig("added_padding_position"), fmt.Sprintf("%s: AlwaysAddPadding put the padding extension at index %d of %d", s.name, pos, len(chB.Exts)), map[string]any{"b": mon.Hex(b)})
				}
			}
		}
		na, nb := NormHello(chA, opts), NormHello(chB, opts)
		want := na
		// real-PSK without a session and OmitEmptyPsk: the PSK extension is legitimately omitted
		if f.RealPSKResumption && chA.Has(wire.ExtPreSharedKey) && !chB.Has(wire.ExtPreSharedKey) {
			want = strings.Replace(want, "0029:psk|", "", 1)
		}
		// session id length: a capture without session id is regenerated with a fresh 32-byte one (per-connection material)
		want = normSid(want)
		nb2 := normSid(nb)
		if want != nb2 {
			r.Violation(sig("shape_not_reproduced"), fmt.Sprintf("%s (%s): %s", s.name, label, diffNorm(want, nb2)), map[string]any{"a": mon.Hex(s.raw), "b": mon.Hex(b)})
		} else if !f.AlwaysAddPadding && len(chA.SessionID) == len(chB.SessionID) && ticketLen(chA) == ticketLen(chB) && pskLen(chA) == pskLen(chB) && echLen(chA) == echLen(chB) && chA.PaddingLen != 0 && extLen(chA, wire.ExtSNI) == extLen(chB, wire.ExtSNI) {
			// equal-size per-connection parts => equal total length (captures with an empty
			// padding extension are outside the statement)
			if len(s.raw) != len(b) && (chA.PaddingLen > 0 || !chA.Has(wire.ExtPadding)) {
				r.Violation(sig("length_not_reproduced"), fmt.Sprintf("%s: A is %d bytes, regenerated hello %d bytes", s.name, len(s.raw), len(b)), map[string]any{"a": mon.Hex(s.raw), "b": mon.Hex(b)})
			}
		}
		// idempotence
		f2 := f
		c, _, err2, pn2 := fpRoundTrip(&f2, b, sniB)
		if pn2 != "" || err2 != nil {
			r.Violation(sig("refingerprint_failed"), fmt.Sprintf("%s: fingerprinting the regenerated hello fails: %v %s", s.name, err2, pn2), map[string]any{"b": mon.Hex(b)})
		} else if chC, err := wire.ParseClientHello(c); err != nil {
			r.Violation(sig("regenerated_hello_invalid"), err.Error(), nil)
		} else if nc := normSid(NormHello(chC, opts)); nc != nb2 {
			r.Violation(sig("not_idempotent"), fmt.Sprintf("%s (%s): second round trip changes the shape: %s", s.name, label, diffNorm(nb2, nc)), map[string]any{"b": mon.Hex(b), "c": mon.Hex(c)})
		}
		_ = spec
		r.Case(s.name+"|"+nb, true)
		if compared <= 2 {
			r.Sample(map[string]any{"source": s.name, "flags": label, "norm": nb})
		}
	}
	r.Count("compared", compared)
	r.Count("rejected_by_importer", rejected)
	r.Floor("compared", 500)
}

func normSid(n string) string {
	i := strings.Index(n, ";sid=")
	j := strings.Index(n, ";cs=")
	if i < 0 || j < 0 {
		return n
	}
	return n[:i] + n[j:]
}

func ticketLen(ch *wire.ClientHello) int { return len(ch.Ticket) }
func pskLen(ch *wire.ClientHello) int {
	if e := ch.Ext(wire.ExtPreSharedKey); e != nil {
		return len(e.Data)
	}
	return -1
}
func echLen(ch *wire.ClientHello) int {
	if e := ch.Ext(wire.ExtECH); e != nil {
		return len(e.Data)
	}
	return -1
}

func extLen(ch *wire.ClientHello, t uint16) int {
	if e := ch.Ext(t); e != nil {
		return len(e.Data)
	}
	return -1
}
