package props

import (
	"fmt"
	"sync"
	"testing"

	"verifharness/mon"
	"verifharness/peer"
	"verifharness/wire"
)

var allowedRefusalAlerts = map[int]string{40: "handshake_failure", 70: "protocol_version", 71: "insufficient_security", 120: "no_application_protocol", 112: "unrecognized_name"}

// classify decides whether a failed handshake is the allowed "server rejected the offer"
// case, from protocol-level events only.
func classifyFailure(h *peer.HS) (allowed bool, class string) {
	if a := serverFirstAlert(h.S2C); a >= 0 {
		if n, ok := allowedRefusalAlerts[a]; ok {
			return true, "server_refused:" + n
		}
		return false, fmt.Sprintf("server_first_alert_%d", a)
	}
	// who sent the first alert / who stopped?
	crecs, _, _ := wire.SplitRecords(h.C2S)
	srecs, _, _ := wire.SplitRecords(h.S2C)
	clientAlert := false
	for _, r := range crecs {
		if r.Type == 21 && len(r.Body) == 2 {
			clientAlert = true
		}
	}
	if len(srecs) == 0 {
		return false, "server_sent_nothing"
	}
	if clientAlert {
		return false, "client_abort_after_server_flight"
	}
	return false, "abort_after_serverhello"
}

// C10 — Every offered fingerprint completes a handshake with a compliant server.
func TestC10(t *testing.T) {
	r := mon.New("C10", "targets (every parrot, Golang, seeded randomized specs, fingerprinted copies, generated custom specs) x server configurations swept one dimension at a time over what the wire hello offers and the in-repo server implements: each advertised version, each listed group (forcing HRR when no share was sent), each offered TLS 1.3 suite (really used via hook H5) and <=1.2 suite, ALPN choices, RSA/ECDSA/Ed25519 leaf. Pass = both sides complete and data echoes both ways; a failure is allowed only when the server's first record is a plaintext refusal alert. distinct = (target family, dimension, value, outcome)")
	defer r.Finish(t)
	var targets []Target
	targets = append(targets, ParrotTargets(true)...)
	for i := 0; i < mon.Pick(80, 2000); i++ {
		targets = append(targets, RandomizedTarget(i))
	}
	for i, p := range AllParrots {
		if mon.Thorough() || i%4 == 0 {
			if ft, err := FingerprintedTarget(Target{Name: p.Name, ID: p.ID}, "example.test"); err == nil {
				targets = append(targets, ft)
			}
		}
	}
	for i := 0; i < mon.Pick(120, 5000); i++ {
		targets = append(targets, CustomTarget(i))
	}
	targets = append(targets, HybridListedOnlyTargets()...)
	targets = append(targets, NoShareTargets()...) // no usable share in the first hello: every TLS 1.3 server answers with a HelloRetryRequest
	type job struct {
		t  Target
		gc GridCase
		o  Offer
	}
	var jobs []job
	hrrPlanned := map[string]int{}
	for ti, tg := range targets {
		ch, err := tg.Probe("example.test")
		if err != nil {
			r.Violation(map[string]string{"kind": "probe_failed", "target": family(tg.Name)}, fmt.Sprintf("%s: cannot build hello: %v", tg.Name, err), nil)
			continue
		}
		min := targetMinVersion(tg)
		o := OfferOf(ch, min)
		full := mon.Thorough() || ti < len(AllParrots)+1
		for _, gc := range GridFor(o, full, Sub("C10grid", ti)) {
			jobs = append(jobs, job{tg, gc, o})
			if gc.WantHRR == 1 {
				hrrPlanned[tg.Name]++
			}
		}
	}
	r.Count("planned_cases", int64(len(jobs)))
	var mu sync.Mutex
	refusals := map[string]int{}
	parallel(len(jobs), func(i int) {
		j := jobs[i]
		h := RunCase(j.t, j.gc, "example.test", nil, peer.Opts{})
		sig := map[string]string{"target": family(j.t.Name), "dim": j.gc.Dim, "val": j.gc.Val}
		rep := map[string]any{"case": i, "target": j.t.Name, "dim": j.gc.Dim, "val": j.gc.Val, "client_err": fmt.Sprint(h.ClientErr), "server_err": fmt.Sprint(h.ServerErr), "echo_err": fmt.Sprint(h.EchoErr)}
		outcome := "ok"
		switch {
		case h.ClientPanic != "" || h.ServerPanic != "":
			sig["kind"] = "handshake_panic"
			r.Violation(sig, fmt.Sprintf("%s vs %s=%s: panic client=%q server=%q", j.t.Name, j.gc.Dim, j.gc.Val, firstLine(h.ClientPanic), firstLine(h.ServerPanic)), rep)
			outcome = "panic"
		case h.OK():
			r.Count("completed", 1)
			if sawHRR(h.S2C) {
				r.Count("hrr_completed", 1)
			}
			// the server really made the choice the case asked for
			if j.gc.WantVersion != 0 && h.SState.Version != j.gc.WantVersion && j.gc.Dim != "version" {
				// version dimension caps only; others pin
			}
			if j.gc.WantSuite != 0 && h.SState.CipherSuite != j.gc.WantSuite {
				r.Note(fmt.Sprintf("%s %s=%s negotiated suite %#04x", j.t.Name, j.gc.Dim, j.gc.Val, h.SState.CipherSuite))
			}
			if g, ok := stateCurve(h.SState); ok && j.gc.WantGroup != 0 && g != j.gc.WantGroup {
				r.Note(fmt.Sprintf("%s %s=%s negotiated group %#04x", j.t.Name, j.gc.Dim, j.gc.Val, g))
			}
			if j.gc.WantHRR == 1 && !sawHRR(h.S2C) {
				r.Note(fmt.Sprintf("%s %s=%s: expected an HRR, none seen", j.t.Name, j.gc.Dim, j.gc.Val))
			}
		case h.ClientErr == nil && h.ServerErr == nil && h.EchoErr != nil:
			sig["kind"] = "data_roundtrip_failed"
			r.Violation(sig, fmt.Sprintf("%s vs %s=%s: handshake completed but application data did not round-trip: %v", j.t.Name, j.gc.Dim, j.gc.Val, h.EchoErr), rep)
			outcome = "echo"
		default:
			allowed, class := classifyFailure(h)
			outcome = class
			if allowed {
				mu.Lock()
				refusals[j.gc.Dim+"="+j.gc.Val+":"+class]++
				mu.Unlock()
				r.Count("server_refused", 1)
			} else {
				sig["kind"] = "client_aborts_offered_choice"
				sig["class"] = class
				if g := hrrGroup(h.S2C); g == 0x11ec || g == 0x6399 {
					// F44 (known): the server asked, by HelloRetryRequest, for a hybrid group the
					// hello lists without a share; the client cannot generate a hybrid share then.
					// One signature for the whole class, whatever the target and grid case.
					sig = map[string]string{"kind": "client_aborts_offered_choice", "class": "hybrid_group_requested_by_hello_retry_request"}
				}
				if j.gc.Dim == "group13" || j.gc.Dim == "group12" || j.gc.Dim == "suite13" || j.gc.Dim == "suite12" {
					// keep the signature specific: which offered value
				} else {
					delete(sig, "val")
				}
				r.Violation(sig, fmt.Sprintf("%s vs server %s=%s: handshake failed although the hello offers this choice (%s): client=%v server=%v", j.t.Name, j.gc.Dim, j.gc.Val, class, h.ClientErr, h.ServerErr), rep)
			}
		}
		r.Case(fmt.Sprintf("%s|%s|%s|%s", family(j.t.Name), j.gc.Dim, j.gc.Val, outcome), outcome == "ok")
		if i%397 == 0 {
			r.Sample(map[string]any{"target": j.t.Name, "dim": j.gc.Dim, "val": j.gc.Val, "outcome": outcome, "version": fmt.Sprintf("%#04x", h.SState.Version), "suite": fmt.Sprintf("%#04x", h.SState.CipherSuite)})
		}
	})
	for k, v := range refusals {
		r.Note(fmt.Sprintf("allowed refusal %s x%d", k, v))
	}
	// independent peer (optional): OpenSSL s_server; quick = 2 configurations per parrot,
	// thorough = every applicable configuration for every target
	if mon.Thorough() {
		// every configuration for every parrot; three PRNG-chosen ones for each other target
		var rest []Target
		for _, tg := range targets {
			if tg.Spec != nil || tg.ID.Seed != nil {
				rest = append(rest, tg)
			}
		}
		opensslSweep(r, ParrotTargets(true), 0, "C10")
		if len(rest) > 600 { // one s_server process per case: keep the pass within minutes
			rest = pickSubset(Sub("C10openssl-rest", 0), rest, 600, 600)
		}
		opensslSweep(r, rest, 3, "C10rest")
	} else {
		opensslSweep(r, ParrotTargets(true), 2, "C10")
	}
	r.Floor("completed", int64(len(jobs)*6/10))
	r.Floor("hrr_completed", 20)
	r.Assume("the in-repo tls.Server (hooked where it must make a choice it would not make by itself) is the standards-compliant server; OpenSSL s_server, when an openssl binary exists, is a second, independent one (its absence is recorded, not a failure)")
}

func family(name string) string {
	for _, pfx := range []string{"randomized-", "custom-"} {
		if len(name) > len(pfx) && name[:len(pfx)] == pfx {
			return pfx[:len(pfx)-1]
		}
	}
	return name
}

func firstLine(s string) string {
	for i := 0; i < len(s); i++ {
		if s[i] == '\n' {
			return s[:i]
		}
	}
	return s
}
