package props

import (
	"fmt"
	tls "github.com/refraction-networking/utls"
	"strings"
	"sync"
	"testing"

	"verifharness/mon"
	"verifharness/peer"
	"verifharness/wire"
)

var allowedRefusalAlerts = map[int]string{40: "handshake_failure", 70: "protocol_version", 71: "insufficient_security", 120: "no_application_protocol", 112: "unrecognized_name"}

// classify decides whether a failed handshake is the allowed "server rejected the offer"
// case, from protocol-level events only.
func classifyFailure(h *peer.HS) (allowed bool, class string) {
	if a := serverFirstAlert(h.S2C); a >= 0 {
		if n, ok := allowedRefusalAlerts[a]; ok {
			return true, "server_refused:" + n
		}
		return false, fmt.Sprintf("server_first_alert_%d", a)
	}
	// who sent the first alert / who stopped?
	crecs, _, _ := wire.SplitRecords(h.C2S)
	srecs, _, _ := wire.SplitRecords(h.S2C)
	clientAlert := false
	for _, r := range crecs {
		if r.Type == 21 && len(r.Body) == 2 {
			clientAlert = true
		}
	}
	if len(srecs) == 0 {
		return false, "server_sent_nothing"
	}
	if clientAlert {
		return false, "client_abort_after_server_flight"
	}
	return false, "abort_after_serverhello"
}

// C10 — Every offered fingerprint completes a handshake with a compliant server.
func TestC10(t *testing.T) {
	r := mon.New("C10", "targets (every parrot, Golang, seeded randomized specs, fingerprinted copies, generated custom specs) x server configurations swept one dimension at a time over what the wire hello offers and the in-repo server implements: each advertised version, each listed group (forcing HRR when no share was sent), each offered TLS 1.3 suite (really used via hook H5) and <=1.2 suite, ALPN choices, RSA/ECDSA/Ed25519 leaf. Pass = both sides complete and data echoes both ways; a failure is allowed only when the server's first record is a plaintext refusal alert. distinct = (target family, dimension, value, outcome)")
	defer r.Finish(t)
	var targets []Target
	targets = append(targets, ParrotTargets(true)...)
	for i := 0; i < mon.Pick(80, 2000); i++ {
		targets = append(targets, RandomizedTarget(i))
	}
	for i, p := range AllParrots {
		if mon.Thorough() || i%4 == 0 {
			if ft, err := FingerprintedTarget(Target{Name: p.Name, ID: p.ID}, "example.test"); err == nil {
				targets = append(targets, ft)
			}
		}
	}
	for i := 0; i < mon.Pick(120, 5000); i++ {
		targets = append(targets, CustomTarget(i))
	}
	targets = append(targets, HybridListedOnlyTargets()...)
	targets = append(targets, NoShareTargets()...) // no usable share in the first hello: every TLS 1.3 server answers with a HelloRetryRequest
	type job struct {
		t  Target
		gc GridCase
		o  Offer
	}
	var jobs []job
	hrrPlanned := map[string]int{}
	for ti, tg := range targets {
		ch, err := tg.Probe("example.test")
		if err != nil {
			r.Violation(map[string]string{"kind": "probe_failed", "target": family(tg.Name)}, fmt.Sprintf("%s: cannot build hello: %v", tg.Name, err), nil)
			continue
		}
		min := targetMinVersion(tg)
		o := OfferOf(ch, min)
		full := mon.Thorough() || ti < len(AllParrots)+1
		for _, gc := range GridFor(o, full, Sub("C10grid", ti)) {
			jobs = append(jobs, job{tg, gc, o})
			if gc.WantHRR == 1 {
				hrrPlanned[tg.Name]++
			}
		}
	}
	// servers that use the certificate compression the hello offers (RFC 8879), with an
	// everyday chain and with one of about 100 KB (certificate messages may be up to 256 KiB)
	{
		f := peer.Fix()
		big := f.CA.Leaf(peer.LeafOpts{Kind: "ecdsa", Names: peer.DefaultNames, Ballast: 40000})
		for _, b := range []int{30000, 20000} {
			extra := f.CA.Leaf(peer.LeafOpts{Kind: "ecdsa", Names: []string{"extra.test"}, Ballast: b})
			big.Certificate = append(big.Certificate, extra.Certificate[0])
		}
		for ti, tg := range targets {
			if ti >= len(AllParrots)+1 && !mon.Thorough() && ti%5 != 0 {
				continue
			}
			ch, err := tg.Probe("example.test")
			if err != nil || len(ch.CertCompAlgs) == 0 {
				continue
			}
			o := OfferOf(ch, targetMinVersion(tg))
			if !o.Has(tls.VersionTLS13) || len(o.Suites13) == 0 {
				continue
			}
			for _, alg := range ch.CertCompAlgs {
				if alg < 1 || alg > 3 {
					continue
				}
				for _, chainName := range []string{"everyday", "100k"} {
					c := peer.ServerConfig()
					if chainName == "100k" {
						c.Certificates = []tls.Certificate{big}
					}
					jobs = append(jobs, job{tg, GridCase{Dim: "cert-compression", Val: fmt.Sprintf("%d/%s", alg, chainName), Server: c, Plan: compressCertPlan(alg), WantVersion: tls.VersionTLS13, WantHRR: -1}, o})
				}
			}
		}
	}
	r.Count("planned_cases", int64(len(jobs)))
	var mu sync.Mutex
	refusals := map[string]int{}
	parallel(len(jobs), func(i int) {
		j := jobs[i]
		h := RunCase(j.t, j.gc, "example.test", nil, peer.Opts{})
		sig := map[string]string{"target": family(j.t.Name), "dim": j.gc.Dim, "val": j.gc.Val}
		rep := map[string]any{"case": i, "target": j.t.Name, "dim": j.gc.Dim, "val": j.gc.Val, "client_err": fmt.Sprint(h.ClientErr), "server_err": fmt.Sprint(h.ServerErr), "echo_err": fmt.Sprint(h.EchoErr)}
		outcome := "ok"
		switch {
		case h.ClientPanic != "" || h.ServerPanic != "":
			sig["kind"] = "handshake_panic"
			r.Violation(sig, fmt.Sprintf("%s vs %s=%s: panic client=%q server=%q", j.t.Name, j.gc.Dim, j.gc.Val, firstLine(h.ClientPanic), firstLine(h.ServerPanic)), rep)
			outcome = "panic"
		case h.OK():
			r.Count("completed", 1)
			if j.gc.Dim == "cert-compression" {
				r.Count("completed_with_compressed_certificate", 1)
			}
			if sawHRR(h.S2C) {
				r.Count("hrr_completed", 1)
			}
			// the server really made the choice the case asked for
			if j.gc.WantVersion != 0 && h.SState.Version != j.gc.WantVersion && j.gc.Dim != "version" {
				// version dimension caps only; others pin
			}
			if j.gc.WantSuite != 0 && h.SState.CipherSuite != j.gc.WantSuite {
				r.Note(fmt.Sprintf("%s %s=%s negotiated suite %#04x", j.t.Name, j.gc.Dim, j.gc.Val, h.SState.CipherSuite))
			}
			if g, ok := stateCurve(h.SState); ok && j.gc.WantGroup != 0 && g != j.gc.WantGroup {
				r.Note(fmt.Sprintf("%s %s=%s negotiated group %#04x", j.t.Name, j.gc.Dim, j.gc.Val, g))
			}
			if j.gc.WantHRR == 1 && !sawHRR(h.S2C) {
				r.Note(fmt.Sprintf("%s %s=%s: expected an HRR, none seen", j.t.Name, j.gc.Dim, j.gc.Val))
			}
		case h.ClientErr == nil && h.ServerErr == nil && h.EchoErr != nil:
			sig["kind"] = "data_roundtrip_failed"
			r.Violation(sig, fmt.Sprintf("%s vs %s=%s: handshake completed but application data did not round-trip: %v", j.t.Name, j.gc.Dim, j.gc.Val, h.EchoErr), rep)
			outcome = "echo"
		default:
			allowed, class := classifyFailure(h)
			outcome = class
			if allowed {
				mu.Lock()
				refusals[j.gc.Dim+"="+j.gc.Val+":"+class]++
				mu.Unlock()
				r.Count("server_refused", 1)
			} else {
				sig["kind"] = "client_aborts_offered_choice"
				sig["class"] = class
				if g := hrrGroup(h.S2C); g == 0x11ec || g == 0x6399 {
					// F44 (known): the server asked, by HelloRetryRequest, for a hybrid group the
					// hello lists without a share; the client cannot generate a hybrid share then.
					// One signature for the whole class, whatever the target and grid case.
					sig = map[string]string{"kind": "client_aborts_offered_choice", "class": "hybrid_group_requested_by_hello_retry_request"}
				}
				if j.gc.Dim == "group13" || j.gc.Dim == "group12" || j.gc.Dim == "suite13" || j.gc.Dim == "suite12" {
					// keep the signature specific: which offered value
				} else {
					delete(sig, "val")
				}
				r.Violation(sig, fmt.Sprintf("%s vs server %s=%s: handshake failed although the hello offers this choice (%s): client=%v server=%v", j.t.Name, j.gc.Dim, j.gc.Val, class, h.ClientErr, h.ServerErr), rep)
			}
		}
		r.Case(fmt.Sprintf("%s|%s|%s|%s", family(j.t.Name), j.gc.Dim, j.gc.Val, outcome), outcome == "ok")
		if i%397 == 0 {
			r.Sample(map[string]any{"target": j.t.Name, "dim": j.gc.Dim, "val": j.gc.Val, "outcome": outcome, "version": fmt.Sprintf("%#04x", h.SState.Version), "suite": fmt.Sprintf("%#04x", h.SState.CipherSuite)})
		}
	})
	for k, v := range refusals {
		r.Note(fmt.Sprintf("allowed refusal %s x%d", k, v))
	}
	// returning clients: the same name is visited twice through one session cache and the
	// server (same ticket keys, as in a server pool) makes a different - offered - choice the
	// second time: another suite, another group (HelloRetryRequest), another version. The
	// second connection must complete whether or not the session is resumed.
	{
		type rjob struct {
			t      Target
			first  GridCase
			second GridCase
		}
		var rjobs []rjob
		var ticketKey [32]byte
		copy(ticketKey[:], "verif C10 returning clients key.")
		rtargets := append([]Target{}, ParrotTargets(true)...)
		for i := 0; i < mon.Pick(30, 600); i++ {
			rtargets = append(rtargets, CustomTarget(i))
		}
		for i := 0; i < mon.Pick(10, 200); i++ {
			rtargets = append(rtargets, RandomizedTarget(i))
		}
		for ti, tg := range rtargets {
			if tg.Pre != nil {
				continue
			}
			ch, err := tg.Probe("example.test")
			if err != nil {
				continue
			}
			o := OfferOf(ch, targetMinVersion(tg))
			grid := GridFor(o, true, Sub("C10returning", ti))
			var firsts, seconds []GridCase
			for _, gc := range grid {
				switch gc.Dim {
				case "suite13", "suite12", "group13", "version":
					seconds = append(seconds, gc)
					if gc.Dim == "suite13" || gc.Dim == "version" || (gc.Dim == "suite12" && len(firsts) < 4) {
						firsts = append(firsts, gc)
					}
				}
			}
			// every ordered pair of offered TLS 1.3 suites (a ticket issued under one suite is
			// valid for every suite with the same hash)
			if ti < len(AllParrots)+1 || mon.Thorough() {
				for _, a := range grid {
					for _, b := range grid {
						if a.Dim == "suite13" && b.Dim == "suite13" {
							rjobs = append(rjobs, rjob{tg, a, b})
						}
					}
				}
			}
			rg := Sub("C10returning-pick", ti)
			n := mon.Pick(6, 40)
			if ti < len(AllParrots)+1 {
				n = mon.Pick(14, 120)
			}
			for k := 0; k < n && len(firsts) > 0 && len(seconds) > 0; k++ {
				rjobs = append(rjobs, rjob{tg, firsts[rg.Intn(len(firsts))], seconds[rg.Intn(len(seconds))]})
			}
		}
		r.Count("returning_planned", int64(len(rjobs)))
		parallel(len(rjobs), func(i int) {
			j := rjobs[i]
			cache := tls.NewLRUClientSessionCache(4)
			withCache := func(c *tls.Config) {
				c.ClientSessionCache = cache
				c.PreferSkipResumptionOnNilExtension = true
			}
			s1, s2 := j.first.Server.Clone(), j.second.Server.Clone()
			s1.SetSessionTicketKeys([][32]byte{ticketKey})
			s2.SetSessionTicketKeys([][32]byte{ticketKey})
			f, sd := j.first, j.second
			f.Server, sd.Server = s1, s2
			h1 := RunCase(j.t, f, "example.test", withCache, peer.Opts{})
			if !h1.OK() {
				return // the single-connection sweep above judges first connections
			}
			h := RunCase(j.t, sd, "example.test", withCache, peer.Opts{})
			outcome := "ok"
			switch {
			case h.ClientPanic != "" || h.ServerPanic != "":
				outcome = "panic"
				r.Violation(map[string]string{"kind": "handshake_panic", "target": family(j.t.Name), "dim": "returning:" + sd.Dim}, fmt.Sprintf("%s returning (%s=%s then %s=%s): panic client=%q server=%q", j.t.Name, f.Dim, f.Val, sd.Dim, sd.Val, firstLine(h.ClientPanic), firstLine(h.ServerPanic)), nil)
			case h.OK():
				r.Count("returning_completed", 1)
				if h.CState.DidResume {
					r.Count("returning_resumed", 1)
					if h.CState.CipherSuite != h1.CState.CipherSuite {
						r.Count("returning_resumed_with_another_suite", 1)
					}
					if sawHRR(h.S2C) {
						r.Count("returning_resumed_after_hrr", 1)
					}
				}
			default:
				allowed, class := classifyFailure(h)
				outcome = class
				if allowed {
					r.Count("server_refused", 1)
					break
				}
				sig := map[string]string{"kind": "client_aborts_offered_choice", "class": class, "target": family(j.t.Name), "dim": "returning:" + sd.Dim}
				if g := hrrGroup(h.S2C); g == 0x11ec || g == 0x6399 {
					sig = map[string]string{"kind": "client_aborts_offered_choice", "class": "hybrid_group_requested_by_hello_retry_request"}
				} else if h.ClientErr != nil && strings.Contains(h.ClientErr.Error(), "does not support reprocessing of PSK key") {
					// F10b (known, also listed under C19): a preset that offers a cached TLS 1.3
					// session cannot answer a HelloRetryRequest
					sig = map[string]string{"kind": "client_aborts_offered_choice", "class": "psk_offered_and_hello_retry_request"}
				}
				r.Violation(sig, fmt.Sprintf("%s returning to the same name (first %s=%s, then %s=%s): the second handshake failed although the hello offers this choice (%s): client=%v server=%v", j.t.Name, f.Dim, f.Val, sd.Dim, sd.Val, class, h.ClientErr, h.ServerErr), map[string]any{"target": j.t.Name, "first": f.Dim + "=" + f.Val, "second": sd.Dim + "=" + sd.Val})
			}
			r.Case(fmt.Sprintf("returning|%s|%s|%s=%s|%v|%s", family(j.t.Name), f.Dim, sd.Dim, sd.Val, h.CState.DidResume, outcome), outcome == "ok")
		})
		r.Floor("returning_completed", int64(len(rjobs)/2))
		r.Floor("returning_resumed", 20)
		r.Floor("returning_resumed_with_another_suite", 8)
	}
	// one Config shared by two connections with different fingerprints (a Config "may be
	// reused"): another connection applies its preset between this connection's hello being
	// built and its handshake. What this hello offers is still what the server may choose.
	{
		var narrow, wide []Target
		for _, tg := range ParrotTargets(true) {
			ch, err := tg.Probe("example.test")
			if err != nil || tg.Pre != nil || tg.Edit != nil {
				continue
			}
			if o := OfferOf(ch, targetMinVersion(tg)); o.Has(tls.VersionTLS13) && len(o.Suites13) > 0 {
				wide = append(wide, tg)
			} else {
				narrow = append(narrow, tg)
			}
		}
		type pair struct{ a, b Target }
		var pairs []pair
		for i, a := range wide {
			if len(narrow) > 0 {
				pairs = append(pairs, pair{a, narrow[i%len(narrow)]})
			}
		}
		for i, a := range narrow {
			pairs = append(pairs, pair{a, wide[i%len(wide)]})
		}
		parallel(len(pairs), func(i int) {
			pr := pairs[i]
			var shared *tls.Config
			a := pr.a
			a.Style = StylePlain
			a.Edit = func(u *tls.UConn) error {
				other := tls.UClient(nil, shared, pr.b.ClientID())
				if err := pr.b.Prepare()(other); err != nil {
					return err
				}
				return other.BuildHandshakeState()
			}
			h := RunCase(a, GridCase{Dim: "shared-config", Val: "default-server", Server: peer.ServerConfig()}, "example.test", func(c *tls.Config) { shared = c }, peer.Opts{})
			outcome := "ok"
			switch {
			case h.OK():
				r.Count("shared_config_completed", 1)
			default:
				allowed, class := classifyFailure(h)
				outcome = class
				if allowed {
					break
				}
				// F56 (known): SetTLSVers writes the preset's version range into the caller's Config
				sig := map[string]string{"kind": "client_aborts_offered_choice", "class": class, "target": family(pr.a.Name), "dim": "shared-config"}
				if h.ClientErr != nil && strings.Contains(h.ClientErr.Error(), "server selected unsupported protocol version") {
					sig = map[string]string{"kind": "client_aborts_offered_choice", "class": "shared_config_version_range_overwritten_by_another_connection"}
				}
				r.Violation(sig, fmt.Sprintf("%s, Config shared with a connection that applied %s after this hello was built: handshake failed although the hello offers the server's choice (%s): client=%v server=%v", pr.a.Name, pr.b.Name, class, h.ClientErr, h.ServerErr), map[string]any{"target": pr.a.Name, "other": pr.b.Name})
			}
			r.Case(fmt.Sprintf("shared-config|%s|%s|%s", family(pr.a.Name), family(pr.b.Name), outcome), outcome == "ok")
		})
		r.Count("shared_config_pairs", int64(len(pairs)))
		r.Floor("shared_config_pairs", 20)
	}
	// independent peer (optional): OpenSSL s_server; quick = 2 configurations per parrot,
	// thorough = every applicable configuration for every target
	if mon.Thorough() {
		// every configuration for every parrot; three PRNG-chosen ones for each other target
		var rest []Target
		for _, tg := range targets {
			if tg.Spec != nil || tg.ID.Seed != nil {
				rest = append(rest, tg)
			}
		}
		opensslSweep(r, ParrotTargets(true), 0, "C10")
		if len(rest) > 600 { // one s_server process per case: keep the pass within minutes
			rest = pickSubset(Sub("C10openssl-rest", 0), rest, 600, 600)
		}
		opensslSweep(r, rest, 3, "C10rest")
	} else {
		opensslSweep(r, ParrotTargets(true), 2, "C10")
	}
	r.Floor("completed", int64(len(jobs)*6/10))
	r.Floor("hrr_completed", 20)
	r.Floor("completed_with_compressed_certificate", 40)
	r.Assume("the in-repo tls.Server (hooked where it must make a choice it would not make by itself) is the standards-compliant server; OpenSSL s_server, when an openssl binary exists, is a second, independent one (its absence is recorded, not a failure)")
}

func family(name string) string {
	for _, pfx := range []string{"randomized-", "custom-"} {
		if len(name) > len(pfx) && name[:len(pfx)] == pfx {
			return pfx[:len(pfx)-1]
		}
	}
	return name
}

func firstLine(s string) string {
	for i := 0; i < len(s); i++ {
		if s[i] == '\n' {
			return s[:i]
		}
	}
	return s
}
