package props

import (
	"bytes"
	"compress/flate"
	"compress/zlib"
	"fmt"
	"io"
	"math/rand"

	"github.com/andybalholm/brotli"
	"github.com/klauspost/compress/zstd"
	"verifharness/wire"
)

// Helpers that rewrite outgoing handshake messages of the hooked server (hook H1).
// All encoders here are the harness' own.

const (
	algZlib   = 1
	algBrotli = 2
	algZstd   = 3
)

type compOpts struct {
	Level      int  // 0 default
	FlushEvery int  // >0: flush the compressor every n input bytes (multiple blocks)
	Stored     bool // zlib: stored (no compression) blocks
	Window     int  // zstd window size (0 default)
}

// compress returns a valid encoding of data for the algorithm.
func compress(alg uint16, data []byte, o compOpts) ([]byte, error) {
	var buf bytes.Buffer
	writeChunks := func(w interface {
		Write([]byte) (int, error)
	}, flush func() error) error {
		if o.FlushEvery <= 0 {
			_, err := w.Write(data)
			return err
		}
		for off := 0; off < len(data); off += o.FlushEvery {
			end := off + o.FlushEvery
			if end > len(data) {
				end = len(data)
			}
			if _, err := w.Write(data[off:end]); err != nil {
				return err
			}
			if err := flush(); err != nil {
				return err
			}
		}
		return nil
	}
	switch alg {
	case algZlib:
		lvl := zlib.DefaultCompression
		if o.Stored {
			lvl = flate.NoCompression
		} else if o.Level != 0 {
			lvl = o.Level
		}
		w, err := zlib.NewWriterLevel(&buf, lvl)
		if err != nil {
			return nil, err
		}
		if err := writeChunks(w, w.Flush); err != nil {
			return nil, err
		}
		if err := w.Close(); err != nil {
			return nil, err
		}
	case algBrotli:
		lvl := brotli.DefaultCompression
		if o.Level != 0 {
			lvl = o.Level
		}
		w := brotli.NewWriterLevel(&buf, lvl)
		if err := writeChunks(w, w.Flush); err != nil {
			return nil, err
		}
		if err := w.Close(); err != nil {
			return nil, err
		}
	case algZstd:
		opts := []zstd.EOption{zstd.WithEncoderConcurrency(1)}
		if o.Level != 0 {
			opts = append(opts, zstd.WithEncoderLevel(zstd.EncoderLevelFromZstd(o.Level)))
		}
		if o.Window != 0 {
			opts = append(opts, zstd.WithWindowSize(o.Window))
		}
		w, err := zstd.NewWriter(&buf, opts...)
		if err != nil {
			return nil, err
		}
		if err := writeChunks(w, w.Flush); err != nil {
			return nil, err
		}
		if err := w.Close(); err != nil {
			return nil, err
		}
	default:
		return nil, fmt.Errorf("unknown algorithm %d", alg)
	}
	return buf.Bytes(), nil
}

func u24(n int) []byte { return []byte{byte(n >> 16), byte(n >> 8), byte(n)} }

// compressedCertificateMsg builds a CompressedCertificate handshake message (RFC 8879).
func compressedCertificateMsg(alg uint16, declaredLen int, compressed []byte) []byte {
	body := append(be16(alg), u24(declaredLen)...)
	body = append(body, u24(len(compressed))...)
	body = append(body, compressed...)
	return append(append([]byte{25}, u24(len(body))...), body...)
}

// eeExts parses an EncryptedExtensions message into its extension list.
func eeExts(msg []byte) ([]wire.Ext, bool) {
	if len(msg) < 6 || msg[0] != 8 {
		return nil, false
	}
	body := msg[4:]
	l := int(body[0])<<8 | int(body[1])
	if l != len(body)-2 {
		return nil, false
	}
	b := body[2:]
	var out []wire.Ext
	for len(b) >= 4 {
		t := uint16(b[0])<<8 | uint16(b[1])
		n := int(b[2])<<8 | int(b[3])
		if len(b) < 4+n {
			return nil, false
		}
		out = append(out, wire.Ext{Type: t, Data: append([]byte(nil), b[4:4+n]...)})
		b = b[4+n:]
	}
	return out, len(b) == 0
}

func eeMarshal(exts []wire.Ext) []byte {
	var ex []byte
	for _, e := range exts {
		ex = append(ex, encExt(e.Type, e.Data)...)
	}
	body := vec16(ex)
	return append(append([]byte{8}, u24(len(body))...), body...)
}

func setExt(exts []wire.Ext, t uint16, data []byte) []wire.Ext {
	for i := range exts {
		if exts[i].Type == t {
			exts[i].Data = data
			return exts
		}
	}
	return append(exts, wire.Ext{Type: t, Data: data})
}

func alpnBody(proto string) []byte { return vec16(vec8([]byte(proto))) }

func pickNot[T comparable](rg *rand.Rand, pool []T, not map[T]bool) (T, bool) {
	var cands []T
	for _, p := range pool {
		if !not[p] {
			cands = append(cands, p)
		}
	}
	var zero T
	if len(cands) == 0 {
		return zero, false
	}
	return cands[rg.Intn(len(cands))], true
}

// decompressAll is the reference decompression (whole stream, until EOF) used to decide
// what a possibly corrupted CompressedCertificate really encodes.
func decompressAll(alg uint16, comp []byte) ([]byte, error) {
	switch alg {
	case algZlib:
		zr, err := zlib.NewReader(bytes.NewReader(comp))
		if err != nil {
			return nil, err
		}
		defer zr.Close()
		return io.ReadAll(io.LimitReader(zr, 1<<25))
	case algBrotli:
		return io.ReadAll(io.LimitReader(brotli.NewReader(bytes.NewReader(comp)), 1<<25))
	case algZstd:
		zr, err := zstd.NewReader(bytes.NewReader(comp), zstd.WithDecoderConcurrency(1))
		if err != nil {
			return nil, err
		}
		defer zr.Close()
		return io.ReadAll(io.LimitReader(zr, 1<<25))
	}
	return nil, fmt.Errorf("unknown algorithm")
}

// certListOf parses a TLS 1.3 Certificate message body into its DER certificates.
func certListOf(body []byte) ([][]byte, bool) {
	if len(body) < 1 {
		return nil, false
	}
	ctxLen := int(body[0])
	if len(body) < 1+ctxLen+3 {
		return nil, false
	}
	b := body[1+ctxLen:]
	l := int(b[0])<<16 | int(b[1])<<8 | int(b[2])
	b = b[3:]
	if l != len(b) {
		return nil, false
	}
	var out [][]byte
	for len(b) > 0 {
		if len(b) < 3 {
			return nil, false
		}
		n := int(b[0])<<16 | int(b[1])<<8 | int(b[2])
		b = b[3:]
		if len(b) < n+2 {
			return nil, false
		}
		out = append(out, b[:n])
		b = b[n:]
		el := int(b[0])<<8 | int(b[1])
		if len(b) < 2+el {
			return nil, false
		}
		b = b[2+el:]
	}
	return out, true
}
