package props

import (
	"crypto/hkdf"
	"crypto/sha256"
	"crypto/sha512"
	"hash"

	tls "github.com/refraction-networking/utls"
)

// The part of the TLS 1.3 key schedule (RFC 8446, Section 7.1) a caller needs to forge a
// pre_shared_key extension from a known PSK: written here from the RFC, independent of the
// library's own key schedule.

func tls13Hash(suite uint16) func() hash.Hash {
	if suite == tls.TLS_AES_256_GCM_SHA384 {
		return sha512.New384
	}
	return sha256.New
}

func tls13ExpandLabel(h func() hash.Hash, secret []byte, label string, context []byte, length int) []byte {
	full := "tls13 " + label
	info := []byte{byte(length >> 8), byte(length), byte(len(full))}
	info = append(info, full...)
	info = append(info, byte(len(context)))
	info = append(info, context...)
	out, err := hkdf.Expand(h, secret, string(info), length)
	if err != nil {
		panic(err)
	}
	return out
}

// tls13EarlySecretAndBinderKey: Early Secret = HKDF-Extract(0, PSK); binder key =
// Derive-Secret(Early Secret, "res binder", "").
func tls13EarlySecretAndBinderKey(suite uint16, psk []byte) (early, binderKey []byte) {
	h := tls13Hash(suite)
	early, err := hkdf.Extract(h, psk, nil)
	if err != nil {
		panic(err)
	}
	empty := h()
	binderKey = tls13ExpandLabel(h, early, "res binder", empty.Sum(nil), empty.Size())
	return early, binderKey
}

// forgedPSKExt builds a pre_shared_key extension for a TLS 1.3 session known only by its
// ticket, cipher suite and PSK (the way a caller forges a session: MakeClientSessionState,
// no use-by date, an obfuscated ticket age of its own choosing).
func forgedPSKExt(cs *tls.ClientSessionState) (tls.PreSharedKeyExtension, []byte) {
	ticket := append([]byte(nil), cs.SessionTicket()...)
	f := tls.MakeClientSessionState(ticket, tls.VersionTLS13, cs.CipherSuite(), append([]byte(nil), cs.MasterSecret()...), cs.ServerCertificates(), cs.VerifiedChains())
	_, st, err := f.ResumptionState()
	if err != nil || st == nil {
		return nil, nil
	}
	early, binderKey := tls13EarlySecretAndBinderKey(cs.CipherSuite(), cs.MasterSecret())
	ext := &tls.UtlsPreSharedKeyExtension{}
	ext.InitializeByUtls(st, early, binderKey, []tls.PskIdentity{{Label: ticket, ObfuscatedTicketAge: 0x01020304}})
	return ext, ticket
}
