package props

import (
	"bytes"
	"fmt"
	"strings"
	"testing"

	tls "github.com/refraction-networking/utls"
	"verifharness/mon"
	"verifharness/peer"
	"verifharness/wire"
)

// hostnameInSNIRef is the harness' own statement of RFC 6066 §3: no IP literals, no
// trailing dots, (bracketed / zoned IPv6 are IP literals).
func hostnameInSNIRef(name string) string {
	host := name
	if len(host) > 0 && host[0] == '[' && host[len(host)-1] == ']' {
		host = host[1 : len(host)-1]
	}
	if i := strings.LastIndex(host, "%"); i > 0 {
		host = host[:i]
	}
	if isIPLiteral(host) {
		return ""
	}
	for len(name) > 0 && name[len(name)-1] == '.' {
		name = name[:len(name)-1]
	}
	return name
}

func isIPLiteral(s string) bool {
	if strings.Contains(s, ":") {
		// crude but sufficient for the generated names: hex groups and colons only
		for _, c := range s {
			if !(c == ':' || c == '.' || (c >= '0' && c <= '9') || (c >= 'a' && c <= 'f') || (c >= 'A' && c <= 'F')) {
				return false
			}
		}
		return true
	}
	parts := strings.Split(s, ".")
	if len(parts) != 4 {
		return false
	}
	for _, p := range parts {
		if len(p) == 0 || len(p) > 3 {
			return false
		}
		n := 0
		for _, c := range p {
			if c < '0' || c > '9' {
				return false
			}
			n = n*10 + int(c-'0')
		}
		if n > 255 {
			return false
		}
	}
	return true
}

// checkAgainstSpec is the C03 oracle: compare a parsed wire hello with the reference
// rendering of the spec.
func checkAgainstSpec(spec *tls.ClientHelloSpec, ch *wire.ClientHello, sni string, shuffling bool, maxVers uint16) (problems []string, order string) {
	bad := func(f string, a ...any) { problems = append(problems, fmt.Sprintf(f, a...)) }
	wantVers := maxVers
	if wantVers > tls.VersionTLS12 {
		wantVers = tls.VersionTLS12
	}
	if ch.Version != wantVers {
		bad("legacy_version %#04x, expected min(spec max, TLS 1.2)=%#04x", ch.Version, wantVers)
	}
	if len(ch.Suites) != len(spec.CipherSuites) {
		bad("%d cipher suites, spec has %d", len(ch.Suites), len(spec.CipherSuites))
	} else {
		for i, s := range spec.CipherSuites {
			if wire.IsGREASE(s) {
				if !wire.IsGREASE(ch.Suites[i]) {
					bad("suite %d is %#04x at a GREASE position", i, ch.Suites[i])
				}
			} else if ch.Suites[i] != s {
				bad("suite %d is %#04x, spec says %#04x", i, ch.Suites[i], s)
			}
		}
	}
	wantComp := spec.CompressionMethods
	if len(wantComp) == 0 {
		wantComp = []byte{0}
	}
	if !bytes.Equal(ch.Compression, wantComp) {
		bad("compression methods %x, spec %x", ch.Compression, wantComp)
	}
	// expectations in spec order, dropping legitimately omitted ones
	var exps []Expect
	greaseSeen := 0
	for _, e := range spec.Extensions {
		x, ok := ExpectFor(e)
		if !ok {
			bad("harness has no reference encoding for %T", e)
			continue
		}
		if x.GreaseTy {
			// documented Chrome behaviour (UtlsGREASEExtension.Body): the first GREASE
			// extension has an empty body, the second a single zero byte
			greaseSeen++
			if greaseSeen == 2 {
				x.Body = []byte{0}
			}
		}
		exps = append(exps, x)
	}
	// decide presence of omittable extensions from the wire (SNI empty, padding policy, empty PSK)
	present := func(x Expect) bool {
		if !x.MayOmit {
			return true
		}
		return ch.Has(x.Type)
	}
	var want []Expect
	for _, x := range exps {
		if present(x) {
			want = append(want, x)
		}
	}
	if hostnameInSNIRef(sni) != "" {
		for _, x := range exps {
			if x.Type == wire.ExtSNI && x.W == wSNI && !ch.Has(wire.ExtSNI) {
				bad("spec has server_name and the name %q is a host name, but no SNI on the wire", sni)
			}
		}
	}
	if len(want) != len(ch.Exts) {
		bad("%d extensions on the wire %04x, spec yields %d", len(ch.Exts), ch.ExtTypes(), len(want))
		return problems, ""
	}
	var ord []string
	for _, e := range ch.Exts {
		if e.Type == wire.ExtSNI || e.Type == wire.ExtPadding || e.Type == wire.ExtPreSharedKey {
			continue // presence legitimately depends on the connection (IP literal, length, session)
		}
		ord = append(ord, fmt.Sprintf("%04x", g16(e.Type)))
	}
	order = strings.Join(ord, ",")
	if !shuffling {
		for i, x := range want {
			if err := x.MatchBody(ch.Exts[i], hostnameInSNIRef(sni)); err != nil {
				bad("extension %d: %v", i, err)
			}
		}
		return problems, order
	}
	// shuffling parrots: GREASE, padding and pre_shared_key keep their spec index;
	// the rest is matched as a multiset by type.
	used := make([]bool, len(ch.Exts))
	for i, x := range want {
		if x.GreaseTy || x.Type == wire.ExtPadding || x.Type == wire.ExtPreSharedKey {
			if err := x.MatchBody(ch.Exts[i], hostnameInSNIRef(sni)); err != nil {
				bad("fixed-position extension at index %d: %v", i, err)
			}
			used[i] = true
		}
	}
	for _, x := range want {
		if x.GreaseTy || x.Type == wire.ExtPadding || x.Type == wire.ExtPreSharedKey {
			continue
		}
		found := false
		for j, e := range ch.Exts {
			if !used[j] && e.Type == x.Type {
				used[j] = true
				found = true
				if err := x.MatchBody(e, hostnameInSNIRef(sni)); err != nil {
					bad("extension type %d: %v", x.Type, err)
				}
				break
			}
		}
		if !found {
			bad("extension type %d of the spec is missing on the wire", x.Type)
		}
	}
	return problems, order
}

func specMaxVersion(spec *tls.ClientHelloSpec) uint16 {
	if spec.TLSVersMax != 0 {
		return spec.TLSVersMax
	}
	max := uint16(0)
	for _, e := range spec.Extensions {
		if sv, ok := e.(*tls.SupportedVersionsExtension); ok {
			for _, v := range sv.Versions {
				if !wire.IsGREASE(v) && v > max {
					max = v
				}
			}
		}
	}
	if max == 0 {
		max = tls.VersionTLS12
	}
	return max
}

// C03 — Predefined parrots send exactly the ClientHello their spec describes.
func TestC03(t *testing.T) {
	r := mon.New("C03", "every predefined ClientHelloID x N connections x SNI values (fresh connections; plus resumed connections over a shared session cache for ticket/PSK parrots): wire hello compared with an independent reference encoding of UTLSIdToSpec(id) (exported fields only), wildcards only for per-connection material; shuffling Chrome IDs compared as multiset with GREASE/padding/PSK at spec indices. distinct = (parrot, extension order) pairs")
	defer r.Finish(t)
	conns := mon.Pick(13*9+4, 20000)
	snis := append([]string{"example.test", "a.test", longName(120), "192.0.2.9"}, boundaryNames()...)
	for _, p := range AllParrots {
		orders := map[string]bool{}
		for k := 0; k < conns; k++ {
			sni := snis[k%len(snis)]
			spec, err := tls.UTLSIdToSpec(p.ID)
			if err != nil {
				r.Violation(map[string]string{"kind": "spec_error", "parrot": p.Name}, err.Error(), nil)
				break
			}
			cfg := &tls.Config{ServerName: sni, OmitEmptyPsk: true, InsecureSkipVerify: true}
			// Config knobs that must not leak into a parrot's hello: the spec decides
			flavour := ""
			echFlavour := false
			switch (k / len(snis)) % 9 {
			case 8:
				// an ECH config list in the Config: a parrot whose spec has an ECH extension sends
				// the real offer in its place (C15's subject, skipped here); one without cannot
				// encode the offer and must refuse instead of sending some other hello
				if specHasECH(&spec) {
					break
				}
				cfg.EncryptedClientHelloConfigList = peer.ECHConfigList(c01ECHKey())
				flavour = "Config.EncryptedClientHelloConfigList"
				echFlavour = true
			case 1:
				cfg.MinVersion, cfg.MaxVersion = tls.VersionTLS10, tls.VersionTLS11
				flavour = "Config versions 1.0-1.1"
			case 2:
				cfg.MinVersion, cfg.MaxVersion = tls.VersionTLS10, tls.VersionTLS10
				flavour = "Config versions 1.0-1.0"
			case 3:
				cfg.MinVersion, cfg.MaxVersion = tls.VersionTLS12, tls.VersionTLS12
				flavour = "Config versions 1.2-1.2"
			case 4:
				cfg.MinVersion, cfg.MaxVersion = tls.VersionTLS13, tls.VersionTLS13
				flavour = "Config versions 1.3-1.3"
			case 5:
				cfg.CipherSuites = []uint16{tls.TLS_RSA_WITH_AES_128_CBC_SHA}
				cfg.CurvePreferences = []tls.CurveID{tls.CurveP521}
				flavour = "Config.CipherSuites/CurvePreferences"
			case 6:
				cfg.SessionTicketsDisabled = true
				flavour = "Config.SessionTicketsDisabled"
			case 7:
				cfg.Renegotiation = tls.RenegotiateFreelyAsClient
				cfg.DynamicRecordSizingDisabled = true
				flavour = "Config.Renegotiation"
			}
			if flavour != "" {
				r.Count("connections_with_config_flavour", 1)
			}
			var raw []byte
			if k%6 == 5 {
				hs, _, herr, pn := sendHello(cfg, p.ID, nil)
				if echFlavour && pn == "" && len(hs) == 0 && herr != nil {
					r.Count("ech_offer_refused_without_ech_extension", 1)
					continue
				}
				if pn != "" || len(hs) == 0 {
					r.Violation(map[string]string{"kind": "no_hello_on_wire", "parrot": p.Name}, fmt.Sprintf("no ClientHello reached the wire: err=%v panic=%s", herr, pn), nil)
					continue
				}
				raw = hs[0]
				r.Count("wire_observed", 1)
			} else {
				var pn string
				raw, _, err, pn = buildHello(cfg, p.ID, nil)
				if echFlavour && err != nil && pn == "" {
					r.Count("ech_offer_refused_without_ech_extension", 1)
					continue
				}
				if err != nil {
					r.Violation(map[string]string{"kind": "build_error", "parrot": p.Name}, fmt.Sprintf("%v %s", err, pn), nil)
					continue
				}
			}
			ch, err := wire.ParseClientHello(raw)
			if err != nil {
				r.Violation(map[string]string{"kind": "unparseable_hello", "parrot": p.Name}, err.Error(), mon.Hex(raw))
				continue
			}
			probs, order := checkAgainstSpec(&spec, ch, sni, ShufflingParrots[p.Name], specMaxVersion(&spec))
			for _, pr := range probs {
				r.Violation(map[string]string{"kind": "parrot_differs_from_spec", "parrot": p.Name, "what": firstWords(pr, 3)},
					fmt.Sprintf("%s (sni %q%s): %s", p.Name, sni, map[bool]string{true: ", " + flavour, false: ""}[flavour != ""], pr), map[string]any{"hello": mon.Hex(raw), "config": flavour})
			}
			orders[order] = true
			r.Case(p.Name+"|"+order, true)
			if k == 0 && (p.Name == "Chrome_133" || p.Name == "Firefox_120") {
				r.Sample(map[string]any{"parrot": p.Name, "extension_order": order, "len": len(raw)})
			}
		}
		if ShufflingParrots[p.Name] {
			r.Count("shuffle_orders_"+p.Name, int64(len(orders)))
			if len(orders) < 2 {
				r.Violation(map[string]string{"kind": "shuffle_constant", "parrot": p.Name}, fmt.Sprintf("%s is a shuffling parrot but showed %d extension order(s) in %d connections", p.Name, len(orders), conns), nil)
			}
		} else if len(orders) > 1 {
			r.Violation(map[string]string{"kind": "order_varies", "parrot": p.Name}, fmt.Sprintf("%s is not a shuffling parrot but showed %d extension orders", p.Name, len(orders)), nil)
		}
	}

	// second ClientHellos: after a HelloRetryRequest that carries a cookie the hello sent again
	// is still the spec's - same extension sequence, the cookie extension added once
	hrr2 := 0
	for pi, p := range AllParrots {
		if PSKParrots[p.Name] {
			continue
		}
		for k := 0; k < mon.Pick(2, 40); k++ {
			probe, err := Target{Name: p.Name, ID: p.ID}.Probe("example.test")
			if err != nil {
				break
			}
			g := hrrGroupFor(probe)
			if g == 0 || !OfferOf(probe, 0).Has(tls.VersionTLS13) {
				break
			}
			cookie := randBytes(Sub("C03cookie", pi*100+k), []int{1, 32, 300}[k%3])
			plan := &tls.VerifPlan{ForceGroup: g, ClearCookie: true, RewriteOut: func(isClient bool, data []byte) []byte {
				if isClient || len(data) < 4 || data[0] != 2 {
					return nil
				}
				sh, err := wire.ParseServerHello(data)
				if err != nil || !sh.IsHRR {
					return nil
				}
				sh.SetExt(wire.ExtCookie, vec16(cookie))
				return sh.Marshal()
			}}
			h := RunCase(Target{Name: p.Name, ID: p.ID}, GridCase{Server: peer.ServerConfig(), Plan: plan}, "example.test", nil, peer.Opts{})
			hs := wire.ClientHellos(h.C2S)
			if len(hs) != 2 {
				continue
			}
			c1, e1 := wire.ParseClientHello(hs[0])
			c2, e2 := wire.ParseClientHello(hs[1])
			if e1 != nil || e2 != nil {
				r.Violation(map[string]string{"kind": "unparseable_hello", "parrot": p.Name, "hello": "2"}, fmt.Sprintf("%v / %v", e1, e2), mon.Hex(hs[1]))
				continue
			}
			var t1, t2 []uint16
			for _, t := range NormExtTypes(c1) {
				if t != wire.ExtPadding {
					t1 = append(t1, t)
				}
			}
			cookies := 0
			for _, t := range NormExtTypes(c2) {
				if t == wire.ExtCookie {
					cookies++
					continue
				}
				if t != wire.ExtPadding {
					t2 = append(t2, t)
				}
			}
			if cookies != 1 || u16s(t1) != u16s(t2) {
				r.Violation(map[string]string{"kind": "second_hello_differs_from_spec", "parrot": p.Name},
					fmt.Sprintf("%s: after a HelloRetryRequest with a %d-byte cookie the second ClientHello carries %d cookie extension(s) and the extension sequence %s, the first one %s", p.Name, len(cookie), cookies, u16s(t2), u16s(t1)), map[string]any{"ch2": mon.Hex(hs[1])})
			}
			hrr2++
		}
	}
	r.Count("second_hellos_after_cookie_hrr", int64(hrr2))
	r.Floor("second_hellos_after_cookie_hrr", 30)

	// resumed connections: the shape must still be the spec's (ticket / PSK bodies wildcard)
	resumedChecked := 0
	for _, p := range AllParrots {
		spec, _ := tls.UTLSIdToSpec(p.ID)
		hasTicket, hasPSK := false, false
		for _, e := range spec.Extensions {
			switch e.(type) {
			case *tls.SessionTicketExtension:
				hasTicket = true
			case *tls.UtlsPreSharedKeyExtension, *tls.FakePreSharedKeyExtension:
				hasPSK = true
			}
		}
		if !hasTicket && !hasPSK {
			continue
		}
		for _, maxv := range []uint16{tls.VersionTLS12, tls.VersionTLS13} {
			if maxv == tls.VersionTLS13 && !hasPSK || maxv == tls.VersionTLS12 && !hasTicket {
				continue
			}
			if maxv > specMaxVersion(&spec) {
				continue
			}
			for _, sni := range []string{"example.test", longName(77) + ".example.test"} {
				cache := tls.NewLRUClientSessionCache(4)
				scfg := peer.ServerConfig()
				scfg.MaxVersion = maxv
				var last *peer.HS
				for round := 0; round < 3; round++ {
					ccfg := peer.ClientConfig(sni)
					ccfg.ClientSessionCache = cache
					ccfg.OmitEmptyPsk = true
					ccfg.InsecureSkipVerify = true
					last = peer.Run(ccfg, p.ID, scfg, peer.Opts{})
					if !last.OK() {
						break
					}
					hs := wire.ClientHellos(last.C2S)
					if len(hs) == 0 {
						continue
					}
					ch, err := wire.ParseClientHello(hs[0])
					if err != nil {
						r.Violation(map[string]string{"kind": "unparseable_hello", "parrot": p.Name, "resumed": "true"}, err.Error(), mon.Hex(hs[0]))
						continue
					}
					spec2, _ := tls.UTLSIdToSpec(p.ID)
					probs, order := checkAgainstSpec(&spec2, ch, sni, ShufflingParrots[p.Name], specMaxVersion(&spec2))
					for _, pr := range probs {
						r.Violation(map[string]string{"kind": "parrot_differs_from_spec", "parrot": p.Name, "resumed": fmt.Sprint(round > 0), "what": firstWords(pr, 3)},
							fmt.Sprintf("%s round %d (sni len %d, server max %#04x, resumed=%v): %s", p.Name, round, len(sni), maxv, last.CState.DidResume, pr), map[string]any{"hello": mon.Hex(hs[0])})
					}
					// padding policy on the resumed hello (C05's rule, spec says BoringPaddingStyle)
					if ch.Has(wire.ExtPadding) || specHasBoringPadding(&spec2) {
						if msg := boringPaddingProblem(ch); msg != "" && specHasBoringPadding(&spec2) {
							r.Violation(map[string]string{"kind": "parrot_padding_policy", "parrot": p.Name, "resumed": fmt.Sprint(round > 0)},
								fmt.Sprintf("%s round %d: %s", p.Name, round, msg), map[string]any{"hello": mon.Hex(hs[0])})
						}
					}
					if round > 0 && last.CState.DidResume {
						resumedChecked++
					}
					r.Case(p.Name+"|resumed|"+order, true)
				}
			}
		}
	}
	r.Count("resumed_hellos_checked", int64(resumedChecked))
	r.Floor("resumed_hellos_checked", 10)
	r.Floor("wire_observed", 30)
}

func firstWords(s string, n int) string {
	f := strings.Fields(s)
	if len(f) > n {
		f = f[:n]
	}
	return strings.Join(f, " ")
}

func specHasBoringPadding(spec *tls.ClientHelloSpec) bool {
	for _, e := range spec.Extensions {
		if p, ok := e.(*tls.UtlsPaddingExtension); ok && p.GetPaddingLen != nil {
			// the predefined parrots all use BoringPaddingStyle; verified behaviourally
			l, w := p.GetPaddingLen(300)
			l2, w2 := p.GetPaddingLen(100)
			return w && l == 0x200-300-4 && !w2 && l2 == 0
		}
	}
	return false
}

// boringPaddingProblem recomputes the BoringSSL padding rule independently.
func boringPaddingProblem(ch *wire.ClientHello) string {
	total := len(ch.Raw)
	padExtLen := 0
	if ch.PaddingLen >= 0 {
		padExtLen = 4 + ch.PaddingLen
	}
	unpadded := total - padExtLen
	switch {
	case unpadded > 0xff && unpadded < 0x200:
		if ch.PaddingLen < 0 {
			return fmt.Sprintf("unpadded length %d is in (255,512) but there is no padding extension", unpadded)
		}
		missing := 0x200 - unpadded
		if missing >= 5 {
			if total != 0x200 {
				return fmt.Sprintf("unpadded length %d padded to %d, expected exactly 512", unpadded, total)
			}
		} else if ch.PaddingLen != 1 {
			return fmt.Sprintf("unpadded length %d (fewer than 5 bytes missing) should get a 1-byte padding body, got %d", unpadded, ch.PaddingLen)
		}
	default:
		if ch.PaddingLen >= 0 {
			return fmt.Sprintf("unpadded length %d is outside (255,512) but a padding extension of %d bytes is present", unpadded, ch.PaddingLen)
		}
	}
	return ""
}

func specHasECH(sp *tls.ClientHelloSpec) bool {
	for _, e := range sp.Extensions {
		if _, ok := e.(tls.EncryptedClientHelloExtension); ok {
			return true
		}
	}
	return false
}
