package props

import (
	"bytes"
	"errors"
	"fmt"
	"net"
	"reflect"
	"testing"

	tls "github.com/refraction-networking/utls"
	"verifharness/mon"
	"verifharness/peer"
	"verifharness/wire"
)

// customCompressSpec: a TLS 1.3 Chrome-like spec advertising the given algorithms.
func customCompressSpec(algs []tls.CertCompressionAlgo) func() (*tls.ClientHelloSpec, error) {
	return func() (*tls.ClientHelloSpec, error) {
		s, err := tls.UTLSIdToSpec(tls.HelloChrome_102)
		if err != nil {
			return nil, err
		}
		for _, e := range s.Extensions {
			if cc, ok := e.(*tls.UtlsCompressCertExtension); ok {
				cc.Algorithms = append([]tls.CertCompressionAlgo(nil), algs...)
			}
		}
		return &s, nil
	}
}

// alertOf extracts the alert code of a "remote error" (the received alert) without
// looking at error texts: *net.OpError{Op:"remote error", Err: tls.alert(n)}.
func alertOf(err error) int {
	var ae tls.AlertError
	if errors.As(err, &ae) {
		return int(uint8(ae))
	}
	var oe *net.OpError
	if errors.As(err, &oe) && oe.Err != nil {
		v := reflect.ValueOf(oe.Err)
		if v.Kind() == reflect.Uint8 {
			return int(v.Uint())
		}
	}
	return -1
}

// C21 — Compressed server certificates are recovered exactly.
func TestC21(t *testing.T) {
	r := mon.New("C21", "server chains of 1..4 certificates with ballast (certificate messages from ~0.5 KB to ~200 KB) x {brotli, zlib, zstd} x encoder settings (levels, stored blocks, mid-stream flushes every n bytes, zstd windows) replacing the real Certificate message before it enters the server transcript (hook H1) x corruptions (declared length -1/+1/-1000/+1000/0/2^24-1, truncated stream, flipped byte, trailing garbage, unadvertised algorithm); clients: parrots advertising compress_certificate, custom specs advertising each subset, and parrots whose caller removes the extension or narrows its list after the first build; a third of the servers also send a CertificateRequest. Oracle: valid => handshake completes and PeerCertificates equal the chain sent; invalid => client error and the server receives bad_certificate; never a different certificate. distinct = (client, algorithm, encoder setting, size bucket, corruption)")
	defer r.Finish(t)
	f := peer.Fix()
	// chains
	type chain struct {
		name string
		cert tls.Certificate
		size int
	}
	var chains []chain
	mk := func(name string, ballasts ...int) {
		c := f.CA.Leaf(peer.LeafOpts{Kind: "ecdsa", Names: peer.DefaultNames, Ballast: ballasts[0]})
		for _, b := range ballasts[1:] {
			extra := f.CA.Leaf(peer.LeafOpts{Kind: "ecdsa", Names: []string{"extra.test"}, Ballast: b})
			c.Certificate = append(c.Certificate, extra.Certificate[0])
		}
		n := 0
		for _, d := range c.Certificate {
			n += len(d)
		}
		chains = append(chains, chain{name, c, n})
	}
	mk("small", 0)
	mk("two", 0, 300)
	mk("20k", 10000, 9000)
	mk("40k", 20000, 10000, 9000)
	mk("70k", 30000, 20000, 10000, 9000)
	if mon.Thorough() {
		mk("140k", 50000, 40000, 30000, 19000)
		mk("230k", 60000, 60000, 60000, 49000)
	} else {
		mk("140k", 50000, 40000, 30000, 19000)
	}
	type client struct {
		name string
		t    Target
		algs map[uint16]bool
		ech  bool // the connection uses (accepted) ECH: the hello that counts is the inner one
		// echReject: the server rejects the ECH offer and answers the OUTER hello, which
		// carries the preset's compress_certificate extension
		echReject bool
	}
	var clients []client
	for _, tg := range ParrotTargets(false) {
		if PSKParrots[tg.Name] {
			continue
		}
		ch, err := tg.Probe("example.test")
		if err != nil || len(ch.CertCompAlgs) == 0 || !OfferOf(ch, 0).Has(tls.VersionTLS13) {
			continue
		}
		m := map[uint16]bool{}
		for _, a := range ch.CertCompAlgs {
			m[a] = true
		}
		clients = append(clients, client{tg.Name, tg, m, false, false})
	}
	subsets := [][]tls.CertCompressionAlgo{{tls.CertCompressionBrotli}, {tls.CertCompressionZlib}, {tls.CertCompressionZstd}, {tls.CertCompressionZlib, tls.CertCompressionBrotli, tls.CertCompressionZstd}, {tls.CertCompressionZstd, tls.CertCompressionZlib}}
	for _, ss := range subsets {
		m := map[uint16]bool{}
		name := "custom"
		for _, a := range ss {
			m[uint16(a)] = true
			name += fmt.Sprintf("-%d", a)
		}
		clients = append(clients, client{name, Target{Name: name, Spec: customCompressSpec(ss)}, m, false, false})
	}
	// callers that change what they advertise after the hello was first built (documented
	// edits of uconn.Extensions): what counts is the extension on the wire
	for _, pn := range []string{"Chrome_120", "Chrome_102", "Safari_16_0"} {
		p := ParrotByName(pn)
		clients = append(clients, client{p.Name + "+ext-removed-after-build", Target{Name: p.Name + "+ext-removed-after-build", ID: p.ID, Edit: func(u *tls.UConn) error {
			var kept []tls.TLSExtension
			for _, e := range u.Extensions {
				if _, ok := e.(*tls.UtlsCompressCertExtension); !ok {
					kept = append(kept, e)
				}
			}
			u.Extensions = kept
			return nil
		}}, map[uint16]bool{}, false, false})
		clients = append(clients, client{p.Name + "+list-narrowed-after-build", Target{Name: p.Name + "+list-narrowed-after-build", ID: p.ID, Edit: func(u *tls.UConn) error {
			for _, e := range u.Extensions {
				if cc, ok := e.(*tls.UtlsCompressCertExtension); ok {
					cc.Algorithms = []tls.CertCompressionAlgo{tls.CertCompressionZstd}
				}
			}
			return nil
		}}, map[uint16]bool{uint16(tls.CertCompressionZstd): true}, false, false})
	}
	// accepted ECH: the hello the server answers is the inner one, which uTLS builds as a
	// plain crypto/tls hello without compress_certificate - whatever the outer hello lists
	for _, pn := range []string{"Chrome_120", "Firefox_120", "Chrome_131"} {
		if p := ParrotByName(pn); p.Name != "" {
			clients = append(clients, client{name: p.Name + "+ech-accepted", t: Target{Name: p.Name + "+ech-accepted", ID: p.ID}, algs: map[uint16]bool{}, ech: true})
		}
	}
	for _, pn := range []string{"Chrome_120", "Chrome_131"} {
		if p := ParrotByName(pn); p.Name != "" {
			if ch, err := (Target{Name: p.Name, ID: p.ID}).Probe("example.test"); err == nil {
				m := map[uint16]bool{}
				for _, a := range ch.CertCompAlgs {
					m[a] = true
				}
				clients = append(clients, client{name: p.Name + "+ech-rejected", t: Target{Name: p.Name + "+ech-rejected", ID: p.ID}, algs: m, echReject: true})
			}
		}
	}
	r.Count("clients", int64(len(clients)))
	settings := []struct {
		name string
		o    compOpts
	}{
		{"default", compOpts{}}, {"best", compOpts{Level: 9}}, {"fast", compOpts{Level: 1}}, {"stored", compOpts{Stored: true}},
		{"flush100", compOpts{FlushEvery: 100}}, {"flush1000", compOpts{FlushEvery: 1000}}, {"flush16k", compOpts{FlushEvery: 16384}},
		{"zstdwin1k", compOpts{Window: 1 << 10}}, {"zstdwin8m", compOpts{Window: 1 << 23, FlushEvery: 5000}},
	}
	corruptions := []string{"none", "none", "none", "len-1", "len+1", "len-1000", "len+1000", "len0", "lenmax", "truncate", "flip", "trailing", "unadvertised"}
	type job struct {
		cl      client
		ch      chain
		alg     uint16
		set     int
		corrupt string
	}
	var jobs []job
	k := 0
	for _, cl := range clients {
		for _, chn := range chains {
			for _, alg := range []uint16{algZlib, algBrotli, algZstd} {
				for si := range settings {
					if settings[si].o.Window != 0 && alg != algZstd || settings[si].o.Stored && alg != algZlib {
						continue
					}
					for _, co := range corruptions {
						k++
						if !cl.algs[alg] && co != "unadvertised" || cl.algs[alg] && co == "unadvertised" {
							continue
						}
						if !mon.Thorough() && k%7 != 0 && co != "none" && !(cl.ech && si == 0) {
							continue
						}
						if !mon.Thorough() && co == "none" && k%3 != 0 {
							continue
						}
						jobs = append(jobs, job{cl, chn, alg, si, co})
					}
				}
			}
		}
	}
	r.Count("planned_cases", int64(len(jobs)))
	parallel(len(jobs), func(i int) {
		j := jobs[i]
		rg := Sub("C21", i)
		var sentBody, sentComp []byte
		var sentMsgLen, sentDeclared int
		plan := &tls.VerifPlan{RewriteOut: func(isClient bool, data []byte) []byte {
			if isClient || len(data) < 4 || data[0] != 11 {
				return nil
			}
			body := data[4:]
			sentBody = append([]byte(nil), body...)
			comp, err := compress(j.alg, body, settings[j.set].o)
			if err != nil {
				return nil
			}
			declared := len(body)
			switch j.corrupt {
			case "len-1":
				declared--
			case "len+1":
				declared++
			case "len-1000":
				declared -= 1000
				if declared < 0 {
					declared = 1
				}
			case "len+1000":
				declared += 1000
			case "len0":
				declared = 0
			case "lenmax":
				declared = 1<<24 - 1
			case "truncate":
				comp = comp[:len(comp)-1-rg.Intn(len(comp)/2+1)]
			case "flip":
				comp = append([]byte(nil), comp...)
				comp[rg.Intn(len(comp))] ^= 1 << uint(rg.Intn(8))
			case "trailing":
				// a second, complete compressed stream appended: decompresses to more than declared
				comp = append(append([]byte(nil), comp...), comp...)
			}
			out := compressedCertificateMsg(j.alg, declared, comp)
			sentMsgLen = len(out)
			sentComp, sentDeclared = comp, declared
			return out
		}}
		scfg := peer.ServerConfig()
		scfg.Certificates = []tls.Certificate{j.ch.cert}
		// a third of the servers also ask for a client certificate (CertificateRequest precedes the
		// compressed certificate in the same flight); half of those clients have one to send
		var extra func(c *tls.Config)
		switch i % 6 {
		case 1:
			scfg.ClientAuth = tls.RequestClientCert
			r.Count("with_certificate_request", 1)
		case 4:
			scfg.ClientAuth = tls.RequireAnyClientCert
			extra = func(c *tls.Config) { c.Certificates = []tls.Certificate{peer.Fix().ECDSA} }
			r.Count("with_certificate_request", 1)
		}
		if j.cl.echReject {
			scfg.EncryptedClientHelloKeys = peer.ECHServerKeys(true, peer.NewECHKey(3, "public.example.test", []uint16{1, 3}, 32)) // not the key the client has
			prev := extra
			extra = func(c *tls.Config) {
				if prev != nil {
					prev(c)
				}
				c.EncryptedClientHelloConfigList = peer.ECHConfigList(gridECHKey())
			}
		}
		if j.cl.ech {
			scfg.EncryptedClientHelloKeys = peer.ECHServerKeys(true, gridECHKey())
			prev := extra
			extra = func(c *tls.Config) {
				if prev != nil {
					prev(c)
				}
				c.EncryptedClientHelloConfigList = peer.ECHConfigList(gridECHKey())
			}
		}
		h := RunCase(j.cl.t, GridCase{Server: scfg, Plan: plan}, "example.test", extra, peer.Opts{})
		if j.cl.ech {
			if !h.SState.ECHAccepted && h.ServerErr == nil {
				r.Inconclusive(j.cl.name + ": the server did not accept the ECH offer")
				return
			}
			r.Count("ech_accepted_cases", 1)
		}
		sig := map[string]string{"client": j.cl.name, "alg": fmt.Sprint(j.alg), "setting": settings[j.set].name, "corrupt": j.corrupt}
		rep := map[string]any{"case": i, "client": j.cl.name, "chain": j.ch.name, "alg": j.alg, "setting": settings[j.set].name, "corrupt": j.corrupt, "cert_msg_len": len(sentBody), "compressed_msg_len": sentMsgLen, "err": h.ErrString()}
		if h.ClientPanic != "" {
			sig["kind"] = "panic"
			r.Violation(sig, j.cl.name+": "+firstLine(h.ClientPanic), rep)
			return
		}
		if sentBody == nil {
			r.Count("no_certificate_message", 1)
			return
		}
		bucket := len(sentBody) / 16384
		if sentMsgLen > 262144 {
			// above the size limit of certificate messages (256 KiB): outside the statement
			r.Count("compressed_message_over_256k_skipped", 1)
			return
		}
		if sentMsgLen > 65536 {
			r.Count("compressed_messages_between_64k_and_256k", 1)
		}
		// what does the (possibly corrupted) message really encode?  Reference: whole-stream
		// decompression with the same third-party decoders, read until EOF.
		var wantChain [][]byte
		lengthOK := false
		if j.corrupt != "unadvertised" {
			if ref, err := decompressAll(j.alg, sentComp); err == nil && len(ref) == sentDeclared {
				lengthOK = true
				if cl, ok := certListOf(ref); ok && len(cl) > 0 {
					wantChain = cl
				}
			}
		}
		if j.corrupt == "none" && (!lengthOK || wantChain == nil) {
			r.Inconclusive("harness bug: an uncorrupted compressed certificate does not decode with the reference decoder")
			return
		}
		valid := j.corrupt == "none"
		if lengthOK && j.corrupt != "none" {
			// the corrupted stream still decodes to a message of the declared length (e.g. a brotli bit
			// flip inside a literal): the statement does not require rejection; if the client accepts,
			// it must have recovered exactly what the stream encodes
			r.Count("corruption_decodes_to_declared_length", 1)
			if h.ClientErr == nil {
				same := wantChain != nil && len(h.CState.PeerCertificates) == len(wantChain)
				if same {
					for k := range wantChain {
						same = same && bytes.Equal(h.CState.PeerCertificates[k].Raw, wantChain[k])
					}
				}
				if !same {
					sig["kind"] = "recovered_certificates_differ_from_stream"
					r.Violation(sig, fmt.Sprintf("%s: accepted certificates differ from what the compressed stream encodes (%s, %s)", j.cl.name, j.corrupt, algName(j.alg)), rep)
				}
			}
			r.Case(fmt.Sprintf("%s|%d|%s|%d|%s|decodes", j.cl.name, j.alg, settings[j.set].name, bucket, j.corrupt), true)
			return
		}
		if valid && j.cl.echReject {
			// the certificate has to be recovered (the rejection is authenticated with it): the
			// connection then ends with the ECH rejection, or with a verification error if the
			// chain does not cover the public name - never with a complaint about the message
			var rej *tls.ECHRejectionError
			var cve *tls.CertificateVerificationError
			if errors.As(h.ClientErr, &rej) || errors.As(h.ClientErr, &cve) {
				r.Count("valid_accepted_before_ech_rejection", 1)
			} else {
				sig["kind"] = "valid_compressed_certificate_rejected"
				r.Violation(sig, fmt.Sprintf("%s: ECH rejected, the server answers the outer hello with a valid %s-compressed certificate: %s", j.cl.name, algName(j.alg), h.ErrString()), rep)
			}
		} else if valid {
			if !h.OK() {
				sig["kind"] = "valid_compressed_certificate_rejected"
				delete(sig, "client")
				sig["size_bucket"] = fmt.Sprint(bucket)
				r.Violation(sig, fmt.Sprintf("%s: a valid %s-compressed certificate message (%d bytes, %s, compressed message %d bytes) was not accepted: %s", j.cl.name, algName(j.alg), len(sentBody), settings[j.set].name, sentMsgLen, h.ErrString()), rep)
			} else {
				r.Count("valid_accepted", 1)
				pcs := h.CState.PeerCertificates
				if len(pcs) != len(wantChain) {
					sig["kind"] = "peer_certificates_differ"
					r.Violation(sig, fmt.Sprintf("%d peer certificates, %d sent", len(pcs), len(wantChain)), rep)
				} else {
					for k := range pcs {
						if !bytes.Equal(pcs[k].Raw, wantChain[k]) {
							sig["kind"] = "peer_certificates_differ"
							r.Violation(sig, fmt.Sprintf("peer certificate %d differs from the one the server compressed", k), rep)
						}
					}
				}
			}
		} else {
			if h.ClientErr == nil {
				sig["kind"] = "invalid_compressed_certificate_accepted"
				delete(sig, "client")
				r.Violation(sig, fmt.Sprintf("%s: client accepted a CompressedCertificate with %s (%s, %s) that the reference decoder does not decode to a message of the declared length", j.cl.name, j.corrupt, algName(j.alg), settings[j.set].name), rep)
			} else {
				r.Count("invalid_rejected", 1)
				a := alertOf(h.ServerErr)
				if a == 10 && len(j.cl.algs) == 0 {
					// the hello on the wire carries no compress_certificate extension at all: the
					// message type itself is unsolicited, and unexpected_message is the answer to
					// that (the statement's bad_certificate is about an advertised list that lacks
					// the algorithm)
					r.Count("unsolicited_compressed_certificate_refused", 1)
				} else if a != 42 {
					// oversized messages may be cut off by the record layer limit before decompression
					if !(sentMsgLen > 1<<18) {
						sig["kind"] = "wrong_alert_for_bad_compressed_certificate"
						delete(sig, "client")
						delete(sig, "setting")
						r.Violation(sig, fmt.Sprintf("%s: client rejected the CompressedCertificate (%s) but the server received alert %d (%v) instead of bad_certificate", j.cl.name, j.corrupt, a, h.ServerErr), rep)
					}
				}
			}
		}
		r.Case(fmt.Sprintf("%s|%d|%s|%d|%s", j.cl.name, j.alg, settings[j.set].name, bucket, j.corrupt), true)
		if i%257 == 0 {
			r.Sample(map[string]any{"client": j.cl.name, "chain": j.ch.name, "alg": algName(j.alg), "setting": settings[j.set].name, "corrupt": j.corrupt, "cert_msg_len": len(sentBody), "compressed_msg_len": sentMsgLen, "ok": h.OK()})
		}
	})
	r.Floor("valid_accepted", 100)
	r.Floor("invalid_rejected", 100)
	_ = wire.ExtCompressCert
}

func algName(a uint16) string {
	switch a {
	case algZlib:
		return "zlib"
	case algBrotli:
		return "brotli"
	case algZstd:
		return "zstd"
	}
	return fmt.Sprint(a)
}
