package props

import (
	"bytes"
	"encoding/binary"
	"fmt"
	"os"
	"path/filepath"
	"strings"
	"testing"
	"verifharness/peer"

	tls "github.com/refraction-networking/utls"
	"verifharness/mon"
	"verifharness/wire"
)

// C04 — GREASE values are well-formed, distinct where required, and fresh.
func TestC04(t *testing.T) {
	r := mon.New("C04", "(a) exhaustive GetBoringGREASEValue seeds x indices; (b) N draws of QUIC GREASE id / version generators and marshalled transport parameters; (c) parrots / fingerprinted copies / JSON-described specs (GREASE ids with and without keep_id) x N connections, with a fresh spec per connection and with ONE spec object reused for all of them: each GREASE position of the spec parsed from the wire. distinct = distinct (generator|parrot, observed value) pairs")
	defer r.Finish(t)

	// (a) exhaustive over the seed value space per index
	for idx := 0; idx < 5; idx++ {
		for s := 0; s < 65536; s++ {
			var seed [5]uint16
			seed[idx] = uint16(s)
			v := tls.GetBoringGREASEValue(seed, idx)
			r.Case(fmt.Sprintf("boring|%d|%04x", idx, v), true)
			if !wire.IsGREASE(v) {
				r.Violation(map[string]string{"kind": "boring_grease_not_reserved", "index": fmt.Sprint(idx)},
					fmt.Sprintf("GetBoringGREASEValue(seed[%d]=%#04x)=%#04x is not 0x?A?A", idx, s, v), map[string]any{"index": idx, "seed": s})
			}
		}
	}
	r.Count("boring_values_checked", 5*65536)

	// (b) QUIC generators
	n := mon.Pick(20000, 1000000)
	var g tls.GREASETransportParameter
	idSeen := map[uint64]bool{}
	for i := 0; i < n; i++ {
		id := g.GetGREASEID()
		idSeen[id] = true
		r.Case(fmt.Sprintf("tpid|%d", id%4096), true)
		if id < 27 || (id-27)%31 != 0 || id >= 1<<62 {
			r.Violation(map[string]string{"kind": "quic_grease_id_not_reserved"}, fmt.Sprintf("GetGREASEID()=%d is not 31*N+27 below 2^62", id), id)
		}
		if !g.IsGREASEID(id) {
			r.Violation(map[string]string{"kind": "quic_IsGREASEID_disagrees"}, fmt.Sprintf("IsGREASEID(%d)=false for a generated id", id), id)
		}
	}
	r.Count("quic_grease_ids", int64(n))
	if len(idSeen) < 2 {
		r.Violation(map[string]string{"kind": "quic_grease_id_constant"}, "GetGREASEID never varied", nil)
	}
	// the id a GREASE parameter puts on the wire when the caller asks for a particular one:
	// every value below 2^17 and sampled larger ones as IdOverride, judged by the harness' own
	// rule (31*N+27 below 2^62), not by the library's IsGREASEID
	isGrease := func(id uint64) bool { return id >= 27 && (id-27)%31 == 0 && id < 1<<62 }
	sweep := func(ov uint64) {
		tp := &tls.GREASETransportParameter{IdOverride: ov, Length: 3}
		var body []byte
		pn, pv := recoverPanic(func() { body = tls.TransportParameters{tp}.Marshal() })
		if pn {
			// (also for values of 2^62 and more: they are not valid GREASE ids - a QUIC varint
			// cannot carry them - so the documented behaviour is a randomly generated id)
			r.Violation(map[string]string{"kind": "tp_grease_override_panic"}, fmt.Sprintf("IdOverride %d: Marshal panicked: %v", ov, pv), ov)
			return
		}
		parsed, err := wire.ParseTransportParameters(body)
		if err != nil || len(parsed) != 1 {
			r.Violation(map[string]string{"kind": "tp_marshal_unparseable"}, fmt.Sprintf("IdOverride %d: marshalled parameter does not parse: %v", ov, err), mon.Hex(body))
			return
		}
		if !isGrease(parsed[0].ID) {
			r.Violation(map[string]string{"kind": "tp_grease_id_on_wire", "source": "IdOverride"}, fmt.Sprintf("GREASE transport parameter with IdOverride %d is sent with id %d, which is not 31*N+27", ov, parsed[0].ID), mon.Hex(body))
		}
		if isGrease(ov) && parsed[0].ID != ov {
			r.Violation(map[string]string{"kind": "tp_grease_override_ignored"}, fmt.Sprintf("IdOverride %d is a reserved id but %d was sent", ov, parsed[0].ID), mon.Hex(body))
		}
		if g.IsGREASEID(ov) != isGrease(ov) {
			r.Violation(map[string]string{"kind": "quic_IsGREASEID_disagrees"}, fmt.Sprintf("IsGREASEID(%d)=%v, the rule 31*N+27 says %v", ov, g.IsGREASEID(ov), isGrease(ov)), ov)
		}
		r.Count("grease_id_overrides_checked", 1)
	}
	for ov := uint64(0); ov < uint64(mon.Pick(1<<14, 1<<20)); ov++ {
		sweep(ov)
	}
	for i := 0; i < mon.Pick(2000, 200000); i++ {
		rg := Sub("C04ov", i)
		ov := rg.Uint64() >> uint(rg.Intn(64))
		if rg.Intn(2) == 0 {
			ov = ov/31*31 + 27 // near / on the reserved lattice
		}
		sweep(ov)
	}
	var vi tls.VersionInformation
	verSeen := map[uint32]bool{}
	bad := 0
	var firstBad uint32
	for i := 0; i < n; i++ {
		v := vi.GetGREASEVersion()
		verSeen[v] = true
		r.Case(fmt.Sprintf("ver|%d", v%4096), true)
		if v&0x0f0f0f0f != 0x0a0a0a0a {
			if bad == 0 {
				firstBad = v
			}
			bad++
		}
	}
	r.Count("quic_grease_versions", int64(n))
	if bad > 0 {
		r.Violation(map[string]string{"kind": "quic_grease_version_not_reserved", "site": "VersionInformation.GetGREASEVersion"},
			fmt.Sprintf("%d of %d GetGREASEVersion() results are not 0x?a?a?a?a, e.g. %#08x", bad, n, firstBad), firstBad)
	}
	if len(verSeen) < 2 {
		r.Violation(map[string]string{"kind": "quic_grease_version_constant"}, "GetGREASEVersion never varied", nil)
	}
	// marshalled transport parameters with GREASE
	for i := 0; i < mon.Pick(2000, 200000); i++ {
		rg := Sub("C04tp", i)
		tps := tls.TransportParameters{
			tls.InitialMaxData(rg.Uint64() >> 2),
			&tls.GREASETransportParameter{Length: uint16(rg.Intn(20))},
			&tls.VersionInformation{ChoosenVersion: tls.VERSION_1, AvailableVersions: []uint32{tls.VERSION_GREASE, tls.VERSION_1, tls.VERSION_GREASE}},
		}
		body := tps.Marshal()
		parsed, err := wire.ParseTransportParameters(body)
		if err != nil || len(parsed) != 3 {
			r.Violation(map[string]string{"kind": "tp_marshal_unparseable"}, fmt.Sprintf("marshalled TPs do not parse: %v", err), mon.Hex(body))
			continue
		}
		r.Case("tpmarshal", true)
		if (parsed[1].ID-27)%31 != 0 {
			r.Violation(map[string]string{"kind": "tp_grease_id_on_wire"}, fmt.Sprintf("GREASE TP id %d on the wire", parsed[1].ID), mon.Hex(body))
		}
		v := parsed[2].Val
		if len(v) == 16 {
			for _, off := range []int{4, 12} {
				x := binary.BigEndian.Uint32(v[off:])
				if x&0x0f0f0f0f != 0x0a0a0a0a {
					r.Violation(map[string]string{"kind": "quic_grease_version_not_reserved", "site": "VersionInformation.Value"},
						fmt.Sprintf("version_information carries GREASE version %#08x", x), mon.Hex(body))
				}
			}
		}
	}

	// (c) parrots and fingerprinted copies
	conns := mon.Pick(128, 12000)
	type target struct {
		name string
		id   tls.ClientHelloID
		spec func() (*tls.ClientHelloSpec, error)
		// ref: a pristine copy of the spec to read the GREASE positions from, when spec()
		// hands out an object that earlier connections have already used (nil: spec itself)
		ref func() (*tls.ClientHelloSpec, error)
	}
	var targets []target
	for _, p := range AllParrots {
		p := p
		targets = append(targets, target{p.Name, p.ID, func() (*tls.ClientHelloSpec, error) {
			s, err := tls.UTLSIdToSpec(p.ID)
			return &s, err
		}, nil})
	}
	// fingerprinted copies of GREASE-bearing parrots
	for _, pn := range []string{"Chrome_133", "Chrome_120", "Chrome_102", "Chrome_83", "Chrome_70", "Edge_106", "QQ_11_1", "Safari_16_0", "IOS_14"} {
		p := ParrotByName(pn)
		raw, _, err, _ := buildHello(&tls.Config{ServerName: "example.test", OmitEmptyPsk: true}, p.ID, nil)
		if err != nil {
			r.Inconclusive("cannot build " + pn + ": " + err.Error())
			continue
		}
		rec := append([]byte{22, 3, 1, byte(len(raw) >> 8), byte(len(raw))}, raw...)
		targets = append(targets, target{"fp:" + pn, tls.HelloCustom, func() (*tls.ClientHelloSpec, error) {
			f := &tls.Fingerprinter{}
			return f.FingerprintClientHello(rec)
		}, nil})
	}
	// specs whose GREASE key share carries a body of another length than the parrots' single
	// byte: custom specs derived from a parrot's spec, and fingerprinted copies of a
	// captured hello the harness re-encoded with such a share
	for _, n := range []int{2, 3, 16, 32} {
		n := n
		for _, pn := range []string{"Chrome_120", "Chrome_83"} {
			p := ParrotByName(pn)
			targets = append(targets, target{fmt.Sprintf("custom:%s+grease-share-%dB", pn, n), tls.HelloCustom, func() (*tls.ClientHelloSpec, error) {
				sp, err := tls.UTLSIdToSpec(p.ID)
				if err != nil {
					return nil, err
				}
				for _, e := range sp.Extensions {
					if ks, ok := e.(*tls.KeyShareExtension); ok {
						for i := range ks.KeyShares {
							if wire.IsGREASE(uint16(ks.KeyShares[i].Group)) {
								ks.KeyShares[i].Data = make([]byte, n)
							}
						}
					}
				}
				return &sp, nil
			}, nil})
			raw, _, err, _ := buildHello(&tls.Config{ServerName: "example.test", OmitEmptyPsk: true}, p.ID, nil)
			if err != nil {
				continue
			}
			ch0, err := wire.ParseClientHello(raw)
			if err != nil {
				continue
			}
			var shares []byte
			for _, ks := range ch0.KeyShares {
				k := ks.Key
				if wire.IsGREASE(ks.Group) {
					k = make([]byte, n)
				}
				shares = append(shares, append(be16(ks.Group), vec16(k)...)...)
			}
			msg := marshalCH(ch0, setExt(cloneExts(ch0.Exts), wire.ExtKeyShare, vec16(shares)), true)
			rec := recordOf(msg)
			targets = append(targets, target{fmt.Sprintf("fp:%s+grease-share-%dB", pn, n), tls.HelloCustom, func() (*tls.ClientHelloSpec, error) {
				f := &tls.Fingerprinter{}
				return f.FingerprintClientHello(rec)
			}, nil})
		}
	}
	// the SAME spec object applied to one connection after the other (fingerprint once, dial
	// many times; a package-level spec variable): ApplyPreset writes into the spec's extension
	// objects, and what it leaves there must not pin the next connection's GREASE values
	for _, base := range append([]target(nil), targets...) {
		switch base.name {
		case "Chrome_133", "Chrome_102", "Safari_16_0", "fp:Chrome_120", "fp:Edge_106", "fp:IOS_14":
			base := base
			var shared *tls.ClientHelloSpec
			targets = append(targets, target{"shared:" + base.name, tls.HelloCustom, func() (*tls.ClientHelloSpec, error) {
				if shared == nil {
					sp, err := base.spec()
					if err != nil {
						return nil, err
					}
					shared = sp
				}
				return shared, nil
			}, base.spec})
		}
	}
	// JSON-described specs whose GREASE extensions carry ids, with and without keep_id
	if files, _ := filepath.Glob(filepath.Join(repoDir(), "testdata", "ClientHello-JSON-*.json")); len(files) > 0 {
		for fi, fn := range files {
			doc, err := os.ReadFile(fn)
			if err != nil || !bytes.Contains(doc, []byte(`{"name": "GREASE"}`)) {
				continue
			}
			for v := 0; v < 4; v++ {
				id := 0x0a0a + 0x1010*((fi*4+v*5)%16)
				d := bytes.Replace(doc, []byte(`{"name": "GREASE"}`), []byte(fmt.Sprintf(`{"name": "GREASE", "id": %d, "keep_id": %v}`, id, v%2 == 0)), []int{1, 1, 2, 2}[v])
				name := fmt.Sprintf("json:%s/keep%d", strings.TrimSuffix(filepath.Base(fn), ".json"), v)
				targets = append(targets, target{name, tls.HelloCustom, func() (*tls.ClientHelloSpec, error) {
					var sp tls.ClientHelloSpec
					if err := sp.UnmarshalJSON(d); err != nil {
						return nil, err
					}
					return &sp, nil
				}, nil})
			}
		}
	}
	greaseTargets := 0
	interlopers := 0
	for ti, tg := range targets {
		vals := map[string]map[uint16]bool{"cipher": {}, "group": {}, "ext": {}, "version": {}}
		hasGrease := map[string]bool{}
		for k := 0; k < conns; k++ {
			spec, err := tg.spec()
			if err != nil {
				r.Violation(map[string]string{"kind": "spec_error", "target": tg.name}, err.Error(), nil)
				break
			}
			gcfg := &tls.Config{ServerName: "example.test", OmitEmptyPsk: true}
			if ti%3 == 1 {
				// a randomness source that answers with short reads (1..8 bytes per call)
				gcfg.Rand = peer.ChunkedRand{N: []int{1, 2, 4, 8}[(ti/3)%4]}
			}
			raw, _, err, _ := buildHello(gcfg, tls.HelloCustom, func(u *tls.UConn) error {
				if err := u.ApplyPreset(spec); err != nil {
					return err
				}
				if strings.HasPrefix(tg.name, "shared:") && k%2 == 1 {
					// another connection is set up from the same spec object before this one
					// marshals its hello (concurrent dials from one package-level spec): the
					// values it draws are its own
					other := tls.UClient(nil, &tls.Config{ServerName: "example.test", OmitEmptyPsk: true}, tls.HelloCustom)
					if err := other.ApplyPreset(spec); err != nil {
						return err
					}
					interlopers++
				}
				return nil
			})
			if err != nil {
				r.Violation(map[string]string{"kind": "build_error", "target": tg.name}, err.Error(), nil)
				break
			}
			ch, err := wire.ParseClientHello(raw)
			if err != nil {
				r.Violation(map[string]string{"kind": "unparseable_hello", "target": tg.name}, err.Error(), mon.Hex(raw))
				break
			}
			viol := func(kind, what string) {
				r.Violation(map[string]string{"kind": kind, "target": tg.name}, what, map[string]any{"hello": mon.Hex(raw)})
			}
			// cipher suites: positions where the spec has a GREASE value
			ref, _ := tg.spec()
			if tg.ref != nil {
				ref, _ = tg.ref()
			}
			for i, cs := range ref.CipherSuites {
				if wire.IsGREASE(cs) {
					hasGrease["cipher"] = true
					if i < len(ch.Suites) {
						vals["cipher"][ch.Suites[i]] = true
						if !wire.IsGREASE(ch.Suites[i]) {
							viol("grease_cipher_not_reserved", fmt.Sprintf("suite position %d carries %#04x", i, ch.Suites[i]))
						}
					}
				}
			}
			// extensions: multiset difference
			known := map[uint16]int{}
			nGreaseExt := 0
			var specGroupsGrease, specKSGrease, specVersGrease []int
			for _, e := range ref.Extensions {
				switch v := e.(type) {
				case *tls.UtlsGREASEExtension:
					nGreaseExt++
					continue
				case *tls.SupportedCurvesExtension:
					for i, c := range v.Curves {
						if wire.IsGREASE(uint16(c)) {
							specGroupsGrease = append(specGroupsGrease, i)
						}
					}
				case *tls.KeyShareExtension:
					for i, c := range v.KeyShares {
						if wire.IsGREASE(uint16(c.Group)) {
							specKSGrease = append(specKSGrease, i)
						}
					}
				case *tls.SupportedVersionsExtension:
					for i, c := range v.Versions {
						if wire.IsGREASE(c) {
							specVersGrease = append(specVersGrease, i)
						}
					}
				}
				if ty, ok := ExtTypeOf(e); ok {
					known[ty]++
				}
			}
			var greaseExts []uint16
			for _, e := range ch.Exts {
				if known[e.Type] > 0 {
					known[e.Type]--
					continue
				}
				greaseExts = append(greaseExts, e.Type)
			}
			if nGreaseExt > 0 {
				hasGrease["ext"] = true
				if len(greaseExts) != nGreaseExt {
					viol("grease_ext_count", fmt.Sprintf("spec has %d GREASE extensions, wire has %d unexplained extension types %04x", nGreaseExt, len(greaseExts), greaseExts))
				}
				for _, ty := range greaseExts {
					vals["ext"][ty] = true
					if !wire.IsGREASE(ty) {
						viol("grease_ext_not_reserved", fmt.Sprintf("GREASE extension type %#04x", ty))
					}
				}
				if len(greaseExts) == 2 && greaseExts[0] == greaseExts[1] {
					viol("grease_ext_equal", fmt.Sprintf("both GREASE extensions use %#04x", greaseExts[0]))
				}
			}
			var wireGroupGrease, wireKSGrease []uint16
			for _, i := range specGroupsGrease {
				hasGrease["group"] = true
				if i < len(ch.Groups) {
					vals["group"][ch.Groups[i]] = true
					wireGroupGrease = append(wireGroupGrease, ch.Groups[i])
					if !wire.IsGREASE(ch.Groups[i]) {
						viol("grease_group_not_reserved", fmt.Sprintf("supported_groups position %d carries %#04x", i, ch.Groups[i]))
					}
				}
			}
			for _, i := range specKSGrease {
				if i < len(ch.KeyShares) {
					wireKSGrease = append(wireKSGrease, ch.KeyShares[i].Group)
					if !wire.IsGREASE(ch.KeyShares[i].Group) {
						viol("grease_keyshare_not_reserved", fmt.Sprintf("key_share position %d carries %#04x", i, ch.KeyShares[i].Group))
					}
				}
			}
			if len(wireGroupGrease) > 0 && len(wireKSGrease) > 0 && wireGroupGrease[0] != wireKSGrease[0] {
				viol("grease_group_keyshare_differ", fmt.Sprintf("supported_groups GREASE %#04x but key_share GREASE %#04x", wireGroupGrease[0], wireKSGrease[0]))
			}
			for _, i := range specVersGrease {
				hasGrease["version"] = true
				if i < len(ch.Versions) {
					vals["version"][ch.Versions[i]] = true
					if !wire.IsGREASE(ch.Versions[i]) {
						viol("grease_version_not_reserved", fmt.Sprintf("supported_versions position %d carries %#04x", i, ch.Versions[i]))
					}
				}
			}
			// signature algorithms never carry non-reserved garbage at GREASE positions
			r.Case(fmt.Sprintf("%s|%04x|%04x", tg.name, ch.Suites[0], greaseExts), len(hasGrease) > 0)
			if k == 0 && len(hasGrease) > 0 {
				r.Sample(map[string]any{"target": tg.name, "suites0": fmt.Sprintf("%#04x", ch.Suites[0]), "grease_exts": u16s(greaseExts), "groups": u16s(ch.Groups), "versions": u16s(ch.Versions)})
			}
		}
		if len(hasGrease) > 0 {
			greaseTargets++
		}
		for kind := range hasGrease {
			r.Count("positions_"+kind, int64(len(vals[kind])))
			if len(vals[kind]) < 2 {
				r.Violation(map[string]string{"kind": "grease_not_varying", "what": kind, "target": tg.name},
					fmt.Sprintf("%s GREASE value took %d distinct values over %d connections", kind, len(vals[kind]), conns), nil)
			}
		}
	}
	r.Count("grease_bearing_targets", int64(greaseTargets))
	r.Count("shared_spec_interlopers", int64(interlopers))
	r.Floor("shared_spec_interlopers", 10)
	r.Floor("grease_bearing_targets", 10)
	r.Assume("freshness is judged by >=2 distinct values over N connections (false-alarm probability <= 16^-(N-1))")
}
