package props

import (
	"fmt"
	"io"
	"strings"
	"testing"
	"time"

	tls "github.com/refraction-networking/utls"
	"verifharness/mon"
	"verifharness/peer"
	"verifharness/wire"
)

type advCase struct {
	name  string
	max   uint16                              // server MaxVersion
	plan  func() *tls.VerifPlan               // hooks
	edit  func(u *tls.UConn) error            // optional client edit after BuildHandshakeState
	scfg  func(c *tls.Config)                 // optional server config change
	value func(cs tls.ConnectionState) string // the value the client must never report
	// void reports that the forced value turned out to be on the wire of THIS connection's
	// hello after all (the plan is made from a probe hello; GREASE values are drawn afresh
	// per connection), i.e. the property's precondition "not offered" does not hold.
	void func(ch *wire.ClientHello) bool
	// ccfg: extra client configuration (e.g. a Config.NextProtos that differs from the
	// spec's ALPN list: what counts is what went on the wire)
	ccfg func(c *tls.Config)
}

func rewriteServerHello(f func(sh *wire.ServerHello) bool) func(bool, []byte) []byte {
	return func(isClient bool, data []byte) []byte {
		if isClient || len(data) < 4 || data[0] != 2 {
			return nil
		}
		sh, err := wire.ParseServerHello(data)
		if err != nil || sh.IsHRR {
			return nil
		}
		if !f(sh) {
			return nil
		}
		return sh.Marshal()
	}
}

func rewriteEE(f func(exts []wire.Ext) []wire.Ext) func(bool, []byte) []byte {
	return func(isClient bool, data []byte) []byte {
		if isClient || len(data) < 4 || data[0] != 8 {
			return nil
		}
		exts, ok := eeExts(data)
		if !ok {
			return nil
		}
		return eeMarshal(f(exts))
	}
}

// C12 — The client rejects any server choice it did not offer on the wire.
func TestC12(t *testing.T) {
	r := mon.New("C12", "targets (parrots, randomized, custom, plus copies with a suite / compression algorithm removed by a documented edit) x adversarial server choices drawn from the complement of what the parsed wire hello offers: unoffered TLS 1.3 suite and unoffered <=1.2 suite (really used by the hooked server, so a client without the check would complete), TLS 1.2 / GREASE suite in a TLS 1.3 ServerHello, key_share for an unoffered group label, ALPN not offered (1.2 ServerHello and 1.3 EncryptedExtensions), compression method 1, selected PSK identity without / beyond an offer, legacy session id not echoed, certificate compressed with an unadvertised algorithm. Oracle: client Handshake returns an error, ConnectionState never reports the value, no application byte is delivered. distinct = (target family, case)")
	defer r.Finish(t)
	var targets []Target
	targets = append(targets, ParrotTargets(false)...)
	for i := 0; i < mon.Pick(60, 20000); i++ {
		targets = append(targets, RandomizedTarget(i))
	}
	for i := 0; i < mon.Pick(90, 30000); i++ {
		targets = append(targets, CustomTarget(i))
	}
	targets = append(targets, NoShareTargets()...) // specs without a usable key share in the first hello
	// hellos whose only share for some key material is a hybrid one: the client then holds an
	// X25519 (and an ML-KEM) key for groups it did not offer on their own
	for _, pn := range []string{"Chrome_131", "Chrome_133", "Chrome_120_PQ", "Chrome_115_PQ"} {
		p := ParrotByName(pn)
		if p.Name == "" {
			continue
		}
		targets = append(targets, Target{Name: p.Name + "+hybrid-share-only", Spec: func() (*tls.ClientHelloSpec, error) {
			sp, err := tls.UTLSIdToSpec(p.ID)
			if err != nil {
				return nil, err
			}
			for _, e := range sp.Extensions {
				switch x := e.(type) {
				case *tls.KeyShareExtension:
					var keep []tls.KeyShare
					for _, ks := range x.KeyShares {
						if ks.Group != tls.X25519 {
							keep = append(keep, ks)
						}
					}
					x.KeyShares = keep
				case *tls.SupportedCurvesExtension:
					var keep []tls.CurveID
					for _, g := range x.Curves {
						if g != tls.X25519 {
							keep = append(keep, g)
						}
					}
					x.Curves = keep
				}
			}
			return &sp, nil
		}})
	}
	// specs without a supported_groups extension (the key shares are all such a hello offers):
	// the library's default curve list was never on the wire
	for _, pn := range []string{"Chrome_102", "Firefox_105", "Chrome_131"} {
		p := ParrotByName(pn)
		targets = append(targets, Target{Name: p.Name + "-supported_groups", Spec: func() (*tls.ClientHelloSpec, error) {
			sp, err := tls.UTLSIdToSpec(p.ID)
			if err != nil {
				return nil, err
			}
			var keep []tls.TLSExtension
			for _, e := range sp.Extensions {
				if _, ok := e.(*tls.SupportedCurvesExtension); !ok {
					keep = append(keep, e)
				}
			}
			sp.Extensions = keep
			return &sp, nil
		}})
	}
	type job struct {
		t  Target
		c  advCase
		ed bool
	}
	var jobs []job
	for ti, tg := range targets {
		ch, err := tg.Probe("example.test")
		if err != nil {
			continue
		}
		rg := Sub("C12plan", ti)
		o := OfferOf(ch, targetMinVersion(tg))
		has13 := o.Has(tls.VersionTLS13) && len(o.Suites13) > 0
		has12 := o.Has(tls.VersionTLS12) && len(o.Suites12) > 0
		off13 := map[uint16]bool{}
		for _, s := range o.Suites13 {
			off13[s] = true
		}
		offAll := map[uint16]bool{}
		for _, s := range ch.Suites {
			offAll[s] = true
		}
		add := func(c advCase) { jobs = append(jobs, job{t: tg, c: c}) }
		if has13 {
			// (1) unoffered TLS 1.3 suite, really used
			if s, ok := pickNot(rg, []uint16{0x1301, 0x1302, 0x1303}, off13); ok {
				add(advCase{name: "unoffered_tls13_suite", max: tls.VersionTLS13, plan: func() *tls.VerifPlan { return &tls.VerifPlan{ForceSuite13: s} },
					value: func(cs tls.ConnectionState) string {
						if cs.CipherSuite == s {
							return fmt.Sprintf("suite %#04x", s)
						}
						return ""
					}})
			} else {
				// all three offered: remove one by the documented Hello.CipherSuites edit
				drop := o.Suites13[rg.Intn(len(o.Suites13))]
				add(advCase{name: "unoffered_tls13_suite(after edit)", max: tls.VersionTLS13, plan: func() *tls.VerifPlan { return &tls.VerifPlan{ForceSuite13: drop} },
					edit: func(u *tls.UConn) error {
						var cs []uint16
						for _, s := range u.HandshakeState.Hello.CipherSuites {
							if s != drop {
								cs = append(cs, s)
							}
						}
						u.HandshakeState.Hello.CipherSuites = cs
						return nil
					},
					value: func(cs tls.ConnectionState) string {
						if cs.CipherSuite == drop {
							return fmt.Sprintf("suite %#04x", drop)
						}
						return ""
					}})
			}
			// (2) TLS 1.2 suite / GREASE suite in a TLS 1.3 ServerHello
			for _, s := range []uint16{tls.TLS_ECDHE_RSA_WITH_AES_128_GCM_SHA256, 0x3a3a, 0x0000} {
				s := s
				add(advCase{name: fmt.Sprintf("tls13_serverhello_suite_%04x", s), max: tls.VersionTLS13, plan: func() *tls.VerifPlan {
					return &tls.VerifPlan{RewriteOut: rewriteServerHello(func(sh *wire.ServerHello) bool { sh.Suite = s; return true })}
				}, void: func(ch *wire.ClientHello) bool {
					for _, x := range ch.Suites {
						if x == s {
							return true
						}
					}
					return false
				}})
			}
			// (5) key_share relabelled to a group the client did not offer
			listed := map[uint16]bool{}
			for _, g := range ch.Groups {
				listed[g] = true
			}
			if g, ok := pickNot(rg, []uint16{0x001e, 0x0100, 0x4a4a, 0x0019, 0x0018, 0x6399}, listed); ok {
				add(advCase{name: "unoffered_group_label", max: tls.VersionTLS13, plan: func() *tls.VerifPlan {
					return &tls.VerifPlan{RewriteOut: rewriteServerHello(func(sh *wire.ServerHello) bool {
						e := sh.Ext(wire.ExtKeyShare)
						if e == nil || len(e.Data) < 4 {
							return false
						}
						d := append([]byte(nil), e.Data...)
						d[0], d[1] = byte(g>>8), byte(g)
						sh.SetExt(wire.ExtKeyShare, d)
						return true
					})}
				}, void: func(ch *wire.ClientHello) bool {
					for _, x := range ch.Groups {
						if x == g {
							return true
						}
					}
					for _, ks := range ch.KeyShares {
						if ks.Group == g {
							return true
						}
					}
					return false
				}})
			}
			// (5a') the server labels its key share with the GREASE group of the client's own GREASE
			// key share.  A GREASE value is on the wire, but it is no offer: a server that "selects"
			// it must be refused (RFC 8701, Section 3.1), and ConnectionState never reports one
			{
				var gg uint16
				add(advCase{name: "grease_group_selected", max: tls.VersionTLS13,
					scfg: func(c *tls.Config) {
						c.GetConfigForClient = func(chi *tls.ClientHelloInfo) (*tls.Config, error) {
							for _, g := range chi.SupportedCurves {
								if wire.IsGREASE(uint16(g)) {
									gg = uint16(g)
									break
								}
							}
							return nil, nil
						}
					},
					plan: func() *tls.VerifPlan {
						return &tls.VerifPlan{RewriteOut: rewriteServerHello(func(sh *wire.ServerHello) bool {
							e := sh.Ext(wire.ExtKeyShare)
							if gg == 0 || e == nil || len(e.Data) < 4 {
								return false
							}
							d := append([]byte(nil), e.Data...)
							d[0], d[1] = byte(gg>>8), byte(gg)
							sh.SetExt(wire.ExtKeyShare, d)
							return true
						})}
					},
					value: func(cs tls.ConnectionState) string {
						if c, ok := stateCurve(cs); ok && wire.IsGREASE(c) {
							return fmt.Sprintf("GREASE group %#04x", c)
						}
						return ""
					},
					void: func(ch *wire.ClientHello) bool {
						share, listed := false, false
						for _, ks := range ch.KeyShares {
							if wire.IsGREASE(ks.Group) {
								share = true
							}
						}
						for _, g := range ch.Groups {
							if wire.IsGREASE(g) {
								listed = true
							}
						}
						return !share || !listed // the server of this case picks the GREASE value up from supported_groups and needs a GREASE share to relabel its own to
					}})
			}
			// (5c) the server really answers on a group the hello does not offer but for which the
			// client holds key material all the same, because it is part of a hybrid share it sent
			// (X25519 out of a hybrid share; X25519MLKEM768 out of the Kyber draft share)
			{
				shared := map[uint16]bool{}
				for _, ks := range ch.KeyShares {
					shared[ks.Group] = true
				}
				for _, g := range []uint16{0x001d, 0x11ec} {
					g := g
					if listed[g] || shared[g] || !(shared[0x11ec] || shared[0x6399]) || g == 0x11ec && !shared[0x6399] {
						continue
					}
					add(advCase{name: fmt.Sprintf("sibling_of_hybrid_share_selected(%04x)", g), max: tls.VersionTLS13,
						plan: func() *tls.VerifPlan { return &tls.VerifPlan{ForceGroup: tls.CurveID(g), UseSiblingShare: true} },
						value: func(cs tls.ConnectionState) string {
							if c, ok := stateCurve(cs); ok && c == g {
								return fmt.Sprintf("group %#04x", g)
							}
							return ""
						},
						void: func(ch *wire.ClientHello) bool {
							for _, x := range ch.Groups {
								if x == g {
									return true
								}
							}
							return false
						}})
				}
			}
			// (5b) the server really switches to a classical group the hello does not list, through a
			// HelloRetryRequest, and finishes the handshake on it
			if g, ok := pickNot(rg, []uint16{0x0019, 0x0018, 0x0017, 0x001d}, listed); ok {
				add(advCase{name: "hrr_to_unlisted_group", max: tls.VersionTLS13, plan: func() *tls.VerifPlan { return &tls.VerifPlan{ForceGroup: tls.CurveID(g)} },
					void: func(ch *wire.ClientHello) bool {
						for _, x := range ch.Groups {
							if x == g {
								return true
							}
						}
						return false
					}})
			}
			// (6b) ALPN not offered in EncryptedExtensions
			add(advCase{name: "tls13_unoffered_alpn", max: tls.VersionTLS13, plan: func() *tls.VerifPlan {
				return &tls.VerifPlan{RewriteOut: rewriteEE(func(exts []wire.Ext) []wire.Ext { return setExt(exts, wire.ExtALPN, alpnBody("verif-not-offered")) })}
			}, value: func(cs tls.ConnectionState) string {
				if cs.NegotiatedProtocol == "verif-not-offered" {
					return "ALPN verif-not-offered"
				}
				return ""
			}})
			// (6b') same, but the protocol IS in Config.NextProtos (not on the wire: parrots send the spec's list)
			add(advCase{name: "tls13_unoffered_alpn(in Config.NextProtos)", max: tls.VersionTLS13, plan: func() *tls.VerifPlan {
				return &tls.VerifPlan{RewriteOut: rewriteEE(func(exts []wire.Ext) []wire.Ext { return setExt(exts, wire.ExtALPN, alpnBody("verif-not-offered")) })}
			}, ccfg: func(c *tls.Config) { c.NextProtos = []string{"verif-not-offered", "h2"} },
				void: func(ch *wire.ClientHello) bool {
					for _, p := range ch.ALPN {
						if p == "verif-not-offered" {
							return true
						}
					}
					return false
				}, value: func(cs tls.ConnectionState) string {
					if cs.NegotiatedProtocol == "verif-not-offered" {
						return "ALPN verif-not-offered"
					}
					return ""
				}})
			// (7) compression method 1
			add(advCase{name: "tls13_compression_1", max: tls.VersionTLS13, plan: func() *tls.VerifPlan {
				return &tls.VerifPlan{RewriteOut: rewriteServerHello(func(sh *wire.ServerHello) bool { sh.Compression = 1; return true })}
			}})
			// (8) selected PSK identity without / beyond an offer
			sel := uint16(0)
			if ch.Has(wire.ExtPreSharedKey) {
				sel = uint16(len(ch.PSKIds) + 3)
			}
			add(advCase{name: "psk_identity_not_offered", max: tls.VersionTLS13, plan: func() *tls.VerifPlan {
				return &tls.VerifPlan{RewriteOut: rewriteServerHello(func(sh *wire.ServerHello) bool { sh.SetExt(wire.ExtPreSharedKey, be16(sel)); return true })}
			}})
			// (10) legacy session id not echoed
			add(advCase{name: "tls13_session_id_not_echoed", max: tls.VersionTLS13, plan: func() *tls.VerifPlan {
				return &tls.VerifPlan{RewriteOut: rewriteServerHello(func(sh *wire.ServerHello) bool {
					sid := append([]byte(nil), sh.SessionID...)
					if len(sid) == 0 {
						sid = make([]byte, 32)
					}
					sid[len(sid)-1] ^= 0x55
					sh.SessionID = sid
					return true
				})}
			}})
			// (8b) the caller cleared the legacy session id after the build (a documented edit; QUIC
			// hellos have none either): nothing is to be echoed, and a ServerHello that carries a
			// session id all the same does not echo the client's
			add(advCase{name: "tls13_session_id_sent_to_a_hello_without_one", max: tls.VersionTLS13,
				edit: func(u *tls.UConn) error { u.HandshakeState.Hello.SessionId = nil; return nil },
				plan: func() *tls.VerifPlan {
					sid := randBytes(rg, 32)
					return &tls.VerifPlan{RewriteOut: rewriteServerHello(func(sh *wire.ServerHello) bool {
						sh.SessionID = sid
						return true
					})}
				},
				void: func(ch *wire.ClientHello) bool { return len(ch.SessionID) != 0 }})
			// (9) certificate compressed with an unadvertised algorithm (valid encoding)
			if len(ch.CertCompAlgs) > 0 {
				adv := map[uint16]bool{}
				for _, a := range ch.CertCompAlgs {
					adv[a] = true
				}
				if alg, ok := pickNot(rg, []uint16{algZlib, algBrotli, algZstd}, adv); ok {
					add(advCase{name: "cert_compression_unadvertised", max: tls.VersionTLS13, plan: func() *tls.VerifPlan { return compressCertPlan(alg) }})
				}
				// the C01-style edit: change the advertised list after the first build, then use a formerly listed algorithm
				orig := ch.CertCompAlgs[0]
				if repl, ok := pickNot(rg, []uint16{algZlib, algBrotli, algZstd}, map[uint16]bool{orig: true}); ok {
					add(advCase{name: "cert_compression_unadvertised(after edit)", max: tls.VersionTLS13, plan: func() *tls.VerifPlan { return compressCertPlan(orig) },
						edit: func(u *tls.UConn) error {
							for _, e := range u.Extensions {
								if cc, ok := e.(*tls.UtlsCompressCertExtension); ok {
									cc.Algorithms = []tls.CertCompressionAlgo{tls.CertCompressionAlgo(repl)}
								}
							}
							return nil
						}})
				}
				// the caller drops the whole compress_certificate extension after the first build:
				// nothing is advertised any more, a compressed certificate must be refused
				add(advCase{name: "cert_compression_unadvertised(extension removed after build)", max: tls.VersionTLS13, plan: func() *tls.VerifPlan { return compressCertPlan(orig) },
					edit: func(u *tls.UConn) error {
						var kept []tls.TLSExtension
						for _, e := range u.Extensions {
							if _, ok := e.(*tls.UtlsCompressCertExtension); !ok {
								kept = append(kept, e)
							}
						}
						u.Extensions = kept
						return nil
					},
					void: func(ch *wire.ClientHello) bool { return ch.Has(wire.ExtCompressCert) }})
			}
		}
		if has12 {
			// (4) unoffered <=1.2 suite, really used
			var pool []uint16
			for id, vs := range serverSuites12 {
				for _, v := range vs {
					if v == tls.VersionTLS12 {
						pool = append(pool, id)
					}
				}
			}
			pool = append(pool, tls.OLD_TLS_ECDHE_RSA_WITH_CHACHA20_POLY1305_SHA256)
			sortU16(pool)
			if s, ok := pickNot(rg, pool, offAll); ok {
				add(advCase{name: "unoffered_tls12_suite", max: tls.VersionTLS12, plan: func() *tls.VerifPlan { return &tls.VerifPlan{ForceSuite12: s} },
					value: func(cs tls.ConnectionState) string {
						if cs.CipherSuite == s {
							return fmt.Sprintf("suite %#04x", s)
						}
						return ""
					}})
			}
			// (4b) the TLS 1.2 server really runs ECDHE on a curve the hello's supported_groups
			// does not list (hook ForceCurve12) and signs it
			if ch.Has(wire.ExtSupportedGroups) {
				inGroups := map[uint16]bool{}
				for _, x := range ch.Groups {
					inGroups[x] = true
				}
				if g, ok := pickNot(rg, []uint16{0x0019, 0x0018, 0x0017, 0x001d}, inGroups); ok {
					add(advCase{name: "tls12_unoffered_curve", max: tls.VersionTLS12, plan: func() *tls.VerifPlan { return &tls.VerifPlan{ForceCurve12: tls.CurveID(g)} },
						value: func(cs tls.ConnectionState) string {
							if c, ok := stateCurve(cs); ok && c == g {
								return fmt.Sprintf("curve %#04x", g)
							}
							return ""
						},
						void: func(ch *wire.ClientHello) bool {
							for _, x := range ch.Groups {
								if x == g {
									return true
								}
							}
							return false
						}})
					// the same while the caller's Config is shared with a connection whose preset
					// does list that curve (uTLS writes each spec's groups into the Config): what
					// counts is what THIS hello offered
					if g == 0x0019 && tg.ID.Client != tls.HelloGolang.Client {
						var shared *tls.Config
						add(advCase{name: "tls12_unoffered_curve(listed by another connection on the shared Config)", max: tls.VersionTLS12,
							plan: func() *tls.VerifPlan { return &tls.VerifPlan{ForceCurve12: tls.CurveID(g)} },
							ccfg: func(c *tls.Config) { shared = c },
							// (the other connection is set up while this one waits for the server's
							// first flight: the server's callback is that moment)
							scfg: func(c *tls.Config) {
								c.GetConfigForClient = func(*tls.ClientHelloInfo) (*tls.Config, error) {
									if shared != nil {
										other := tls.UClient(nil, shared, tls.HelloFirefox_120) // lists secp521r1
										other.BuildHandshakeState()
									}
									return nil, nil
								}
							},
							value: func(cs tls.ConnectionState) string {
								if c, ok := stateCurve(cs); ok && c == g {
									return fmt.Sprintf("curve %#04x", g)
								}
								return ""
							},
							void: func(ch *wire.ClientHello) bool {
								for _, x := range ch.Groups {
									if x == g {
										return true
									}
								}
								return false
							}})
					}
				}
			}
			// (6a) ALPN not offered in a TLS 1.2 ServerHello
			add(advCase{name: "tls12_unoffered_alpn", max: tls.VersionTLS12, plan: func() *tls.VerifPlan {
				return &tls.VerifPlan{RewriteOut: rewriteServerHello(func(sh *wire.ServerHello) bool {
					if sh.Exts == nil {
						sh.Exts = []wire.Ext{}
					}
					sh.SetExt(wire.ExtALPN, alpnBody("verif-not-offered"))
					return true
				})}
			}, value: func(cs tls.ConnectionState) string {
				if cs.NegotiatedProtocol == "verif-not-offered" {
					return "ALPN verif-not-offered"
				}
				return ""
			}})
			add(advCase{name: "tls12_unoffered_alpn(in Config.NextProtos)", max: tls.VersionTLS12, plan: func() *tls.VerifPlan {
				return &tls.VerifPlan{RewriteOut: rewriteServerHello(func(sh *wire.ServerHello) bool {
					if sh.Exts == nil {
						sh.Exts = []wire.Ext{}
					}
					sh.SetExt(wire.ExtALPN, alpnBody("verif-not-offered"))
					return true
				})}
			}, ccfg: func(c *tls.Config) { c.NextProtos = []string{"http/1.1", "verif-not-offered"} },
				void: func(ch *wire.ClientHello) bool {
					for _, p := range ch.ALPN {
						if p == "verif-not-offered" {
							return true
						}
					}
					return false
				}, value: func(cs tls.ConnectionState) string {
					if cs.NegotiatedProtocol == "verif-not-offered" {
						return "ALPN verif-not-offered"
					}
					return ""
				}})
			// (7) compression method 1 in TLS 1.2
			notOffered := true
			for _, c := range ch.Compression {
				if c == 1 {
					notOffered = false
				}
			}
			if notOffered {
				add(advCase{name: "tls12_compression_1", max: tls.VersionTLS12, plan: func() *tls.VerifPlan {
					return &tls.VerifPlan{RewriteOut: rewriteServerHello(func(sh *wire.ServerHello) bool { sh.Compression = 1; return true })}
				}})
			}
		}
	}
	r.Count("planned_cases", int64(len(jobs)))
	caseKinds := map[string]bool{}
	for _, j := range jobs {
		caseKinds[j.c.name] = true
	}
	parallel(len(jobs), func(i int) {
		j := jobs[i]
		scfg := peer.ServerConfig()
		scfg.MaxVersion = j.c.max
		scfg.NextProtos = []string{"h2", "http/1.1", "h3"}
		if j.c.scfg != nil {
			j.c.scfg(scfg)
		}
		tg := j.t
		tg.Edit = j.c.edit
		var delivered int
		var readErr error
		opts := peer.Opts{NoEcho: true, KeepOpen: true, PostHandshake: func(h *peer.HS) {
			// both sides completed (a violation is about to be reported): does data flow?
			go h.Server.Write([]byte("server-application-data"))
			buf := make([]byte, 64)
			h.CEnd.SetReadDeadline(time.Now().Add(time.Second))
			delivered, readErr = io.ReadAtLeast(h.Client, buf, 1)
		}}
		h := RunCase(tg, GridCase{Server: scfg, Plan: j.c.plan()}, "example.test", j.c.ccfg, opts)
		defer func() {
			h.Client.Close()
			h.Server.Close()
			h.CEnd.Close()
			h.SEnd.Close()
		}()
		sig := map[string]string{"target": family(j.t.Name), "case": j.c.name}
		rep := map[string]any{"case_index": i, "target": j.t.Name, "case": j.c.name, "err": h.ErrString()}
		if h.ClientPanic != "" {
			sig["kind"] = "panic"
			r.Violation(sig, j.t.Name+": "+firstLine(h.ClientPanic), rep)
			return
		}
		hellos := wire.ClientHellos(h.C2S)
		if len(hellos) > 0 {
			rep["hello"] = mon.Hex(hellos[0])
		}
		if j.c.void != nil && len(hellos) > 0 {
			if ch, err := wire.ParseClientHello(hellos[0]); err == nil && j.c.void(ch) {
				r.Count("void_forced_value_was_on_this_wire_after_all", 1)
				return
			}
		}
		cs := h.Client.ConnectionState()
		if h.ClientErr == nil {
			sig["kind"] = "unoffered_choice_accepted"
			r.Violation(sig, fmt.Sprintf("%s: the client completed a handshake although the server chose something the wire hello did not offer (%s); application bytes delivered afterwards: %d (%v)", j.t.Name, j.c.name, delivered, readErr), rep)
		} else {
			r.Count("rejected", 1)
			if strings.Contains(j.c.name, "shared Config") {
				r.Count("shared_config_curve_selections_refused", 1)
			}
			if strings.HasPrefix(j.c.name, "sibling_of_hybrid_share_selected") {
				r.Count("sibling_group_selections_refused", 1)
			}
			if cs.HandshakeComplete {
				sig["kind"] = "complete_despite_error"
				r.Violation(sig, fmt.Sprintf("%s: Handshake returned %v but ConnectionState.HandshakeComplete is true", j.t.Name, h.ClientErr), rep)
			}
		}
		if j.c.value != nil {
			if v := j.c.value(cs); v != "" && cs.HandshakeComplete {
				sig["kind"] = "unoffered_value_reported"
				r.Violation(sig, fmt.Sprintf("%s: ConnectionState reports the unoffered %s", j.t.Name, v), rep)
			}
		}
		r.Case(fmt.Sprintf("%s|%s", family(j.t.Name), j.c.name), true)
		if i%211 == 0 {
			r.Sample(map[string]any{"target": j.t.Name, "case": j.c.name, "client_err": fmt.Sprint(h.ClientErr)})
		}
	})
	r.Count("case_kinds", int64(len(caseKinds)))
	r.Floor("rejected", 500)
	r.Floor("case_kinds", 15)
	r.Floor("sibling_group_selections_refused", 4)
}

// compressCertPlan replaces the server's Certificate message by a valid
// CompressedCertificate using alg.
func compressCertPlan(alg uint16) *tls.VerifPlan {
	return &tls.VerifPlan{RewriteOut: func(isClient bool, data []byte) []byte {
		if isClient || len(data) < 4 || data[0] != 11 {
			return nil
		}
		body := data[4:]
		comp, err := compress(alg, body, compOpts{})
		if err != nil {
			return nil
		}
		return compressedCertificateMsg(alg, len(body), comp)
	}}
}

func sortU16(v []uint16) {
	for i := 1; i < len(v); i++ {
		for j := i; j > 0 && v[j] < v[j-1]; j-- {
			v[j], v[j-1] = v[j-1], v[j]
		}
	}
}
