package props

import (
	"bytes"
	"fmt"
	"io"
	"net"
	"testing"
	"time"

	tls "github.com/refraction-networking/utls"
	"verifharness/mon"
	"verifharness/peer"
	"verifharness/wire"
)

func isAEADSuite(id uint16) bool {
	switch id {
	case 0x1301, 0x1302, 0x1303, tls.TLS_RSA_WITH_AES_128_GCM_SHA256, tls.TLS_RSA_WITH_AES_256_GCM_SHA384,
		tls.TLS_ECDHE_ECDSA_WITH_AES_128_GCM_SHA256, tls.TLS_ECDHE_RSA_WITH_AES_128_GCM_SHA256, tls.TLS_ECDHE_ECDSA_WITH_AES_256_GCM_SHA384, tls.TLS_ECDHE_RSA_WITH_AES_256_GCM_SHA384,
		tls.TLS_ECDHE_RSA_WITH_CHACHA20_POLY1305_SHA256, tls.TLS_ECDHE_ECDSA_WITH_CHACHA20_POLY1305_SHA256,
		tls.OLD_TLS_ECDHE_RSA_WITH_CHACHA20_POLY1305_SHA256, tls.OLD_TLS_ECDHE_ECDSA_WITH_CHACHA20_POLY1305_SHA256:
		return true
	}
	return false
}

// explicitNonceLen: TLS 1.2 AES-GCM records start with an 8-byte explicit nonce (RFC 5288);
// ChaCha20-Poly1305 (RFC 7905) and all TLS 1.3 suites have none.
func explicitNonceLen(version, suite uint16) int {
	if version == tls.VersionTLS13 {
		return 0
	}
	switch suite {
	case tls.TLS_RSA_WITH_AES_128_GCM_SHA256, tls.TLS_RSA_WITH_AES_256_GCM_SHA384, tls.TLS_ECDHE_ECDSA_WITH_AES_128_GCM_SHA256,
		tls.TLS_ECDHE_RSA_WITH_AES_128_GCM_SHA256, tls.TLS_ECDHE_ECDSA_WITH_AES_256_GCM_SHA384, tls.TLS_ECDHE_RSA_WITH_AES_256_GCM_SHA384:
		return 8
	}
	return 0
}

// C28 — GetOutKeystream returns the keystream of the next record.
func TestC28(t *testing.T) {
	r := mon.New("C28", "every AEAD suite x {TLS 1.2, 1.3} (suites forced through the server hooks where needed) x keystream lengths {0,1,15,16,17,1000,16384,20000} x sequence positions (0..40 records already written, a different number read, so that in/out sequence numbers differ; a third of the runs jump to 2^16-1 / 2^24 / 2^32 / 2^48 / 2^63-5 with a hook) x dynamic record sizing on/off: ks=GetOutKeystream(n), then Write(p); the first application-data record tapped afterwards must satisfy ciphertext[explicit nonce:][:m] == p[:m] XOR ks[:m], m=min(n, record plaintext length); the peer reads p unchanged and later traffic still works; non-AEAD suites must return an error; and, against the independent OpenSSL server, the same equation after one and two completed renegotiations (TLS 1.2 AES-GCM / ChaCha20). distinct = (version, suite, n, position bucket)")
	defer r.Finish(t)
	type combo struct {
		v, suite uint16
	}
	var combos []combo
	for _, cs := range append(tls.CipherSuites(), tls.InsecureCipherSuites()...) {
		for _, v := range cs.SupportedVersions {
			if v >= tls.VersionTLS12 {
				combos = append(combos, combo{v, cs.ID})
			}
		}
	}
	combos = append(combos, combo{tls.VersionTLS12, tls.OLD_TLS_ECDHE_RSA_WITH_CHACHA20_POLY1305_SHA256}, combo{tls.VersionTLS12, tls.OLD_TLS_ECDHE_ECDSA_WITH_CHACHA20_POLY1305_SHA256})
	ns := []int{0, 1, 15, 16, 17, 1000, 16384, 20000}
	client := Target{Name: "all-suites", Spec: allSuitesSpec(false)}
	type job struct {
		c   combo
		n   int
		rep int
	}
	var jobs []job
	for _, c := range combos {
		for ni, n := range ns {
			for rep := 0; rep < mon.Pick(3, 1500); rep++ {
				if !isAEADSuite(c.suite) && ni > 1 {
					continue
				}
				jobs = append(jobs, job{c, n, rep})
			}
		}
	}
	parallel(len(jobs), func(i int) {
		j := jobs[i]
		rg := Sub("C28", i)
		scfg := peer.ServerConfig()
		scfg.MaxVersion = j.c.v
		plan := &tls.VerifPlan{}
		if j.c.v == tls.VersionTLS13 {
			plan.ForceSuite13 = j.c.suite
		} else {
			plan.ForceSuite12 = j.c.suite
			if suiteNeedsECDSA(j.c.suite) || j.c.suite == tls.OLD_TLS_ECDHE_ECDSA_WITH_CHACHA20_POLY1305_SHA256 {
				scfg.Certificates = []tls.Certificate{peer.Fix().ECDSA}
			} else {
				scfg.Certificates = []tls.Certificate{peer.Fix().RSA}
			}
		}
		noDyn := rg.Intn(2) == 0
		h := RunCase(client, GridCase{Server: scfg, Plan: plan}, "example.test", func(c *tls.Config) { c.DynamicRecordSizingDisabled = noDyn }, peer.Opts{NoEcho: true, KeepOpen: true})
		defer func() {
			h.CEnd.Close()
			h.SEnd.Close()
		}()
		sig := map[string]string{"version": fmt.Sprintf("%04x", j.c.v), "suite": fmt.Sprintf("%04x", j.c.suite), "n": fmt.Sprint(j.n)}
		rep := map[string]any{"case": i, "version": j.c.v, "suite": j.c.suite, "n": j.n, "err": h.ErrString(), "dynamic_record_sizing_disabled": noDyn}
		if !h.OK() || h.SState.CipherSuite != j.c.suite {
			r.Count("combo_not_negotiated", 1)
			return
		}
		dl := time.Now().Add(peer.IODeadline)
		h.CEnd.SetDeadline(dl)
		h.SEnd.SetDeadline(dl)
		// move the sequence numbers apart: a writes from the client, b writes from the server
		a, b := rg.Intn(41), rg.Intn(7)
		for k := 0; k < a; k++ {
			if err := oneWayRW(h.Client, h.Server, 1+rg.Intn(50)); err != nil {
				r.Count("setup_failed", 1)
				return
			}
		}
		for k := 0; k < b; k++ {
			if err := oneWayRW(h.Server, h.Client, 1+rg.Intn(50)); err != nil {
				r.Count("setup_failed", 1)
				return
			}
		}
		rep["records_written_before"], rep["records_read_before"] = a, b
		if j.rep%3 == 1 {
			// jump to a far sequence position (client write = server read, and vice versa): the
			// boundaries of 16-, 24-, 32- and 48-bit counters and a value close to the end
			pos := []uint64{1<<16 - 1, 1<<24 - 2, 1 << 24, 1<<32 - 1, 1 << 32, 1 << 48, 1<<63 - 5}[rg.Intn(7)]
			// first drain what the server already sent (TLS 1.3 session tickets are still in flight
			// when nothing was read yet): the counters may only be moved on a quiet connection
			if err := oneWayRW(h.Server, h.Client, 5); err != nil {
				r.Count("setup_failed", 1)
				return
			}
			pos2 := uint64(b) + uint64(rg.Intn(5))<<20
			tls.VerifSetSeq(h.Client.Conn, pos2, pos)
			tls.VerifSetSeq(h.Server, pos, pos2)
			rep["sequence_position"] = pos
			r.Count("far_sequence_positions", 1)
		}
		probe := func(round string) bool {
			sig["round"] = round
			ks, err := h.Client.GetOutKeystream(j.n)
			if !isAEADSuite(j.c.suite) {
				if err == nil {
					sig["kind"] = "keystream_for_non_aead"
					r.Violation(sig, fmt.Sprintf("%#04x/%#04x: GetOutKeystream succeeded for a non-AEAD suite", j.c.v, j.c.suite), rep)
				} else {
					r.Count("non_aead_refused", 1)
				}
				r.Case(fmt.Sprintf("%04x|%04x|nonaead", j.c.v, j.c.suite), true)
				return false
			}
			if err != nil {
				sig["kind"] = "keystream_error"
				r.Violation(sig, fmt.Sprintf("%#04x/%#04x: GetOutKeystream(%d): %v", j.c.v, j.c.suite, j.n, err), rep)
				return false
			}
			if len(ks) < j.n {
				sig["kind"] = "keystream_short"
				r.Violation(sig, fmt.Sprintf("GetOutKeystream(%d) returned %d bytes", j.n, len(ks)), rep)
				return false
			}
			before, _ := h.Tap.Snapshot()
			p := randBytes(rg, []int{1, 100, 2000, 16384, 30000}[rg.Intn(5)])
			got := make([]byte, len(p))
			errc := make(chan error, 1)
			go func() { _, e := io.ReadFull(h.Server, got); errc <- e }()
			if _, err := h.Client.Write(p); err != nil {
				sig["kind"] = "write_after_keystream_failed"
				r.Violation(sig, err.Error(), rep)
				return false
			}
			if err := <-errc; err != nil || !bytes.Equal(got, p) {
				sig["kind"] = "peer_rejects_after_keystream"
				r.Violation(sig, fmt.Sprintf("%#04x/%#04x: after GetOutKeystream the peer did not receive the written data intact (%v)", j.c.v, j.c.suite, err), rep)
				return false
			}
			after, _ := h.Tap.Snapshot()
			recs, _, _ := wire.SplitRecords(after[len(before):])
			var first *wire.Record
			for k := range recs {
				if recs[k].Type == 23 {
					first = &recs[k]
					break
				}
			}
			if first == nil {
				sig["kind"] = "no_record_observed"
				r.Violation(sig, "no application_data record on the wire after Write", rep)
				return false
			}
			en := explicitNonceLen(j.c.v, j.c.suite)
			body := first.Body[en:]
			ptLen := len(first.Body) - en - 16
			if j.c.v == tls.VersionTLS13 {
				ptLen-- // inner content type
			}
			m := j.n
			if ptLen < m {
				m = ptLen
			}
			if len(p) < m {
				m = len(p)
			}
			for k := 0; k < m; k++ {
				if body[k] != p[k]^ks[k] {
					sig["kind"] = "keystream_mismatch"
					r.Violation(sig, fmt.Sprintf("%#04x/%#04x n=%d after %d written / %d read records: ciphertext byte %d of the next record is not plaintext XOR keystream (record plaintext %d bytes)", j.c.v, j.c.suite, j.n, a, b, k, ptLen), rep)
					break
				}
			}
			r.Count("keystream_bytes_compared", int64(m))
			r.Count("keystream_probe_"+round, 1)
			return true
		}
		if !probe("first") {
			return
		}
		if isAEADSuite(j.c.suite) {
			// the same again on the same connection (sequence number advanced)
			if !probe("second") {
				return
			}
			if j.c.v == tls.VersionTLS13 && j.rep%2 == 0 {
				// the server asks the client to rotate its write key: the keystream must follow
				if err := tls.VerifSendKeyUpdate(h.Server, true); err == nil {
					if err := oneWayRW(h.Server, h.Client, 10); err != nil { // the client reads the KeyUpdate and answers it
						r.Count("setup_failed", 1)
						return
					}
					if !probe("after-key-update") {
						return
					}
				}
			}
		}
		// later traffic still works in both directions
		if err := oneWayRW(h.Client, h.Server, 300); err != nil {
			sig["kind"] = "later_traffic_broken"
			r.Violation(sig, "c2s after keystream: "+err.Error(), rep)
		}
		if err := oneWayRW(h.Server, h.Client, 300); err != nil {
			sig["kind"] = "later_traffic_broken"
			r.Violation(sig, "s2c after keystream: "+err.Error(), rep)
		}
		r.Case(fmt.Sprintf("%04x|%04x|%d|%d", j.c.v, j.c.suite, j.n, a/8), true)
		if i%47 == 0 {
			r.Sample(map[string]any{"version": fmt.Sprintf("%#04x", j.c.v), "suite": fmt.Sprintf("%#04x", j.c.suite), "n": j.n, "written_before": a, "read_before": b})
		}
	})
	r.Floor("keystream_bytes_compared", 50000)
	// after a completed renegotiation (TLS 1.2; the independent OpenSSL server, if present,
	// renegotiates on request): the out-sequence number starts again, and the keystream handed
	// out must still be the one of the next record
	if peer.OpenSSLAvailable() {
		type rj struct {
			tg     Target
			cipher string
			suite  uint16
			rounds int
		}
		var rjobs []rj
		ciphers := []struct {
			name string
			id   uint16
		}{{"ECDHE-RSA-AES128-GCM-SHA256", tls.TLS_ECDHE_RSA_WITH_AES_128_GCM_SHA256}, {"ECDHE-RSA-AES256-GCM-SHA384", tls.TLS_ECDHE_RSA_WITH_AES_256_GCM_SHA384},
			{"AES128-GCM-SHA256", tls.TLS_RSA_WITH_AES_128_GCM_SHA256}, {"ECDHE-RSA-CHACHA20-POLY1305", tls.TLS_ECDHE_RSA_WITH_CHACHA20_POLY1305_SHA256}}
		names := []string{"Chrome_120", "Golang"}
		if mon.Thorough() {
			names = append(names, "Firefox_120", "Chrome_102", "Firefox_105", "Safari_16_0", "IOS_14", "Edge_106")
		}
		for ni, pn := range names {
			tg := Target{Name: "Golang", ID: tls.HelloGolang}
			if pn != "Golang" {
				p := ParrotByName(pn)
				tg = Target{Name: p.Name, ID: p.ID}
			}
			for ci, c := range ciphers {
				rjobs = append(rjobs, rj{tg, c.name, c.id, 1 + (ni+ci)%2})
			}
		}
		renegOK := 0
		for i, j := range rjobs {
			func() {
				rg := Sub("C28reneg", i)
				srv, err := peer.StartOpenSSLInteractive("rsa", "-tls1_2", "-cipher", j.cipher)
				if err != nil {
					r.Count("openssl_start_failed", 1)
					return
				}
				defer srv.Stop()
				raw, err := net.DialTimeout("tcp", srv.Addr, 5*time.Second)
				if err != nil {
					r.Count("openssl_dial_failed", 1)
					return
				}
				rc := &peer.RecConn{Conn: raw}
				defer rc.Close()
				rc.SetDeadline(time.Now().Add(peer.IODeadline))
				ccfg := peer.ClientConfig("example.test")
				ccfg.OmitEmptyPsk = true
				ccfg.Renegotiation = tls.RenegotiateFreelyAsClient // (parrots switch it on themselves; HelloGolang needs it here)
				u := tls.UClient(rc, ccfg, j.tg.ClientID())
				if err := u.Handshake(); err != nil {
					r.Count("openssl_handshake_failed", 1)
					return
				}
				if u.ConnectionState().CipherSuite != j.suite {
					r.Count("openssl_other_suite", 1)
					return
				}
				sig := map[string]string{"kind": "keystream_mismatch", "suite": fmt.Sprintf("%04x", j.suite), "phase": "after-renegotiation"}
				check := func(phase string) bool {
					n := []int{1, 16, 100, 1000}[rg.Intn(4)]
					p := randBytes(rg, n+rg.Intn(50))
					ks, err := u.GetOutKeystream(n)
					if err != nil {
						r.Violation(map[string]string{"kind": "keystream_error", "suite": fmt.Sprintf("%04x", j.suite)}, fmt.Sprintf("%s %s %s: GetOutKeystream(%d): %v", j.tg.Name, j.cipher, phase, n, err), nil)
						return false
					}
					before, _ := rc.Snapshot()
					if _, err := u.Write(p); err != nil {
						r.Count("openssl_write_failed", 1)
						return false
					}
					after, _ := rc.Snapshot()
					recs, _, _ := wire.SplitRecords(after[len(before):])
					if len(recs) == 0 || recs[0].Type != 23 {
						r.Count("openssl_no_record_tapped", 1)
						return false
					}
					ct := recs[0].Body
					en := explicitNonceLen(tls.VersionTLS12, j.suite)
					m := min(n, len(p), len(ct)-en-16)
					for k := 0; k < m; k++ {
						if ct[en+k] != p[k]^ks[k] {
							r.Violation(sig, fmt.Sprintf("%s vs OpenSSL %s, %s: byte %d of the next record's ciphertext is not plaintext XOR GetOutKeystream (n=%d)", j.tg.Name, j.cipher, phase, k, n), map[string]any{"record": mon.Hex(ct[:min(len(ct), 64)]), "keystream": mon.Hex(ks[:min(len(ks), 64)])})
							return false
						}
					}
					return true
				}
				if !check("before any renegotiation") {
					return
				}
				for round := 1; round <= j.rounds; round++ {
					// ask s_server to renegotiate; the client handles the HelloRequest inside Read
					io.WriteString(srv.Stdin, "R\n")
					got := make(chan error, 1)
					marker := fmt.Sprintf("after-renegotiation-%d\n", round)
					go func() {
						buf := make([]byte, 256)
						var acc []byte
						for !bytes.Contains(acc, []byte(marker)) {
							n, err := u.Read(buf)
							acc = append(acc, buf[:n]...)
							if err != nil {
								got <- err
								return
							}
						}
						got <- nil
					}()
					// the renegotiation is over when the client's flight has grown and then stayed the
					// same for a while (a loaded machine only makes this take longer)
					c0, _ := rc.Snapshot()
					grown, stable, last := false, 0, len(c0)
					for w := 0; w < 400 && stable < 12; w++ {
						time.Sleep(15 * time.Millisecond)
						c1, _ := rc.Snapshot()
						if len(c1) > len(c0)+200 {
							grown = true
						}
						if len(c1) == last && grown {
							stable++
						} else {
							stable = 0
						}
						last = len(c1)
					}
					io.WriteString(srv.Stdin, marker)
					select {
					case err := <-got:
						if err != nil {
							r.Count("openssl_renegotiation_failed", 1)
							r.Note(fmt.Sprintf("%s vs OpenSSL %s: renegotiation %d: %v", j.tg.Name, j.cipher, round, err))
							return
						}
					case <-time.After(20 * time.Second):
						r.Count("openssl_renegotiation_timeout", 1)
						return
					}
					if !check(fmt.Sprintf("after renegotiation %d", round)) {
						return
					}
					renegOK++
					r.Case(fmt.Sprintf("reneg|%s|%04x|%d", family(j.tg.Name), j.suite, round), true)
				}
			}()
		}
		peer.OpenSSLCleanup()
		r.Count("keystream_checked_after_renegotiation", int64(renegOK))
		r.Floor("keystream_checked_after_renegotiation", 6)
	} else {
		r.Note("no openssl binary: the after-renegotiation keystream checks did not run")
	}
	r.Floor("non_aead_refused", 5)
}

func oneWayRW(w io.Writer, rd io.Reader, n int) error {
	msg := make([]byte, n)
	for i := range msg {
		msg[i] = byte(i * 7)
	}
	errc := make(chan error, 1)
	go func() { _, e := w.Write(msg); errc <- e }()
	got := make([]byte, n)
	if _, err := io.ReadFull(rd, got); err != nil {
		return err
	}
	if err := <-errc; err != nil {
		return err
	}
	if !bytes.Equal(got, msg) {
		return fmt.Errorf("data corrupted")
	}
	return nil
}
