package props

import (
	"crypto/x509"
	"fmt"
	"io"
	"math/rand"
	"net"
	"reflect"
	"sync"

	tls "github.com/refraction-networking/utls"
	"verifharness/peer"
	"verifharness/wire"
)

// Target is one client fingerprint to drive handshakes with.
type Target struct {
	Name string
	ID   tls.ClientHelloID
	// Spec, if non-nil, is applied with HelloCustom (a fresh spec per call).
	Spec func() (*tls.ClientHelloSpec, error)
	// Pre, if non-nil, runs first (calls that must precede the preset, e.g. RemoveSNIExtension).
	Pre func(u *tls.UConn) error
	// Edit, if non-nil, runs after BuildHandshakeState (documented edits).
	Edit func(u *tls.UConn) error
	// InspectFirst: call BuildHandshakeStateWithoutSession before the handshake (the
	// documented way to look at the hello before a session is attached).
	InspectFirst bool
	// Style: how the caller drives the connection before Handshake (all documented-legal):
	// 0 plain Handshake; 1 BuildHandshakeState first; 2 BuildHandshakeStateWithoutSession
	// first; 3 BuildHandshakeState twice; 4 (custom specs only) ApplyPreset applied twice
	// with two fresh specs.  Ignored for HelloGolang.
	Style int
}

const (
	StylePlain = iota
	StyleBuildFirst
	StyleInspectFirst
	StyleBuildTwice
	StyleReapplyPreset
	NumStyles
)

// WithStyle returns a copy of the target driven in the given style.
func (t Target) WithStyle(s int) Target {
	if t.ID.Client == tls.HelloGolang.Client && t.Spec == nil {
		return t
	}
	t.Style = s % NumStyles
	if t.Style == StyleReapplyPreset && t.Spec == nil {
		t.Style = StyleBuildFirst
	}
	return t
}

func StyleName(s int) string {
	return []string{"plain", "build-first", "inspect-first", "build-twice", "reapply-preset"}[s%NumStyles]
}

func (t Target) Prepare() func(u *tls.UConn) error {
	return func(u *tls.UConn) error {
		if t.Pre != nil {
			if err := t.Pre(u); err != nil {
				return err
			}
		}
		if t.Spec != nil {
			s, err := t.Spec()
			if err != nil {
				return err
			}
			if err := u.ApplyPreset(s); err != nil {
				return err
			}
			if t.Style == StyleReapplyPreset {
				s2, err := t.Spec()
				if err != nil {
					return err
				}
				if err := u.ApplyPreset(s2); err != nil {
					return err
				}
			}
		}
		switch t.Style {
		case StyleBuildFirst:
			if err := u.BuildHandshakeState(); err != nil {
				return err
			}
		case StyleInspectFirst:
			if err := u.BuildHandshakeStateWithoutSession(); err != nil {
				return err
			}
		case StyleBuildTwice:
			if err := u.BuildHandshakeState(); err != nil {
				return err
			}
			if err := u.BuildHandshakeState(); err != nil {
				return err
			}
		}
		if t.InspectFirst {
			if err := u.BuildHandshakeStateWithoutSession(); err != nil {
				return err
			}
			_ = u.HandshakeState.Hello.Raw
		}
		if t.Edit != nil {
			if err := u.BuildHandshakeState(); err != nil {
				return err
			}
			return t.Edit(u)
		}
		return nil
	}
}

func (t Target) ClientID() tls.ClientHelloID {
	if t.Spec != nil {
		return tls.HelloCustom
	}
	return t.ID
}

// Probe builds the target's ClientHello without a peer and parses it.
func (t Target) Probe(sni string) (*wire.ClientHello, error) {
	cfg := peer.ClientConfig(sni)
	cfg.OmitEmptyPsk = true
	raw, u, err, pn := buildHello(cfg, t.ClientID(), t.Prepare())
	if pn != "" {
		return nil, fmt.Errorf("panic: %s", pn)
	}
	if err != nil {
		return nil, err
	}
	if len(raw) == 0 && u != nil { // HelloGolang: marshal the public view
		raw, err = u.HandshakeState.Hello.Marshal()
		if err != nil {
			return nil, err
		}
	}
	return wire.ParseClientHello(raw)
}

// ParrotTargets returns every predefined parrot plus HelloGolang.
func ParrotTargets(withGolang bool) []Target {
	var out []Target
	for _, p := range AllParrots {
		out = append(out, Target{Name: p.Name, ID: p.ID})
	}
	if withGolang {
		out = append(out, Target{Name: "Golang", ID: tls.HelloGolang})
	}
	return out
}

// RandomizedTarget: a seeded randomized ID.
func RandomizedTarget(i int) Target {
	rg := Sub("target-rand", i)
	var seed tls.PRNGSeed
	rg.Read(seed[:])
	id := []tls.ClientHelloID{tls.HelloRandomized, tls.HelloRandomizedALPN, tls.HelloRandomizedNoALPN}[i%3]
	id.Seed = &seed
	return Target{Name: fmt.Sprintf("randomized-%d", i), ID: id}
}

// FingerprintedTarget: fingerprinted copy of another target's hello.
func FingerprintedTarget(base Target, sni string) (Target, error) {
	ch, err := base.Probe(sni)
	if err != nil {
		return Target{}, err
	}
	rec := recordOf(ch.Raw)
	return Target{Name: "fp:" + base.Name, Spec: func() (*tls.ClientHelloSpec, error) {
		f := &tls.Fingerprinter{}
		return f.FingerprintClientHello(rec)
	}}, nil
}

// CustomTarget: generated spec a real server can negotiate with.
func CustomTarget(i int) Target {
	return Target{Name: fmt.Sprintf("custom-%d", i), Spec: func() (*tls.ClientHelloSpec, error) {
		s, _ := GenSpec(Sub("target-custom", i), GenOpts{ForHandshake: true})
		return s, nil
	}}
}

// ---- what the hello offers (from the wire) ----

type Offer struct {
	Versions []uint16 // advertised, GREASE removed
	Groups   []uint16 // listed
	Shares   []uint16
	Suites12 []uint16 // offered suites a TLS<=1.2 server implements
	Suites13 []uint16
	ALPN     []string
	SigAlgs  map[uint16]bool
}

var serverSuites12 = func() map[uint16][]uint16 {
	m := map[uint16][]uint16{}
	for _, cs := range append(tls.CipherSuites(), tls.InsecureCipherSuites()...) {
		for _, v := range cs.SupportedVersions {
			if v <= tls.VersionTLS12 {
				m[cs.ID] = cs.SupportedVersions
				break
			}
		}
	}
	return m
}()

var serverGroups = map[uint16]bool{0x001d: true, 0x0017: true, 0x0018: true, 0x0019: true, 0x11ec: true}

func OfferOf(ch *wire.ClientHello, specMin uint16) Offer {
	var o Offer
	if len(ch.Versions) > 0 {
		for _, v := range ch.Versions {
			if !wire.IsGREASE(v) {
				o.Versions = append(o.Versions, v)
			}
		}
	} else {
		if specMin == 0 {
			specMin = tls.VersionTLS10
		}
		for v := ch.Version; v >= specMin; v-- {
			o.Versions = append(o.Versions, v)
		}
	}
	for _, g := range ch.Groups {
		if !wire.IsGREASE(g) {
			o.Groups = append(o.Groups, g)
		}
	}
	for _, k := range ch.KeyShares {
		if !wire.IsGREASE(k.Group) {
			o.Shares = append(o.Shares, k.Group)
		}
	}
	for _, s := range ch.Suites {
		if s == 0x1301 || s == 0x1302 || s == 0x1303 {
			o.Suites13 = append(o.Suites13, s)
		} else if _, ok := serverSuites12[s]; ok {
			o.Suites12 = append(o.Suites12, s)
		}
	}
	o.ALPN = ch.ALPN
	o.SigAlgs = map[uint16]bool{}
	for _, s := range ch.SigAlgs {
		o.SigAlgs[s] = true
	}
	return o
}

func has13x(o Offer) bool { return o.Has(tls.VersionTLS13) && len(o.Suites13) > 0 }

func (o Offer) Has(v uint16) bool {
	for _, x := range o.Versions {
		if x == v {
			return true
		}
	}
	return false
}

// GridCase is one server configuration for a target.
type GridCase struct {
	Dim    string
	Val    string
	Server *tls.Config
	Plan   *tls.VerifPlan      // attached to the server conn (may be nil)
	Client func(c *tls.Config) // extra client configuration (may be nil)
	// expectations
	WantVersion uint16 // 0 = don't care
	WantHRR     int    // -1 don't care, 0 no, 1 yes
	WantGroup   uint16
	WantSuite   uint16
}

func suiteNeedsECDSA(id uint16) bool {
	switch id {
	case tls.TLS_ECDHE_ECDSA_WITH_AES_128_CBC_SHA, tls.TLS_ECDHE_ECDSA_WITH_AES_256_CBC_SHA, tls.TLS_ECDHE_ECDSA_WITH_AES_128_CBC_SHA256,
		tls.TLS_ECDHE_ECDSA_WITH_AES_128_GCM_SHA256, tls.TLS_ECDHE_ECDSA_WITH_AES_256_GCM_SHA384, tls.TLS_ECDHE_ECDSA_WITH_CHACHA20_POLY1305_SHA256, tls.TLS_ECDHE_ECDSA_WITH_RC4_128_SHA:
		return true
	}
	return false
}

// GridFor enumerates server configurations along one dimension at a time.
func GridFor(o Offer, full bool, rg *rand.Rand) []GridCase {
	var out []GridCase
	base := func() *tls.Config { return peer.ServerConfig() }
	// versions
	for _, v := range o.Versions {
		if v < tls.VersionTLS10 || v > tls.VersionTLS13 {
			continue
		}
		if v == tls.VersionTLS13 && len(o.Suites13) == 0 || v < tls.VersionTLS13 && len(o.Suites12) == 0 {
			continue
		}
		c := base()
		c.MaxVersion = v
		out = append(out, GridCase{Dim: "version", Val: fmt.Sprintf("%04x", v), Server: c, WantVersion: v, WantHRR: -1})
	}
	has13 := o.Has(tls.VersionTLS13) && len(o.Suites13) > 0
	has12 := o.Has(tls.VersionTLS12) && len(o.Suites12) > 0
	// groups
	for _, g := range o.Groups {
		if g == 0x6399 && has13x(o) {
			// X25519Kyber768Draft00: server side through hook H7, only when a share was sent
			for _, s := range o.Shares {
				if s == g {
					out = append(out, GridCase{Dim: "group13", Val: "6399", Server: base(), Plan: &tls.VerifPlan{ForceGroup: tls.X25519Kyber768Draft00}, WantVersion: tls.VersionTLS13, WantHRR: 0, WantGroup: g})
				}
			}
			continue
		}
		if !serverGroups[g] {
			continue
		}
		if has13 {
			c := base()
			c.CurvePreferences = []tls.CurveID{tls.CurveID(g)}
			hrr := 1
			for _, s := range o.Shares {
				if s == g {
					hrr = 0
				}
			}
			gc := GridCase{Dim: "group13", Val: fmt.Sprintf("%04x", g), Server: c, WantVersion: tls.VersionTLS13, WantHRR: hrr, WantGroup: g}
			if g == 0x11ec && hrr == 1 {
				// the hello lists the hybrid group but sends no share for it: a server that only
				// enables that group answers with a HelloRetryRequest, and the client cannot
				// produce a hybrid share then (known finding F44)
				gc.Val += "-via-hrr"
			}
			out = append(out, gc)
		}
		if has12 && g != 0x11ec && (full || !has13) {
			c := base()
			c.MaxVersion = tls.VersionTLS12
			c.CurvePreferences = []tls.CurveID{tls.CurveID(g)}
			out = append(out, GridCase{Dim: "group12", Val: fmt.Sprintf("%04x", g), Server: c, WantVersion: tls.VersionTLS12, WantHRR: -1})
		}
	}
	// TLS 1.3 suites (really used through the server hook)
	if has13 {
		for _, s := range o.Suites13 {
			c := base()
			out = append(out, GridCase{Dim: "suite13", Val: fmt.Sprintf("%04x", s), Server: c, Plan: &tls.VerifPlan{ForceSuite13: s}, WantVersion: tls.VersionTLS13, WantHRR: -1, WantSuite: s})
		}
	}
	// <=1.2 suites
	if len(o.Suites12) > 0 {
		suites := o.Suites12
		if !full && len(suites) > 6 {
			suites = pickSubset(rg, suites, 6, 6)
		}
		for _, s := range suites {
			// highest version <= 1.2 that both the suite and the client support
			var v uint16
			for _, cv := range o.Versions {
				if cv > tls.VersionTLS12 {
					continue
				}
				for _, sv := range serverSuites12[s] {
					if sv == cv && cv > v {
						v = cv
					}
				}
			}
			if v == 0 {
				continue
			}
			c := base()
			c.MaxVersion = v
			c.CipherSuites = []uint16{s}
			out = append(out, GridCase{Dim: "suite12", Val: fmt.Sprintf("%04x", s), Server: c, WantVersion: v, WantHRR: -1, WantSuite: s})
		}
	}
	// ALPN
	if len(o.ALPN) > 0 {
		for _, p := range o.ALPN {
			c := base()
			c.NextProtos = []string{p}
			out = append(out, GridCase{Dim: "alpn", Val: p, Server: c, WantHRR: -1})
			if !full {
				break
			}
		}
		c := base()
		c.NextProtos = []string{"verif-unknown", o.ALPN[len(o.ALPN)-1]}
		out = append(out, GridCase{Dim: "alpn", Val: "pref-unknown-first", Server: c, WantHRR: -1})
	}
	// client authentication
	f := peer.Fix()
	for _, maxv := range []uint16{tls.VersionTLS13, tls.VersionTLS12} {
		if maxv == tls.VersionTLS13 && !has13 || maxv == tls.VersionTLS12 && !has12 {
			continue
		}
		c := base()
		c.MaxVersion = maxv
		c.ClientAuth = tls.RequestClientCert
		out = append(out, GridCase{Dim: "clientauth", Val: fmt.Sprintf("request-%04x", maxv), Server: c, WantHRR: -1})
		c2 := base()
		c2.MaxVersion = maxv
		c2.ClientAuth = tls.RequireAnyClientCert
		out = append(out, GridCase{Dim: "clientauth", Val: fmt.Sprintf("require-%04x", maxv), Server: c2, WantHRR: -1,
			Client: func(cc *tls.Config) { cc.Certificates = []tls.Certificate{f.ECDSA} }})
	}
	// certificate key type
	for _, kind := range []string{"rsa", "ecdsa", "ed25519"} {
		if !certOffered(kind, o) {
			continue // the hello does not offer a signature algorithm this leaf can use
		}
		c := base()
		switch kind {
		case "rsa":
			c.Certificates = []tls.Certificate{f.RSA}
		case "ecdsa":
			c.Certificates = []tls.Certificate{f.ECDSA}
		case "ed25519":
			c.Certificates = []tls.Certificate{f.Ed25519}
		}
		out = append(out, GridCase{Dim: "cert", Val: kind, Server: c, WantHRR: -1})
		if has12 && has13 && full {
			c2 := c.Clone()
			c2.MaxVersion = tls.VersionTLS12
			out = append(out, GridCase{Dim: "cert12", Val: kind, Server: c2, WantVersion: tls.VersionTLS12, WantHRR: -1})
		}
	}
	// a server that has ECH keys of its own (and offers them as retry configs): a client that
	// does not use ECH, or only sends a GREASE ECH extension, is served as ever
	if has13 {
		for _, retry := range []bool{true, false} {
			c := base()
			c.EncryptedClientHelloKeys = peer.ECHServerKeys(retry, gridECHKey())
			out = append(out, GridCase{Dim: "server-ech-keys", Val: fmt.Sprintf("retry=%v", retry), Server: c, WantHRR: -1})
		}
		c := base()
		c.EncryptedClientHelloKeys = peer.ECHServerKeys(true, gridECHKey())
		if g := firstUnsharedGroup(o); g != 0 {
			c.CurvePreferences = []tls.CurveID{tls.CurveID(g)}
			out = append(out, GridCase{Dim: "server-ech-keys", Val: "retry=true+hrr", Server: c, WantHRR: 1, WantVersion: tls.VersionTLS13})
		}
	}
	return out
}

var gridECHKey = sync.OnceValue(func() *peer.ECHKey { return peer.NewECHKey(3, "public.example.test", []uint16{1, 3}, 32) })

// firstUnsharedGroup: a classical group the offer lists without a share (0: none).
func firstUnsharedGroup(o Offer) uint16 {
	for _, g := range []uint16{0x0018, 0x0017, 0x0019, 0x001d} {
		listed, shared := false, false
		for _, x := range o.Groups {
			if x == g {
				listed = true
			}
		}
		for _, x := range o.Shares {
			if x == g {
				shared = true
			}
		}
		if listed && !shared {
			return g
		}
	}
	return 0
}

// RunCase drives one handshake for (target, case).
func RunCase(t Target, gc GridCase, sni string, extra func(cfg *tls.Config), opts peer.Opts) *peer.HS {
	ccfg := peer.ClientConfig(sni)
	ccfg.OmitEmptyPsk = true
	if gc.Client != nil {
		gc.Client(ccfg)
	}
	if extra != nil {
		extra(ccfg)
	}
	flavor := ""
	if extra == nil && gc.Client == nil && !NoAutoStyle {
		// client Config knobs that must not change the outcome of a handshake, varied
		// deterministically with the case identity
		switch fnv32("flavor|"+t.Name+"|"+gc.Dim+"|"+gc.Val+"|"+sni) % 8 {
		case 1:
			ccfg.SessionTicketsDisabled = true
			flavor = "SessionTicketsDisabled"
		case 2:
			ccfg.NextProtos = []string{"h2", "http/1.1"}
			flavor = "NextProtos"
		case 3:
			ccfg.DynamicRecordSizingDisabled = true
			flavor = "DynamicRecordSizingDisabled"
		case 4:
			ccfg.KeyLogWriter = io.Discard
			flavor = "KeyLogWriter"
		case 5:
			ccfg.VerifyConnection = func(tls.ConnectionState) error { return nil }
			ccfg.VerifyPeerCertificate = func([][]byte, [][]*x509.Certificate) error { return nil }
			flavor = "VerifyCallbacks"
		case 6:
			ccfg.ClientSessionCache = tls.NewLRUClientSessionCache(2)
			ccfg.PreferSkipResumptionOnNilExtension = true
			flavor = "EmptySessionCache"
		case 7:
			ccfg.Rand = peer.ChunkedRand{N: 1 + int(fnv32(t.Name+gc.Val)%5)}
			flavor = "Config.Rand with short reads"
		}
	}
	// Unless the caller fixed how the connection is driven, vary it deterministically with
	// the case identity: every style is documented-legal, so each property must hold for all.
	if t.Style == StylePlain && t.Edit == nil && !t.InspectFirst && !NoAutoStyle {
		h := fnv32(t.Name + "|" + gc.Dim + "|" + gc.Val + "|" + sni)
		t = t.WithStyle(int(h % NumStyles))
	}
	opts.Prepare = t.Prepare()
	if gc.Plan != nil {
		plan := gc.Plan
		prev := opts.ServerSetup
		opts.ServerSetup = func(s *tls.Conn, raw net.Conn) {
			tls.VerifAttach(s, plan)
			if prev != nil {
				prev(s, raw)
			}
		}
	}
	h := peer.Run(ccfg, t.ClientID(), gc.Server, opts)
	h.Note = "client driven in style " + StyleName(t.Style)
	if flavor != "" {
		h.Note += ", client Config flavour " + flavor
	}
	return h
}

// NoAutoStyle disables the automatic variation of driving styles (debugging aid).
var NoAutoStyle = false

// serverFirstAlert returns the description of a plaintext alert that is the FIRST record
// the server wrote (i.e. it refused the offer before answering), or -1.
func serverFirstAlert(s2c []byte) int {
	recs, _, _ := wire.SplitRecords(s2c)
	if len(recs) == 0 {
		return -1
	}
	if recs[0].Type == 21 && len(recs[0].Body) == 2 {
		return int(recs[0].Body[1])
	}
	return -1
}

// sawHRR reports whether the server's plaintext flight starts with a HelloRetryRequest.
func sawHRR(s2c []byte) bool {
	msgs, _, _, _ := wire.PlainHandshake(s2c)
	for _, m := range msgs {
		if m.Type == 2 {
			if sh, err := wire.ParseServerHello(m.Raw); err == nil && sh.IsHRR {
				return true
			}
		}
	}
	return false
}

// hrrGroup returns the group a HelloRetryRequest in the server's flight names (0: none).
func hrrGroup(s2c []byte) uint16 {
	msgs, _, _, _ := wire.PlainHandshake(s2c)
	for _, m := range msgs {
		if m.Type == 2 {
			if sh, err := wire.ParseServerHello(m.Raw); err == nil && sh.IsHRR {
				if e := sh.Ext(wire.ExtKeyShare); e != nil && len(e.Data) >= 2 {
					return uint16(e.Data[0])<<8 | uint16(e.Data[1])
				}
			}
		}
	}
	return 0
}

// stateCurve reads the unexported ConnectionState.testingOnlyCurveID (read-only).
func stateCurve(cs tls.ConnectionState) (uint16, bool) {
	v := reflect.ValueOf(cs).FieldByName("testingOnlyCurveID")
	if !v.IsValid() {
		return 0, false
	}
	return uint16(v.Uint()), true
}

func stateDidHRR(cs tls.ConnectionState) (bool, bool) {
	v := reflect.ValueOf(cs).FieldByName("testingOnlyDidHRR")
	if !v.IsValid() {
		return false, false
	}
	return v.Bool(), true
}

// certOffered: does the hello offer a signature algorithm the leaf of this kind can sign
// with at every version the hello advertises?  (Conservative: requires the TLS 1.3
// algorithm when 1.3 is advertised.)
func certOffered(kind string, o Offer) bool {
	any := func(ids ...uint16) bool {
		for _, id := range ids {
			if o.SigAlgs[id] {
				return true
			}
		}
		return false
	}
	if len(o.SigAlgs) == 0 {
		return kind != "ed25519" && !o.Has(tls.VersionTLS13)
	}
	switch kind {
	case "ed25519":
		return any(0x0807)
	case "ecdsa":
		return any(0x0403)
	case "rsa":
		if o.Has(tls.VersionTLS13) {
			return any(0x0804, 0x0805, 0x0806)
		}
		return any(0x0401, 0x0501, 0x0601, 0x0201, 0x0804, 0x0805, 0x0806)
	}
	return false
}

// targetMinVersion is the spec's minimum version (what the client accepts when the hello
// carries no supported_versions extension).
func targetMinVersion(tg Target) uint16 {
	if tg.Spec != nil {
		if s, err := tg.Spec(); err == nil && s.TLSVersMin != 0 {
			return s.TLSVersMin
		}
		return tls.VersionTLS10
	}
	if s, err := tls.UTLSIdToSpec(tg.ID); err == nil && s.TLSVersMin != 0 {
		return s.TLSVersMin
	}
	if tg.ID.Client == tls.HelloGolang.Client {
		return tls.VersionTLS12 // crypto/tls client default
	}
	return tls.VersionTLS10
}

// SharedSpecTarget: the base target's spec built ONCE and that one object handed to every
// connection (fingerprint once / keep the spec in a variable, dial many times).  Connections
// of such a target must be made one after the other: ApplyPreset writes into the spec.
func SharedSpecTarget(base Target) Target {
	var once sync.Once
	var shared *tls.ClientHelloSpec
	var serr error
	t := base
	t.Name = "shared:" + base.Name
	t.Spec = func() (*tls.ClientHelloSpec, error) {
		once.Do(func() {
			if base.Spec != nil {
				shared, serr = base.Spec()
				return
			}
			sp, err := tls.UTLSIdToSpec(base.ID)
			shared, serr = &sp, err
		})
		return shared, serr
	}
	return t
}

// SharedSpecTargets: a fixed selection of parrots, fingerprinted copies and custom specs.
func SharedSpecTargets() []Target {
	var out []Target
	for _, pn := range []string{"Chrome_133", "Chrome_120", "Chrome_102", "Firefox_120", "Firefox_105", "Safari_16_0", "IOS_14", "Edge_106", "Chrome_115_PQ"} {
		p := ParrotByName(pn)
		out = append(out, SharedSpecTarget(Target{Name: p.Name, ID: p.ID}))
		if ft, err := FingerprintedTarget(Target{Name: p.Name, ID: p.ID}, "example.test"); err == nil && len(out)%2 == 0 {
			out = append(out, SharedSpecTarget(ft))
		}
	}
	for i := 0; i < 6; i++ {
		out = append(out, SharedSpecTarget(CustomTarget(i)))
	}
	// a spec whose server_name extension already names the host
	for _, pn := range []string{"Chrome_120", "Firefox_105"} {
		p := ParrotByName(pn)
		out = append(out, SharedSpecTarget(Target{Name: p.Name + "+named-sni", Spec: func() (*tls.ClientHelloSpec, error) {
			sp, err := tls.UTLSIdToSpec(p.ID)
			if err != nil {
				return nil, err
			}
			for _, e := range sp.Extensions {
				if sn, ok := e.(*tls.SNIExtension); ok {
					sn.ServerName = "example.test"
				}
			}
			return &sp, nil
		}}))
	}
	return out
}

// NoShareTargets: TLS 1.3 specs that deliberately send no usable key share - an empty
// client_shares vector, or only the GREASE share - to let the server pick the group with a
// HelloRetryRequest (RFC 8446, Section 4.2.8 allows both).
func NoShareTargets() []Target {
	var out []Target
	for _, variant := range []string{"empty-client-shares", "grease-only-share"} {
		for _, pn := range []string{"Chrome_120", "Firefox_120", "Chrome_102"} {
			variant, p := variant, ParrotByName(pn)
			out = append(out, Target{Name: p.Name + "+" + variant, Spec: func() (*tls.ClientHelloSpec, error) {
				sp, err := tls.UTLSIdToSpec(p.ID)
				if err != nil {
					return nil, err
				}
				for i, e := range sp.Extensions {
					if _, ok := e.(*tls.KeyShareExtension); ok {
						if variant == "empty-client-shares" {
							sp.Extensions[i] = &tls.KeyShareExtension{}
						} else {
							sp.Extensions[i] = &tls.KeyShareExtension{KeyShares: []tls.KeyShare{{Group: tls.GREASE_PLACEHOLDER, Data: []byte{0}}}}
						}
					}
				}
				return &sp, nil
			}})
		}
	}
	return out
}

// HybridListedOnlyTargets: specs that list X25519MLKEM768 in supported_groups but send
// shares for classical groups only.
func HybridListedOnlyTargets() []Target {
	var out []Target
	for _, pn := range []string{"Chrome_120", "Firefox_120"} {
		p := ParrotByName(pn)
		out = append(out, Target{Name: p.Name + "+hybrid-listed-not-shared", Spec: func() (*tls.ClientHelloSpec, error) {
			sp, err := tls.UTLSIdToSpec(p.ID)
			if err != nil {
				return nil, err
			}
			for i, e := range sp.Extensions {
				switch e.(type) {
				case *tls.SupportedCurvesExtension:
					sp.Extensions[i] = &tls.SupportedCurvesExtension{Curves: []tls.CurveID{tls.X25519MLKEM768, tls.X25519, tls.CurveP256, tls.CurveP384}}
				case *tls.KeyShareExtension:
					sp.Extensions[i] = &tls.KeyShareExtension{KeyShares: []tls.KeyShare{{Group: tls.X25519}}}
				}
			}
			return &sp, nil
		}})
	}
	return out
}
