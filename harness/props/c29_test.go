package props

import (
	"fmt"
	"io"
	"net"
	"os"
	"path/filepath"
	"sort"
	"strings"
	"sync"
	"testing"
	"time"

	tls "github.com/refraction-networking/utls"
	"verifharness/mon"
	"verifharness/peer"
	"verifharness/wire"
)

// recConn records what the server reads from an accepted TCP connection.
type recConn struct {
	net.Conn
	mu  sync.Mutex
	buf []byte
}

func (r *recConn) Read(p []byte) (int, error) {
	n, err := r.Conn.Read(p)
	r.mu.Lock()
	r.buf = append(r.buf, p[:n]...)
	r.mu.Unlock()
	return n, err
}

func (r *recConn) hello() *wire.ClientHello {
	r.mu.Lock()
	b := append([]byte(nil), r.buf...)
	r.mu.Unlock()
	hs := wire.ClientHellos(b)
	if len(hs) == 0 {
		return nil
	}
	ch, err := wire.ParseClientHello(hs[0])
	if err != nil {
		return nil
	}
	return ch
}

func fnv32(s string) uint32 {
	h := uint32(2166136261)
	for i := 0; i < len(s); i++ {
		h = (h ^ uint32(s[i])) * 16777619
	}
	return h
}

// shapeKey: order-insensitive fingerprint key (shuffling parrots change the order).
func shapeKey(ch *wire.ClientHello) string {
	var ex []int
	for _, e := range ch.Exts {
		if e.Type == wire.ExtPadding || e.Type == wire.ExtSNI || e.Type == wire.ExtPreSharedKey {
			continue
		}
		ex = append(ex, int(g16(e.Type)))
	}
	sort.Ints(ex)
	var cs []string
	for _, s := range ch.Suites {
		cs = append(cs, fmt.Sprintf("%04x", g16(s)))
	}
	var gs []string
	for _, g := range ch.Groups {
		gs = append(gs, fmt.Sprintf("%04x", g16(g)))
	}
	return strings.Join(cs, ",") + "|" + fmt.Sprint(ex) + "|" + strings.Join(gs, ",") + "|" + fmt.Sprintf("%04x", ch.SigAlgs)
}

type rollerServer struct {
	ln     net.Listener
	mu     sync.Mutex
	accept map[string]bool // names of accepted IDs
	stall  map[string]bool // names of IDs that are never answered (black-holed)
	byKey  map[string]string
	log    []rollerHello
	wg     sync.WaitGroup
}

type rollerHello struct {
	ID       string
	SNI      string
	Accepted bool
}

func newRollerServer(ids map[string]tls.ClientHelloID) (*rollerServer, error) {
	ln, err := net.Listen("tcp", "127.0.0.1:0")
	if err != nil {
		return nil, err
	}
	rs := &rollerServer{ln: ln, accept: map[string]bool{}, byKey: map[string]string{}}
	for name, id := range ids {
		raw, _, err, _ := buildHello(&tls.Config{ServerName: "example.test"}, id, nil)
		if err != nil {
			return nil, err
		}
		ch, err := wire.ParseClientHello(raw)
		if err != nil {
			return nil, err
		}
		k := shapeKey(ch)
		if prev, dup := rs.byKey[k]; dup {
			return nil, fmt.Errorf("IDs %s and %s are indistinguishable", prev, name)
		}
		rs.byKey[k] = name
	}
	go func() {
		for {
			c, err := ln.Accept()
			if err != nil {
				return
			}
			rs.wg.Add(1)
			go rs.serve(c)
		}
	}()
	return rs, nil
}

func (rs *rollerServer) serve(c net.Conn) {
	defer rs.wg.Done()
	defer c.Close()
	rc := &recConn{Conn: c}
	cfg := peer.ServerConfig()
	cfg.Time = nil // Roller passes a nil Config, so the client uses the real clock
	cfg.GetConfigForClient = func(chi *tls.ClientHelloInfo) (*tls.Config, error) {
		h := rollerHello{ID: "unknown", SNI: chi.ServerName}
		if ch := rc.hello(); ch != nil {
			k := shapeKey(ch)
			if name, ok := rs.byKey[k]; ok {
				h.ID = name
			} else {
				h.ID = fmt.Sprintf("rand:%08x", fnv32(k))
			}
		}
		rs.mu.Lock()
		h.Accepted = rs.accept[h.ID]
		if strings.HasPrefix(h.ID, "rand:") {
			h.Accepted = rs.accept["Randomized"]
		}
		stalled := rs.stall[h.ID]
		rs.log = append(rs.log, h)
		rs.mu.Unlock()
		if stalled {
			// a middlebox that swallows this fingerprint: no answer until the client gives up
			c.SetDeadline(time.Now().Add(30 * time.Second))
			io.Copy(io.Discard, c)
			return nil, fmt.Errorf("verif: fingerprint %s black-holed", h.ID)
		}
		if !h.Accepted {
			return nil, fmt.Errorf("verif: fingerprint %s refused", h.ID)
		}
		return nil, nil
	}
	c.SetDeadline(time.Now().Add(5 * time.Second))
	srv := tls.Server(rc, cfg)
	if srv.Handshake() != nil {
		return
	}
	buf := make([]byte, 256)
	for {
		n, err := srv.Read(buf)
		if n > 0 {
			srv.Write(buf[:n])
		}
		if err != nil {
			return
		}
	}
}

func (rs *rollerServer) setAccept(names []string) {
	rs.mu.Lock()
	rs.accept = map[string]bool{}
	for _, n := range names {
		rs.accept[n] = true
	}
	rs.mu.Unlock()
}

func (rs *rollerServer) takeLog() []rollerHello {
	rs.mu.Lock()
	defer rs.mu.Unlock()
	l := rs.log
	rs.log = nil
	return l
}

// C29 — Roller prefers the last working fingerprint and tries each at most once.
func TestC29(t *testing.T) {
	r := mon.New("C29", "Roller over 2-6 configured parrot IDs against a loopback TLS server (SSL_CERT_FILE = harness CA, because Roller passes a nil Config) that accepts only a PRNG-chosen subset of fingerprints, changed between calls; 3-10 sequential Dial calls per history plus 8 concurrent callers: per call the ordered list of ClientHellos the listener received (classified by an order-insensitive fingerprint key) is checked: first = previously working ID, no configured ID twice, returned connection = first accepted one with SNI = argument, WorkingHelloID updated; refused TCP dial returns the error without any hello; race detector on. distinct = (configured set size, accept set, call outcome sequence)")
	defer r.Finish(t)
	dir := t.TempDir()
	caFile := filepath.Join(dir, "ca.pem")
	os.WriteFile(caFile, peer.Fix().CA.PEM(), 0o644)
	os.Setenv("SSL_CERT_FILE", caFile)
	os.Setenv("SSL_CERT_DIR", filepath.Join(dir, "empty"))
	pool := map[string]tls.ClientHelloID{"Chrome_133": tls.HelloChrome_133, "Firefox_120": tls.HelloFirefox_120, "IOS_14": tls.HelloIOS_14, "Safari_16_0": tls.HelloSafari_16_0,
		"Edge_85": tls.HelloEdge_85, "Chrome_102": tls.HelloChrome_102, "Firefox_105": tls.HelloFirefox_105, "Chrome_58": tls.HelloChrome_58}
	var poolNames []string
	for n := range pool {
		poolNames = append(poolNames, n)
	}
	sort.Strings(poolNames)
	rs, err := newRollerServer(pool)
	if err != nil {
		r.Inconclusive("cannot start the loopback server: " + err.Error())
		return
	}
	defer rs.ln.Close()
	addr := rs.ln.Addr().String()
	nameOf := func(id *tls.ClientHelloID) string {
		if id == nil {
			return ""
		}
		for n, p := range pool {
			if p.Client == id.Client && p.Version == id.Version {
				return n
			}
		}
		return id.Str()
	}
	histories := mon.Pick(120, 4000)
	for i := 0; i < histories; i++ {
		rg := Sub("C29", i)
		roller, err := tls.NewRoller()
		if err != nil {
			r.Inconclusive("NewRoller: " + err.Error())
			return
		}
		k := 2 + rg.Intn(5)
		cfgNames := pickSubset(rg, poolNames, k, k)
		withRand := i%4 == 3
		roller.HelloIDs = nil
		for _, n := range cfgNames {
			roller.HelloIDs = append(roller.HelloIDs, pool[n])
		}
		if withRand {
			cfgNames = append(cfgNames, "Randomized")
			roller.HelloIDs = append(roller.HelloIDs, tls.HelloRandomized)
		}
		working := "" // fingerprint the server saw on the last successful Dial
		roller.TcpDialTimeout = 3 * time.Second
		roller.TlsHandshakeTimeout = 3 * time.Second
		calls := 3 + rg.Intn(8)
		var outcome []string
		for c := 0; c < calls; c++ {
			accept := pickSubset(rg, cfgNames, 0, len(cfgNames))
			if rg.Intn(6) == 0 {
				accept = nil
			}
			rs.setAccept(accept)
			rs.takeLog()
			prevWorking := working
			if !withRand && prevWorking != nameOf(roller.WorkingHelloID) {
				prevWorking = nameOf(roller.WorkingHelloID)
			}
			sni := []string{"example.test", "a.test", "verif.test"}[rg.Intn(3)]
			conn, derr := roller.Dial("tcp", addr, sni)
			if conn != nil {
				// make sure the server side finished logging; one echo round trip
				conn.SetDeadline(time.Now().Add(3 * time.Second))
				conn.Write([]byte("ping"))
				b := make([]byte, 4)
				conn.Read(b)
				conn.Close()
			}
			time.Sleep(2 * time.Millisecond)
			log := rs.takeLog()
			var seq []string
			for _, h := range log {
				seq = append(seq, h.ID)
			}
			sig := map[string]string{}
			rep := map[string]any{"case": i, "call": c, "configured": cfgNames, "accepted_by_server": accept, "previously_working": prevWorking, "hellos_received": seq, "dial_error": fmt.Sprint(derr)}
			viol := func(kind, what string) {
				s := map[string]string{"kind": kind}
				for kk, v := range sig {
					s[kk] = v
				}
				r.Violation(s, fmt.Sprintf("configured %v, server accepts %v, previously working %q, hellos received %v: %s", cfgNames, accept, prevWorking, seq, what), rep)
			}
			if len(seq) == 0 {
				viol("no_hello_received", "Dial sent no ClientHello")
				continue
			}
			if prevWorking != "" && seq[0] != prevWorking {
				viol("working_id_not_tried_first", fmt.Sprintf("the call did not start with the previously working ID (%s first)", seq[0]))
			}
			seen := map[string]int{}
			for _, id := range seq {
				seen[id]++
				if seen[id] > 1 {
					viol("id_tried_twice", fmt.Sprintf("fingerprint %s was tried %d times in one call", id, seen[id]))
				}
				if id == "unknown" || (strings.HasPrefix(id, "rand:") && !withRand) {
					viol("unconfigured_fingerprint", "a ClientHello that matches no configured ID was sent")
				}
			}
			firstAccepted := ""
			for _, h := range log {
				if h.Accepted {
					firstAccepted = h.ID
					break
				}
			}
			for _, h := range log {
				if h.SNI != sni {
					viol("sni_differs", fmt.Sprintf("hello %s carried SNI %q, Dial was called with %q", h.ID, h.SNI, sni))
				}
			}
			anyAccepted := false
			for _, n := range accept {
				for _, cn := range cfgNames {
					if cn == n {
						anyAccepted = true
					}
				}
			}
			switch {
			case conn != nil:
				got := nameOf(&conn.ClientHelloID)
				if conn.ClientHelloID.Client == tls.HelloRandomized.Client && strings.HasPrefix(log[len(log)-1].ID, "rand:") {
					got = log[len(log)-1].ID
				}
				working = got
				if got != firstAccepted {
					viol("returned_connection_not_first_accepted", fmt.Sprintf("returned connection uses %s, the first accepted handshake was %s", got, firstAccepted))
				}
				if log[len(log)-1].ID != got || !log[len(log)-1].Accepted {
					viol("tried_further_ids_after_success", "Dial kept trying fingerprints after a handshake succeeded")
				}
				if w := nameOf(roller.WorkingHelloID); w != got && !(strings.HasPrefix(got, "rand:") && roller.WorkingHelloID != nil && roller.WorkingHelloID.Client == tls.HelloRandomized.Client && roller.WorkingHelloID.Seed != nil) {
					viol("working_id_not_recorded", fmt.Sprintf("WorkingHelloID is %q after a successful Dial with %s", w, got))
				}
				outcome = append(outcome, "ok:"+got)
				r.Count("dials_succeeded", 1)
				if strings.HasPrefix(got, "rand:") {
					r.Count("randomized_dials_succeeded", 1)
					if prevWorking == got {
						r.Count("randomized_working_id_replayed", 1)
					}
				}
			case anyAccepted:
				viol("acceptable_fingerprint_not_tried", fmt.Sprintf("Dial failed (%v) although the server accepts a configured fingerprint", derr))
				outcome = append(outcome, "fail!")
			default:
				// every configured ID must have been tried once
				if len(seen) < len(cfgNames) {
					viol("not_all_ids_tried", fmt.Sprintf("Dial gave up after %d of %d configured fingerprints", len(seen), len(cfgNames)))
				}
				outcome = append(outcome, "fail")
				r.Count("dials_failed_all_refused", 1)
			}
		}
		// refused TCP dial
		rs.takeLog()
		_, derr := roller.Dial("tcp", "127.0.0.1:1", "example.test")
		if derr == nil {
			r.Violation(map[string]string{"kind": "tcp_error_not_returned"}, "Dial to a closed port returned no error", nil)
		} else if l := rs.takeLog(); len(l) != 0 {
			r.Violation(map[string]string{"kind": "hello_after_tcp_error"}, "hellos were sent although the TCP dial failed", nil)
		} else {
			r.Count("tcp_errors_returned", 1)
		}
		// concurrent callers
		rs.setAccept(cfgNames[:1+rg.Intn(len(cfgNames))])
		var wg sync.WaitGroup
		var cmu sync.Mutex
		okc := 0
		for g := 0; g < 8; g++ {
			wg.Add(1)
			go func() {
				defer wg.Done()
				conn, err := roller.Dial("tcp", addr, "example.test")
				if err == nil && conn != nil {
					cmu.Lock()
					okc++
					cmu.Unlock()
					conn.Close()
				}
			}()
		}
		wg.Wait()
		r.Count("concurrent_dials_ok", int64(okc))
		rs.takeLog()
		r.Case(fmt.Sprintf("%d|%v", len(cfgNames), outcome), true)
		if i%17 == 0 {
			r.Sample(map[string]any{"configured": cfgNames, "outcomes": outcome})
		}
	}
	// a fingerprint that is swallowed silently (its attempt runs into TlsHandshakeTimeout)
	// followed by one the server accepts: every configured ID still gets its own attempt.
	// Verdicts are taken from what the listener received, not from elapsed time: a failed
	// Dial is a violation only if the accepted fingerprint's hello was never sent.
	for k := 0; k < mon.Pick(3, 24); k++ {
		rg := Sub("C29stall", k)
		names := pickSubset(rg, poolNames, 2, 3)
		roller, err := tls.NewRoller()
		if err != nil {
			break
		}
		roller.HelloIDs = nil
		for _, n := range names {
			roller.HelloIDs = append(roller.HelloIDs, pool[n])
		}
		roller.TcpDialTimeout = 3 * time.Second
		roller.TlsHandshakeTimeout = 1500 * time.Millisecond
		rs.mu.Lock()
		rs.stall = map[string]bool{}
		rs.mu.Unlock()
		rs.setAccept(names[:1])
		rs.takeLog()
		if c0, err := roller.Dial("tcp", addr, "example.test"); err != nil || c0 == nil {
			continue // judged by the histories above
		} else {
			c0.Close()
		}
		x := nameOf(roller.WorkingHelloID)
		var y string
		for _, n := range names {
			if n != x {
				y = n
				break
			}
		}
		rs.mu.Lock()
		rs.stall = map[string]bool{x: true}
		rs.mu.Unlock()
		rs.setAccept([]string{y})
		rs.takeLog()
		conn, derr := roller.Dial("tcp", addr, "example.test")
		if conn != nil {
			conn.SetDeadline(time.Now().Add(3 * time.Second))
			conn.Write([]byte("ping"))
			conn.Read(make([]byte, 4))
			conn.Close()
		}
		time.Sleep(2 * time.Millisecond)
		var seq []string
		sawY := false
		for _, h := range rs.takeLog() {
			seq = append(seq, h.ID)
			sawY = sawY || h.ID == y
		}
		rep := map[string]any{"configured": names, "black_holed": x, "accepted": y, "hellos_received": seq, "dial_error": fmt.Sprint(derr)}
		switch {
		case conn != nil && nameOf(&conn.ClientHelloID) == y:
			r.Count("dials_succeeded_after_a_black_holed_fingerprint", 1)
		case conn != nil:
			r.Violation(map[string]string{"kind": "returned_connection_not_first_accepted", "scenario": "black-holed"}, fmt.Sprintf("configured %v, %s black-holed, %s accepted: the returned connection uses %s", names, x, y, nameOf(&conn.ClientHelloID)), rep)
		case !sawY:
			r.Violation(map[string]string{"kind": "configured_id_not_tried_after_timeout"}, fmt.Sprintf("configured %v: after the attempt with %s ran into the handshake timeout, no ClientHello of %s (accepted by the server) was ever sent; hellos received %v (the Dial error is in the replay record)", names, x, y, seq), rep)
		default:
			r.Inconclusive(fmt.Sprintf("black-holed scenario: the hello of %s was sent but its handshake did not finish within 1.5 s (machine load?): %v", y, derr))
		}
		r.Case(fmt.Sprintf("black-holed|%d|%v", len(names), conn != nil), true)
	}
	rs.mu.Lock()
	rs.stall = map[string]bool{}
	rs.mu.Unlock()
	rs.ln.Close()
	r.Floor("dials_succeeded_after_a_black_holed_fingerprint", 2)
	r.Floor("dials_succeeded", int64(histories))
	r.Floor("dials_failed_all_refused", 10)
	r.Floor("tcp_errors_returned", int64(histories/2))
	r.Floor("concurrent_dials_ok", int64(histories))
	r.Assume("loopback TCP on 127.0.0.1 is available in the sandbox; the client side uses the real clock (nil Config), fixture certificates are valid 2021-2040")
}
