package props

import (
	"fmt"
	"testing"

	tls "github.com/refraction-networking/utls"
	"verifharness/mon"
	"verifharness/wire"
)

// suite classes written down from RFC 8446 / the public suite lists: 1.3, then suites
// that need TLS 1.2 (AEAD / SHA-256 CBC), then older ones.
func suiteClass(id uint16) int {
	switch id {
	case 0x1301, 0x1302, 0x1303:
		return 0
	}
	for _, cs := range append(tls.CipherSuites(), tls.InsecureCipherSuites()...) {
		if cs.ID == id {
			only12 := true
			for _, v := range cs.SupportedVersions {
				if v < tls.VersionTLS12 {
					only12 = false
				}
			}
			if only12 {
				return 1
			}
			return 2
		}
	}
	return 3
}

func isRC4(id uint16) bool {
	return id == tls.TLS_RSA_WITH_RC4_128_SHA || id == tls.TLS_ECDHE_RSA_WITH_RC4_128_SHA || id == tls.TLS_ECDHE_ECDSA_WITH_RC4_128_SHA
}

func isHybridPQ(g uint16) bool { return g == 0x11ec || g == 0x6399 }

// C09 — Randomized fingerprints are seed-reproducible and internally consistent.
func TestC09(t *testing.T) {
	r := mon.New("C09", "PRNG seeds x {default weights, sampled 0/1 corner vectors} x {Randomized, RandomizedALPN, RandomizedNoALPN}: two UTLSIdToSpec calls and two built connections per (seed, weights) give equal normalised fingerprints, also under Configs with version bounds set by the caller and Config objects that already served a parrot connection (compared with a fresh Config holding the same ALPN list); 0/1 weights give absent/present features unless a TLS 1.3 rule forces them; consistency invariants checked on the parsed wire hello. distinct = normalised fingerprints")
	defer r.Finish(t)
	n := mon.Pick(12000, 200000)
	feature := map[string]int{}
	for i := 0; i < n; i++ {
		rg := Sub("C09", i)
		var seed tls.PRNGSeed
		rg.Read(seed[:])
		idBase := []tls.ClientHelloID{tls.HelloRandomized, tls.HelloRandomizedALPN, tls.HelloRandomizedNoALPN}[i%3]
		var w *tls.Weights
		corner := uint32(0)
		if i%2 == 1 {
			ww := tls.DefaultWeights
			corner = rg.Uint32()
			fields := []*float64{&ww.Extensions_Append_ALPN, &ww.TLSVersMax_Set_VersionTLS13, &ww.CipherSuites_Remove_RandomCiphers, &ww.SigAndHashAlgos_Append_ECDSAWithSHA1,
				&ww.SigAndHashAlgos_Append_ECDSAWithP521AndSHA512, &ww.SigAndHashAlgos_Append_PSSWithSHA256, &ww.SigAndHashAlgos_Append_PSSWithSHA384_PSSWithSHA512,
				&ww.CurveIDs_Append_X25519, &ww.CurveIDs_Append_CurveP521, &ww.Extensions_Append_Padding, &ww.Extensions_Append_Status, &ww.Extensions_Append_SCT,
				&ww.Extensions_Append_Reneg, &ww.Extensions_Append_EMS, &ww.FirstKeyShare_Set_CurveP256, &ww.KeyShare_Append_RandomGroups, &ww.Extensions_Append_ALPS}
			for k, f := range fields {
				if corner>>uint(k)&1 == 1 {
					*f = 1
				} else {
					*f = 0
				}
			}
			w = &ww
		}
		mk := func() tls.ClientHelloID {
			id := idBase
			s := seed
			id.Seed = &s
			if w != nil {
				wc := *w
				id.Weights = &wc
			}
			return id
		}
		sig := func(kind string) map[string]string {
			return map[string]string{"kind": kind, "id": idBase.Client, "weights": map[bool]string{true: "corner", false: "default"}[w != nil]}
		}
		rep := map[string]any{"seed": fmt.Sprintf("%x", seed[:]), "corner": corner, "case": i}
		var cfgProtos []string
		build := func(id tls.ClientHelloID, viaSpec bool) (*wire.ClientHello, []byte, error) {
			cfg := &tls.Config{ServerName: "example.test", OmitEmptyPsk: true, NextProtos: cfgProtos}
			var raw []byte
			var err error
			var pn string
			if viaSpec {
				spec, e := tls.UTLSIdToSpec(id)
				if e != nil {
					return nil, nil, e
				}
				raw, _, err, pn = buildHello(cfg, tls.HelloCustom, func(u *tls.UConn) error { return u.ApplyPreset(&spec) })
			} else {
				raw, _, err, pn = buildHello(cfg, id, nil)
			}
			if pn != "" {
				return nil, nil, fmt.Errorf("panic: %s", pn)
			}
			if err != nil {
				return nil, nil, err
			}
			ch, err := wire.ParseClientHello(raw)
			return ch, raw, err
		}
		// the same ClientHelloID value used twice (the seed must not be consumed/mutated)
		idShared := mk()
		c1, raw1, err1 := build(idShared, false)
		c2, _, err2 := build(idShared, false)
		c3, _, err3 := build(mk(), true)
		c4, _, err4 := build(idShared, true)
		if err1 != nil || err2 != nil || err3 != nil || err4 != nil {
			r.Violation(sig("randomized_build_error"), fmt.Sprintf("%v / %v / %v / %v", err1, err2, err3, err4), rep)
			continue
		}
		if *idShared.Seed != seed {
			r.Violation(sig("seed_mutated"), "building a randomized spec modified the caller's PRNGSeed", rep)
		}
		n1 := NormHello(c1, NormOpts{})
		for k, c := range []*wire.ClientHello{c2, c3, c4} {
			if nk := NormHello(c, NormOpts{}); nk != n1 {
				r.Violation(sig("not_seed_reproducible"), fmt.Sprintf("build %d from the same seed/weights differs: %s", k+2, diffNorm(n1, nk)), rep)
				break
			}
		}
		r.Case(n1, true)
		if i < 2 {
			r.Sample(map[string]any{"id": idBase.Client, "seed": fmt.Sprintf("%x", seed[:8]), "fingerprint": n1})
		}
		// a further connection whose caller also configured Config.NextProtos (the ALPN list a
		// randomized spec sends comes from there): the consistency invariants hold for it too,
		// and it is reproducible as well
		hellos := []*wire.ClientHello{c1}
		raws := [][]byte{raw1}
		protoNote := []string{"Config.NextProtos unset"}
		if i%2 == 0 {
			cfgProtos = [][]string{{"h2", "http/1.1"}, {"http/1.1"}, {"h2"}, {"h3", "h2"}}[(i/2)%4]
			c5, raw5, err5 := build(mk(), false)
			c6, _, err6 := build(mk(), false)
			cfgProtos = nil
			if err5 != nil || err6 != nil {
				r.Violation(sig("randomized_build_error"), fmt.Sprintf("with Config.NextProtos: %v / %v", err5, err6), rep)
			} else {
				if n5, n6 := NormHello(c5, NormOpts{}), NormHello(c6, NormOpts{}); n5 != n6 {
					r.Violation(sig("not_seed_reproducible"), "with Config.NextProtos set, two builds from the same seed differ: "+diffNorm(n5, n6), rep)
				}
				hellos = append(hellos, c5)
				raws = append(raws, raw5)
				protoNote = append(protoNote, "Config.NextProtos set")
				feature["with_config_nextprotos"]++
			}
		}
		// the caller's Config beyond NextProtos: version bounds set by the caller, or a Config
		// object that already served another connection (uTLS writes the spec's versions and
		// ALPN list into it).  The fingerprint is a function of (id, seed, weights) and of the
		// ALPN list the Config holds, nothing else.
		if i%4 == 1 || i%4 == 2 {
			var shared *tls.Config
			note := ""
			switch (i / 4) % 6 {
			case 0:
				shared = &tls.Config{ServerName: "example.test", OmitEmptyPsk: true, MaxVersion: tls.VersionTLS12}
				note = "Config.MaxVersion=TLS1.2"
			case 1:
				shared = &tls.Config{ServerName: "example.test", OmitEmptyPsk: true, MinVersion: tls.VersionTLS10, MaxVersion: tls.VersionTLS11}
				note = "Config.Min/MaxVersion=TLS1.0/1.1"
			case 2:
				shared = &tls.Config{ServerName: "example.test", OmitEmptyPsk: true, MinVersion: tls.VersionTLS13}
				note = "Config.MinVersion=TLS1.3"
			default:
				shared = &tls.Config{ServerName: "example.test", OmitEmptyPsk: true}
				first := []tls.ClientHelloID{tls.HelloFirefox_55, tls.HelloChrome_58, tls.HelloIOS_11_1, tls.HelloChrome_120, tls.HelloFirefox_102}[(i/24)%5]
				if _, _, err, pn := buildHello(shared, first, nil); err != nil || pn != "" {
					shared = nil
				}
				note = "Config reused after a " + first.Str() + " connection"
			}
			if shared != nil {
				left := append([]string(nil), shared.NextProtos...)
				rawA, _, errA, pnA := buildHello(shared, mk(), nil)
				cfgProtos = left
				cB, _, errB := build(mk(), false)
				cfgProtos = nil
				if errA != nil || pnA != "" || errB != nil {
					r.Violation(sig("randomized_build_error"), fmt.Sprintf("%s: %v %s / %v", note, errA, pnA, errB), rep)
				} else if cA, perr := wire.ParseClientHello(rawA); perr != nil {
					r.Violation(sig("randomized_build_error"), note+": "+perr.Error(), rep)
				} else {
					if nA, nB := NormHello(cA, NormOpts{}), NormHello(cB, NormOpts{}); nA != nB {
						r.Violation(sig("fingerprint_depends_on_config"), fmt.Sprintf("%s: the hello differs from the one a fresh Config with the same ALPN list (%v) gives for the same id, seed and weights: %s", note, left, diffNorm(nB, nA)), rep)
					}
					hellos = append(hellos, cA)
					raws = append(raws, rawA)
					protoNote = append(protoNote, note)
					feature["with_caller_config_state"]++
				}
			}
		}
		for hi, ch := range hellos {
			raw1 := raws[hi]
			viol := func(kind, what string) {
				rep2 := map[string]any{"seed": fmt.Sprintf("%x", seed[:]), "corner": corner, "case": i, "hello": mon.Hex(raw1), "config": protoNote[hi]}
				r.Violation(sig(kind), what+" ["+protoNote[hi]+"]", rep2)
			}
			tls13 := false
			for _, v := range ch.Versions {
				if v == tls.VersionTLS13 {
					tls13 = true
				}
			}
			// suite order
			last := 0
			for _, s := range ch.Suites {
				c := suiteClass(s)
				if c < last {
					viol("suite_order", fmt.Sprintf("suite %#04x (class %d) after a class-%d suite: %04x", s, c, last, ch.Suites))
					break
				}
				last = c
				if tls13 && isRC4(s) {
					viol("rc4_in_tls13_spec", fmt.Sprintf("RC4 suite %#04x in a TLS 1.3 spec", s))
				}
			}
			hasALPN, hasALPS := ch.Has(wire.ExtALPN), ch.Has(wire.ExtALPSOld) || ch.Has(wire.ExtALPSNew)
			if hasALPS && !hasALPN {
				viol("alps_without_alpn", "application_settings without ALPN")
			}
			if idBase.Client == tls.HelloRandomizedALPN.Client && !hasALPN {
				viol("alpn_variant_without_alpn", "RandomizedALPN without an ALPN extension")
			}
			if idBase.Client == tls.HelloRandomizedNoALPN.Client && hasALPN {
				viol("noalpn_variant_with_alpn", "RandomizedNoALPN with an ALPN extension")
			}
			if tls13 {
				feature["tls13"]++
				hasPSS := false
				for _, s := range ch.SigAlgs {
					if s == uint16(tls.PSSWithSHA256) {
						hasPSS = true
					}
				}
				if !hasPSS {
					viol("tls13_without_rsa_pss", fmt.Sprintf("TLS 1.3 spec without rsa_pss_rsae_sha256: %04x", ch.SigAlgs))
				}
				// padding is in the spec (it may be absent on the wire only when the policy says so)
				if msg := boringPaddingProblem(ch); msg != "" {
					viol("tls13_padding", "TLS 1.3 spec: "+msg)
				}
				// supported_versions == [max..min] contiguous, descending, starting at 1.3
				ok := len(ch.Versions) >= 1 && ch.Versions[0] == tls.VersionTLS13
				for k := 1; k < len(ch.Versions); k++ {
					if ch.Versions[k] != ch.Versions[k-1]-1 {
						ok = false
					}
				}
				if !ok {
					viol("supported_versions_range", fmt.Sprintf("supported_versions %04x is not [max..min]", ch.Versions))
				}
				if !ch.Has(wire.ExtKeyShare) {
					viol("tls13_without_key_share", "TLS 1.3 spec without key_share")
				}
			} else {
				if ch.Has(wire.ExtSupportedVersions) || ch.Has(wire.ExtKeyShare) || hasALPS {
					viol("tls12_spec_with_tls13_extensions", "TLS 1.2 spec carries supported_versions / key_share / ALPS")
				}
			}
			listed := map[uint16]bool{}
			for _, g := range ch.Groups {
				listed[g] = true
			}
			shared := map[uint16]bool{}
			for _, ks := range ch.KeyShares {
				shared[ks.Group] = true
				if !listed[ks.Group] {
					viol("key_share_group_not_listed", fmt.Sprintf("key_share for group %#04x which supported_groups %04x does not list", ks.Group, ch.Groups))
				}
				if want := KeyShareSize(ks.Group); want > 0 && len(ks.Key) != want {
					viol("key_share_size", fmt.Sprintf("group %#04x share has %d bytes", ks.Group, len(ks.Key)))
				}
			}
			for _, g := range ch.Groups {
				if isHybridPQ(g) {
					feature["pq_listed"]++
					if !shared[g] {
						viol("hybrid_group_without_share", fmt.Sprintf("hybrid group %#04x is listed in supported_groups %04x but has no key share (shares: %d)", g, ch.Groups, len(ch.KeyShares)))
					}
				}
			}
			// weight corners
			if w != nil {
				bit := func(k uint) bool { return corner>>k&1 == 1 }
				expect := func(name string, present, want bool, forced bool) {
					if forced {
						return
					}
					if present != want {
						viol("weight_corner_ignored", fmt.Sprintf("weight %s=%v but feature present=%v", name, map[bool]int{true: 1, false: 0}[want], present))
					}
				}
				if idBase.Client == tls.HelloRandomized.Client {
					expect("Extensions_Append_ALPN", hasALPN, bit(0), false)
				}
				expect("TLSVersMax_Set_VersionTLS13", tls13, bit(1), false)
				expect("Extensions_Append_Status", ch.Has(wire.ExtStatusRequest), bit(10), false)
				expect("Extensions_Append_SCT", ch.Has(wire.ExtSCT), bit(11), false)
				expect("Extensions_Append_Reneg", ch.Has(wire.ExtRenegotiationInfo), bit(12), false)
				expect("Extensions_Append_EMS", ch.Has(wire.ExtEMS), bit(13), false)
				hasSig := func(s tls.SignatureScheme) bool {
					for _, x := range ch.SigAlgs {
						if x == uint16(s) {
							return true
						}
					}
					return false
				}
				expect("SigAndHashAlgos_Append_ECDSAWithSHA1", hasSig(tls.ECDSAWithSHA1), bit(3), false)
				expect("SigAndHashAlgos_Append_ECDSAWithP521AndSHA512", hasSig(tls.ECDSAWithP521AndSHA512), bit(4), false)
				expect("SigAndHashAlgos_Append_PSSWithSHA256", hasSig(tls.PSSWithSHA256), bit(5), tls13)
				expect("CurveIDs_Append_CurveP521", listed[uint16(tls.CurveP521)], bit(8), false)
				expect("CurveIDs_Append_X25519", listed[uint16(tls.X25519)], bit(7), tls13)
				if tls13 && hasALPN {
					expect("Extensions_Append_ALPS", hasALPS, bit(16), false)
				}
				if !tls13 {
					// padding weight is only decisive when the policy would pad; check spec-level presence via policy
					if !bit(9) && ch.Has(wire.ExtPadding) {
						viol("weight_corner_ignored", "weight Extensions_Append_Padding=0 but a padding extension is present")
					}
				}
				feature["corner"]++
			}
		}
	}
	r.Count("hellos_with_config_nextprotos", int64(feature["with_config_nextprotos"]))
	r.Count("tls13_specs", int64(feature["tls13"]))
	r.Count("pq_group_listed", int64(feature["pq_listed"]))
	r.Count("corner_weight_cases", int64(feature["corner"]))
	r.Floor("tls13_specs", 200)
	r.Floor("corner_weight_cases", 500)
}
