package props

import (
	"encoding/json"
	"fmt"
	"go/ast"
	"go/parser"
	"go/token"
	"os"
	"path/filepath"
	"sort"
	"strings"
	"testing"

	tls "github.com/refraction-networking/utls"
	"github.com/refraction-networking/utls/dicttls"
	"verifharness/mon"
	"verifharness/wire"
)

func repoDir() string {
	if d := os.Getenv("VERIF_REPO"); d != "" {
		return d
	}
	return "/repo"
}

func checkDict[K comparable](r *mon.Run, table string, vi map[K]string, ni map[string]K, covered map[string]bool) {
	covered[table] = true
	for v, name := range vi {
		back, ok := ni[name]
		r.Case(fmt.Sprintf("%s|%v", table, v), true)
		if !ok || back != v {
			r.Violation(map[string]string{"kind": "dict_no_reverse", "table": table, "value": fmt.Sprint(v), "name": name},
				fmt.Sprintf("dicttls.%sValueIndexed[%v]=%q but %sNameIndexed[%q]=(%v, present=%v)", table, v, name, table, name, back, ok),
				map[string]any{"table": table, "value": fmt.Sprint(v), "name": name})
		}
	}
	r.Count("dict_entries", int64(len(vi)))
}

// renderJSON renders a parsed ClientHello in the documented JSON spec format, mapping
// values to names through the value-indexed dictionaries.  ok=false: some component
// has no dictionary name / no JSON form (counted as "not representable").
func renderJSON(ch *wire.ClientHello) (doc []byte, ok bool, why string) {
	type obj = map[string]any
	var suites []string
	for _, s := range ch.Suites {
		if wire.IsGREASE(s) {
			suites = append(suites, "GREASE")
			continue
		}
		n, found := dicttls.DictCipherSuiteValueIndexed[s]
		if !found {
			return nil, false, fmt.Sprintf("suite %#04x has no name", s)
		}
		suites = append(suites, n)
	}
	var comps []string
	for _, c := range ch.Compression {
		n, found := dicttls.DictCompMethValueIndexed[c]
		if !found {
			return nil, false, "compression method without name"
		}
		comps = append(comps, n)
	}
	names := func(vals []uint16, dict map[uint16]string, what string) ([]string, bool) {
		var out []string
		for _, v := range vals {
			if wire.IsGREASE(v) {
				out = append(out, "GREASE")
				continue
			}
			n, found := dict[v]
			if !found {
				why = fmt.Sprintf("%s %#04x has no name", what, v)
				return nil, false
			}
			out = append(out, n)
		}
		return out, true
	}
	var exts []obj
	for _, e := range ch.Exts {
		if wire.IsGREASE(e.Type) {
			exts = append(exts, obj{"name": "GREASE"})
			continue
		}
		name, found := dicttls.DictExtTypeValueIndexed[e.Type]
		if !found {
			return nil, false, fmt.Sprintf("extension %d has no name", e.Type)
		}
		o := obj{"name": name}
		switch e.Type {
		case wire.ExtSupportedGroups:
			l, k := names(ch.Groups, dicttls.DictSupportedGroupsValueIndexed, "group")
			if !k {
				return nil, false, why
			}
			o["named_group_list"] = l
		case wire.ExtECPointFormats:
			var l []string
			for _, p := range ch.PointFormats {
				n, f := dicttls.DictECPointFormatValueIndexed[p]
				if !f {
					return nil, false, "point format without name"
				}
				l = append(l, n)
			}
			o["ec_point_format_list"] = l
		case wire.ExtSigAlgs:
			l, k := names(ch.SigAlgs, dicttls.DictSignatureSchemeValueIndexed, "signature scheme")
			if !k {
				return nil, false, why
			}
			o["supported_signature_algorithms"] = l
		case wire.ExtSigAlgsCert:
			l, k := names(ch.SigAlgsCert, dicttls.DictSignatureSchemeValueIndexed, "signature scheme")
			if !k {
				return nil, false, why
			}
			o["supported_signature_algorithms"] = l
		case wire.ExtDelegatedCreds:
			v, _ := u16listOf(e.Data)
			l, k := names(v, dicttls.DictSignatureSchemeValueIndexed, "signature scheme")
			if !k {
				return nil, false, why
			}
			o["supported_signature_algorithms"] = l
		case wire.ExtALPN:
			o["protocol_name_list"] = ch.ALPN
		case wire.ExtALPSOld:
			o["supported_protocols"] = ch.ALPSOld
		case wire.ExtALPSNew:
			o["supported_protocols"] = ch.ALPSNew
		case wire.ExtPadding:
			o["len"] = len(e.Data)
			if len(e.Data) == 0 {
				return nil, false, "empty padding extension cannot be expressed (len 0 means policy)"
			}
		case wire.ExtCompressCert:
			l, k := names(ch.CertCompAlgs, dicttls.DictCertificateCompressionAlgorithmValueIndexed, "cert compression algorithm")
			if !k {
				return nil, false, why
			}
			o["algorithms"] = l
		case wire.ExtKeyShare:
			var shares []obj
			for _, ks := range ch.KeyShares {
				if wire.IsGREASE(ks.Group) {
					shares = append(shares, obj{"group": "GREASE", "key_exchange": []int{0}})
					continue
				}
				n, f := dicttls.DictSupportedGroupsValueIndexed[ks.Group]
				if !f {
					return nil, false, fmt.Sprintf("group %#04x has no name", ks.Group)
				}
				shares = append(shares, obj{"group": n})
			}
			o["client_shares"] = shares
		case wire.ExtPSKModes:
			var l []string
			for _, p := range ch.PSKModes {
				n, f := dicttls.DictPSKKeyExchangeModeValueIndexed[p]
				if !f {
					return nil, false, "psk mode without name"
				}
				l = append(l, n)
			}
			o["ke_modes"] = l
		case wire.ExtSupportedVersions:
			var l []string
			for _, v := range ch.Versions {
				switch {
				case wire.IsGREASE(v):
					l = append(l, "GREASE")
				case v >= 0x0301 && v <= 0x0304:
					l = append(l, fmt.Sprintf("TLS 1.%d", v-0x0301))
				default:
					return nil, false, "version without name"
				}
			}
			o["versions"] = l
		case wire.ExtRecordSizeLimit:
			o["record_size_limit"] = ch.RecordLimit
		case wire.ExtPreSharedKey, wire.ExtECH, wire.ExtCookie, wire.ExtQUICTP, wire.ExtTokenBinding:
			return nil, false, fmt.Sprintf("extension %d not rendered by the harness", e.Type)
		}
		exts = append(exts, o)
	}
	b, err := json.Marshal(obj{"cipher_suites": suites, "compression_methods": comps, "extensions": exts})
	if err != nil {
		return nil, false, err.Error()
	}
	return b, true, ""
}

func u16listOf(b []byte) ([]uint16, bool) {
	if len(b) < 2 {
		return nil, false
	}
	b = b[2:]
	var out []uint16
	for i := 0; i+1 < len(b); i += 2 {
		out = append(out, uint16(b[i])<<8|uint16(b[i+1]))
	}
	return out, true
}

// C32 — JSON and dictionary imports map names to the intended code points.
func TestC32(t *testing.T) {
	r := mon.New("C32", "(a) every entry of every dicttls value-indexed table that has a name-indexed partner (complete enumeration, table list cross-checked against a go/parser scan of dicttls/*.go); (b) parrot and randomized hellos rendered to the documented JSON format by the harness, imported through UnmarshalJSON and compared (normalised wire shape) with the raw-bytes import of the same hello. distinct = dictionary entries + distinct hello shapes")
	defer r.Finish(t)
	covered := map[string]bool{}
	checkDict(r, "DictAlert", dicttls.DictAlertValueIndexed, dicttls.DictAlertNameIndexed, covered)
	checkDict(r, "DictAuthorizationDataFormat", dicttls.DictAuthorizationDataFormatValueIndexed, dicttls.DictAuthorizationDataFormatNameIndexed, covered)
	checkDict(r, "DictCachedInformationType", dicttls.DictCachedInformationTypeValueIndexed, dicttls.DictCachedInformationTypeNameIndexed, covered)
	checkDict(r, "DictCertificateCompressionAlgorithm", dicttls.DictCertificateCompressionAlgorithmValueIndexed, dicttls.DictCertificateCompressionAlgorithmNameIndexed, covered)
	checkDict(r, "DictCertificateStatusType", dicttls.DictCertificateStatusTypeValueIndexed, dicttls.DictCertificateStatusTypeNameIndexed, covered)
	checkDict(r, "DictCertificateType", dicttls.DictCertificateTypeValueIndexed, dicttls.DictCertificateTypeNameIndexed, covered)
	checkDict(r, "DictCipherSuite", dicttls.DictCipherSuiteValueIndexed, dicttls.DictCipherSuiteNameIndexed, covered)
	checkDict(r, "DictClientCertificateTypeIdentifier", dicttls.DictClientCertificateTypeIdentifierValueIndexed, dicttls.DictClientCertificateTypeIdentifierNameIndexed, covered)
	checkDict(r, "DictCompMeth", dicttls.DictCompMethValueIndexed, dicttls.DictCompMethNameIndexed, covered)
	checkDict(r, "DictContentType", dicttls.DictContentTypeValueIndexed, dicttls.DictContentTypeNameIndexed, covered)
	checkDict(r, "DictECCurveType", dicttls.DictECCurveTypeValueIndexed, dicttls.DictECCurveTypeNameIndexed, covered)
	checkDict(r, "DictECPointFormat", dicttls.DictECPointFormatValueIndexed, dicttls.DictECPointFormatNameIndexed, covered)
	checkDict(r, "DictExtType", dicttls.DictExtTypeValueIndexed, dicttls.DictExtTypeNameIndexed, covered)
	checkDict(r, "DictHandshakeType", dicttls.DictHandshakeTypeValueIndexed, dicttls.DictHandshakeTypeNameIndexed, covered)
	checkDict(r, "DictHashAlgorithm", dicttls.DictHashAlgorithmValueIndexed, dicttls.DictHashAlgorithmNameIndexed, covered)
	checkDict(r, "DictHeartbeatMessageType", dicttls.DictHeartbeatMessageTypeValueIndexed, dicttls.DictHeartbeatMessageTypeNameIndexed, covered)
	checkDict(r, "DictHeartbeatMode", dicttls.DictHeartbeatModeValueIndexed, dicttls.DictHeartbeatModeNameIndexed, covered)
	checkDict(r, "DictKDFIdentifier", dicttls.DictKDFIdentifierValueIndexed, dicttls.DictKDFIdentifierNameIndexed, covered)
	checkDict(r, "DictKEMIdentifier", dicttls.DictKEMIdentifierValueIndexed, dicttls.DictKEMIdentifierNameIndexed, covered)
	checkDict(r, "DictPSKKeyExchangeMode", dicttls.DictPSKKeyExchangeModeValueIndexed, dicttls.DictPSKKeyExchangeModeNameIndexed, covered)
	checkDict(r, "DictQUICFrameType", dicttls.DictQUICFrameTypeValueIndexed, dicttls.DictQUICFrameTypeNameIndexed, covered)
	checkDict(r, "DictQUICTransportErrorCode", dicttls.DictQUICTransportErrorCodeValueIndexed, dicttls.DictQUICTransportErrorCodeNameIndexed, covered)
	checkDict(r, "DictQUICTransportParameter", dicttls.DictQUICTransportParameterValueIndexed, dicttls.DictQUICTransportParameterNameIndexed, covered)
	checkDict(r, "DictSignatureAlgorithm", dicttls.DictSignatureAlgorithmValueIndexed, dicttls.DictSignatureAlgorithmNameIndexed, covered)
	checkDict(r, "DictSignatureScheme", dicttls.DictSignatureSchemeValueIndexed, dicttls.DictSignatureSchemeNameIndexed, covered)
	checkDict(r, "DictSupplementalDataFormat", dicttls.DictSupplementalDataFormatValueIndexed, dicttls.DictSupplementalDataFormatNameIndexed, covered)
	checkDict(r, "DictSupportedGroups", dicttls.DictSupportedGroupsValueIndexed, dicttls.DictSupportedGroupsNameIndexed, covered)
	checkDict(r, "DictUserMappingType", dicttls.DictUserMappingTypeValueIndexed, dicttls.DictUserMappingTypeNameIndexed, covered)

	// cross-check the table list against the source
	fset := token.NewFileSet()
	files, _ := filepath.Glob(filepath.Join(repoDir(), "dicttls", "*.go"))
	vtabs, ntabs := map[string]bool{}, map[string]bool{}
	for _, f := range files {
		if strings.HasSuffix(f, "_test.go") {
			continue
		}
		af, err := parser.ParseFile(fset, f, nil, 0)
		if err != nil {
			r.Inconclusive("cannot parse " + f)
			continue
		}
		for _, d := range af.Decls {
			gd, ok := d.(*ast.GenDecl)
			if !ok || gd.Tok != token.VAR {
				continue
			}
			for _, s := range gd.Specs {
				for _, n := range s.(*ast.ValueSpec).Names {
					if strings.HasSuffix(n.Name, "ValueIndexed") {
						vtabs[strings.TrimSuffix(n.Name, "ValueIndexed")] = true
					}
					if strings.HasSuffix(n.Name, "NameIndexed") {
						ntabs[strings.TrimSuffix(n.Name, "NameIndexed")] = true
					}
				}
			}
		}
	}
	if len(vtabs) == 0 {
		r.Inconclusive("dicttls source scan found no tables (VERIF_REPO wrong?)")
	}
	var missing []string
	for tname := range vtabs {
		if ntabs[tname] && !covered[tname] {
			missing = append(missing, tname)
		}
	}
	sort.Strings(missing)
	if len(missing) > 0 {
		r.Inconclusive("dicttls tables with a name-indexed partner not covered by the harness: " + strings.Join(missing, ","))
	}
	r.Count("dict_tables_paired_in_source", int64(len(covered)))

	// (b) JSON vs raw import
	type src struct {
		name string
		id   tls.ClientHelloID
	}
	var srcs []src
	for _, p := range AllParrots {
		srcs = append(srcs, src{p.Name, p.ID})
	}
	nrand := mon.Pick(1000, 400000)
	for i := 0; i < nrand; i++ {
		rg := Sub("C32rand", i)
		var seed tls.PRNGSeed
		rg.Read(seed[:])
		ids := []tls.ClientHelloID{tls.HelloRandomized, tls.HelloRandomizedALPN, tls.HelloRandomizedNoALPN}
		id := ids[i%3]
		id.Seed = &seed
		srcs = append(srcs, src{fmt.Sprintf("rand%d", i), id})
	}
	representable := 0
	for i, s := range srcs {
		sni := []string{"example.test", "a.test", "averyveryverylongservername-0123456789.example.test"}[i%3]
		raw, _, err, _ := buildHello(&tls.Config{ServerName: sni, OmitEmptyPsk: true}, s.id, nil)
		if err != nil {
			r.Note("build " + s.name + ": " + err.Error())
			continue
		}
		ch, err := wire.ParseClientHello(raw)
		if err != nil {
			r.Violation(map[string]string{"kind": "source_hello_unparseable", "src": s.name}, err.Error(), mon.Hex(raw))
			continue
		}
		doc, ok, why := renderJSON(ch)
		if !ok {
			r.Count("not_representable", 1)
			r.Case("nr|"+why, false)
			continue
		}
		var specJ tls.ClientHelloSpec
		if err := json.Unmarshal(doc, &specJ); err != nil {
			r.Violation(map[string]string{"kind": "json_import_error", "src": strings.SplitN(s.name, "d", 2)[0]}, fmt.Sprintf("%s: UnmarshalJSON of a rendered hello failed: %v", s.name, err), map[string]any{"json": string(doc)})
			continue
		}
		f := &tls.Fingerprinter{}
		specR, err := f.FingerprintClientHello(recordOf(raw))
		if err != nil {
			r.Violation(map[string]string{"kind": "raw_import_error", "src": s.name}, err.Error(), mon.Hex(raw))
			continue
		}
		build := func(sp *tls.ClientHelloSpec) (*wire.ClientHello, error) {
			b, _, err, _ := buildHello(&tls.Config{ServerName: sni, OmitEmptyPsk: true}, tls.HelloCustom, func(u *tls.UConn) error { return u.ApplyPreset(sp) })
			if err != nil {
				return nil, err
			}
			return wire.ParseClientHello(b)
		}
		chJ, errJ := build(&specJ)
		chR, errR := build(specR)
		if errJ != nil || errR != nil {
			r.Violation(map[string]string{"kind": "import_build_error", "src": s.name}, fmt.Sprintf("json: %v raw: %v", errJ, errR), map[string]any{"json": string(doc)})
			continue
		}
		nj, nr := NormHello(chJ, NormOpts{}), NormHello(chR, NormOpts{})
		// legacy_version: JSON has no field for it (min/max optional); compare from suites on
		nj = nj[strings.Index(nj, ";cs="):]
		nr = nr[strings.Index(nr, ";cs="):]
		representable++
		r.Case("json|"+nr, true)
		if nj != nr {
			r.Violation(map[string]string{"kind": "json_vs_raw_differ", "src": strings.TrimRight(s.name, "0123456789")},
				fmt.Sprintf("%s: hello from the JSON import differs from the raw import: %s", s.name, diffNorm(nj, nr)), map[string]any{"json": string(doc), "raw": mon.Hex(raw)})
		}
		if representable <= 2 {
			r.Sample(map[string]any{"source": s.name, "json": string(doc)})
		}
	}
	// (c) one extension at a time: every (type, body) pair harvested from parrot,
	// randomized, generated-custom and harness-written foreign hellos is put into a small
	// fixed base hello written by the harness' own encoder, so that an extension whose host
	// hello is not representable for an unrelated reason (a signature scheme without a
	// dictionary name, say) is still compared on its own.
	{
		type tb struct {
			t uint16
			b string
		}
		harvest := map[tb]bool{}
		var order []tb
		add := func(raw []byte) {
			ch, err := wire.ParseClientHello(raw)
			if err != nil {
				return
			}
			for _, e := range ch.Exts {
				if wire.IsGREASE(e.Type) {
					continue
				}
				k := tb{e.Type, string(e.Data)}
				if !harvest[k] {
					harvest[k] = true
					order = append(order, k)
				}
			}
		}
		for _, s := range srcs {
			if raw, _, err, _ := buildHello(&tls.Config{ServerName: "example.test", OmitEmptyPsk: true}, s.id, nil); err == nil {
				add(raw)
			}
		}
		for i := 0; i < mon.Pick(200, 30000); i++ {
			rg := Sub("C32harvest", i)
			msg, _ := ForeignHello(rg, "example.test")
			add(msg)
			spec, _ := GenSpec(rg, GenOpts{})
			if raw, _, err, _ := buildHello(&tls.Config{ServerName: "example.test", OmitEmptyPsk: true}, tls.HelloCustom, func(u *tls.UConn) error { return u.ApplyPreset(spec) }); err == nil {
				add(raw)
			}
		}
		baseExts := func() []wire.Ext {
			return []wire.Ext{
				{Type: wire.ExtSNI, Data: vec16(append([]byte{0}, vec16([]byte("example.test"))...))},
				{Type: wire.ExtEMS},
				{Type: wire.ExtRenegotiationInfo, Data: []byte{0}},
				{Type: wire.ExtSupportedGroups, Data: vec16(u16be(0x001d, 0x0017))},
				{Type: wire.ExtECPointFormats, Data: vec8([]byte{0})},
				{Type: wire.ExtSigAlgs, Data: vec16(u16be(0x0403, 0x0804, 0x0401))},
				{Type: wire.ExtALPN, Data: vec16(append(vec8([]byte("h2")), vec8([]byte("http/1.1"))...))},
			}
		}
		typesCompared := map[uint16]bool{}
		perType := map[uint16]int{}
		for idx, k := range order {
			if perType[k.t] >= mon.Pick(6, 60) {
				continue
			}
			perType[k.t]++
			rg := Sub("C32one", idx)
			var exts []wire.Ext
			for _, e := range baseExts() {
				if e.Type != k.t {
					exts = append(exts, e)
				}
			}
			pos := rg.Intn(len(exts) + 1)
			exts = append(exts[:pos], append([]wire.Ext{{Type: k.t, Data: []byte(k.b)}}, exts[pos:]...)...)
			if k.t == wire.ExtKeyShare || k.t == wire.ExtSupportedVersions || k.t == wire.ExtPSKModes {
				// TLS 1.3 extensions come as a family
				exts = setExt(exts, wire.ExtSupportedVersions, vec8(u16be(0x0304, 0x0303)))
			}
			hello := &wire.ClientHello{Version: 0x0303, Random: randBytes(rg, 32), SessionID: randBytes(rg, 32), Suites: []uint16{0x1301, 0xc02b, 0xc02f}, Compression: []byte{0}}
			raw := marshalCH(hello, exts, true)
			ch, err := wire.ParseClientHello(raw)
			if err != nil {
				continue // a body that is only valid in its original context
			}
			doc, ok, why := renderJSON(ch)
			if !ok {
				r.Count("single_ext_not_representable", 1)
				r.Case("nr1|"+why, false)
				continue
			}
			f := &tls.Fingerprinter{}
			specR, errR := f.FingerprintClientHello(recordOf(raw))
			var specJ tls.ClientHelloSpec
			errJ := json.Unmarshal(doc, &specJ)
			if errR != nil || errJ != nil {
				// an importer refusing the extension is not this property's business, but the
				// two importers disagreeing on whether the name / code point exists is
				if (errR == nil) != (errJ == nil) {
					r.Count("single_ext_one_importer_refuses", 1)
				} else {
					r.Count("single_ext_both_importers_refuse", 1)
				}
				continue
			}
			build := func(sp *tls.ClientHelloSpec) (*wire.ClientHello, error) {
				b, _, err, _ := buildHello(&tls.Config{ServerName: "example.test", OmitEmptyPsk: true}, tls.HelloCustom, func(u *tls.UConn) error { return u.ApplyPreset(sp) })
				if err != nil {
					return nil, err
				}
				return wire.ParseClientHello(b)
			}
			chJ, e1 := build(&specJ)
			chR, e2 := build(specR)
			if e1 != nil || e2 != nil {
				if (e1 == nil) != (e2 == nil) {
					r.Violation(map[string]string{"kind": "single_ext_build_differs", "ext": fmt.Sprint(k.t)}, fmt.Sprintf("extension %d: the JSON import builds (%v) but the raw import does not (%v), or vice versa", k.t, e1, e2), map[string]any{"json": string(doc), "raw": mon.Hex(raw)})
				}
				continue
			}
			nj, nr := NormHello(chJ, NormOpts{}), NormHello(chR, NormOpts{})
			nj = nj[strings.Index(nj, ";cs="):]
			nr = nr[strings.Index(nr, ";cs="):]
			typesCompared[k.t] = true
			r.Count("single_ext_hellos_compared", 1)
			r.Case(fmt.Sprintf("json1|%d|%s", k.t, nr), true)
			if nj != nr {
				r.Violation(map[string]string{"kind": "json_vs_raw_differ", "src": fmt.Sprintf("single-extension-%d", k.t)},
					fmt.Sprintf("extension %d (%s): hello from the JSON import differs from the raw import: %s", k.t, dicttls.DictExtTypeValueIndexed[k.t], diffNorm(nj, nr)), map[string]any{"json": string(doc), "raw": mon.Hex(raw)})
			}
		}
		r.Count("single_ext_types_compared", int64(len(typesCompared)))
		var tl []string
		for t := range typesCompared {
			tl = append(tl, fmt.Sprint(t))
		}
		sort.Strings(tl)
		r.Note("extension types compared one at a time: " + strings.Join(tl, " "))
		r.Floor("single_ext_types_compared", 20)
	}
	r.Count("json_hellos_compared", int64(representable))
	// (d) every dictionary name THROUGH the JSON importer: a document that names one cipher
	// suite / group / signature scheme / compression algorithm of the value-indexed tables must
	// yield exactly that code point in the spec (the tables agreeing with each other says
	// nothing about how the importer looks the names up)
	{
		through := func(kind string, value uint16, name string, doc string, get func(sp *tls.ClientHelloSpec) (uint16, bool)) {
			var sp tls.ClientHelloSpec
			var err error
			pn, pv := recoverPanic(func() { err = sp.UnmarshalJSON([]byte(doc)) })
			sig := map[string]string{"kind": "json_name_lookup", "table": kind}
			if pn {
				r.Violation(sig, fmt.Sprintf("%s %q: UnmarshalJSON panicked: %v", kind, name, pv), map[string]any{"doc": doc})
				return
			}
			if err != nil {
				r.Violation(sig, fmt.Sprintf("%s name %q (%#04x) of the dictionary is refused by the JSON importer: %v", kind, name, value, err), map[string]any{"doc": doc})
				return
			}
			got, ok := get(&sp)
			if !ok || got != value {
				r.Violation(sig, fmt.Sprintf("%s name %q imported as %#04x (found=%v), the dictionary says %#04x", kind, name, got, ok, value), map[string]any{"doc": doc})
			}
			r.Count("dictionary_names_through_json", 1)
			r.Case("json-name|"+kind+"|"+name, true)
		}
		q := func(s string) string { b, _ := json.Marshal(s); return string(b) }
		for v, n := range dicttls.DictCipherSuiteValueIndexed {
			if wire.IsGREASE(v) || strings.Contains(strings.ToUpper(n), "GREASE") {
				continue
			}
			doc := fmt.Sprintf(`{"cipher_suites":[%s],"compression_methods":["NULL"],"extensions":[]}`, q(n))
			through("cipher_suite", v, n, doc, func(sp *tls.ClientHelloSpec) (uint16, bool) {
				if len(sp.CipherSuites) != 1 {
					return 0, false
				}
				return sp.CipherSuites[0], true
			})
		}
		for v, n := range dicttls.DictSupportedGroupsValueIndexed {
			if wire.IsGREASE(v) || strings.Contains(strings.ToUpper(n), "GREASE") {
				continue
			}
			doc := fmt.Sprintf(`{"cipher_suites":["TLS_AES_128_GCM_SHA256"],"compression_methods":["NULL"],"extensions":[{"name":"supported_groups","named_group_list":[%s]}]}`, q(n))
			through("supported_groups", v, n, doc, func(sp *tls.ClientHelloSpec) (uint16, bool) {
				for _, e := range sp.Extensions {
					if sc, ok := e.(*tls.SupportedCurvesExtension); ok && len(sc.Curves) == 1 {
						return uint16(sc.Curves[0]), true
					}
				}
				return 0, false
			})
			doc = fmt.Sprintf(`{"cipher_suites":["TLS_AES_128_GCM_SHA256"],"compression_methods":["NULL"],"extensions":[{"name":"key_share","client_shares":[{"group":%s,"key_exchange":[1,2,3]}]}]}`, q(n))
			through("key_share", v, n, doc, func(sp *tls.ClientHelloSpec) (uint16, bool) {
				for _, e := range sp.Extensions {
					if ks, ok := e.(*tls.KeyShareExtension); ok && len(ks.KeyShares) == 1 {
						return uint16(ks.KeyShares[0].Group), true
					}
				}
				return 0, false
			})
		}
		for v, n := range dicttls.DictSignatureSchemeValueIndexed {
			if wire.IsGREASE(v) {
				continue
			}
			doc := fmt.Sprintf(`{"cipher_suites":["TLS_AES_128_GCM_SHA256"],"compression_methods":["NULL"],"extensions":[{"name":"signature_algorithms","supported_signature_algorithms":[%s]}]}`, q(n))
			through("signature_algorithms", v, n, doc, func(sp *tls.ClientHelloSpec) (uint16, bool) {
				for _, e := range sp.Extensions {
					if sa, ok := e.(*tls.SignatureAlgorithmsExtension); ok && len(sa.SupportedSignatureAlgorithms) == 1 {
						return uint16(sa.SupportedSignatureAlgorithms[0]), true
					}
				}
				return 0, false
			})
		}
		for v, n := range dicttls.DictCertificateCompressionAlgorithmValueIndexed {
			doc := fmt.Sprintf(`{"cipher_suites":["TLS_AES_128_GCM_SHA256"],"compression_methods":["NULL"],"extensions":[{"name":"compress_certificate","algorithms":[%s]}]}`, q(n))
			through("compress_certificate", v, n, doc, func(sp *tls.ClientHelloSpec) (uint16, bool) {
				for _, e := range sp.Extensions {
					if cc, ok := e.(*tls.UtlsCompressCertExtension); ok && len(cc.Algorithms) == 1 {
						return uint16(cc.Algorithms[0]), true
					}
				}
				return 0, false
			})
		}
		r.Floor("dictionary_names_through_json", 400)
	}
	r.Floor("json_hellos_compared", 50)
	r.Floor("dict_entries", 500)
}
