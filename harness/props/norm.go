package props

import (
	"encoding/hex"
	"fmt"
	"strings"

	"verifharness/wire"
)

// Norm is the independent shape normaliser shared by C06/C09/C32: it keeps everything
// a fingerprint consists of and blanks per-connection material (GREASE code points,
// random, session id, key-share key bytes, SNI value, ticket / PSK contents, ECH-GREASE
// bytes, padding length).
type NormOpts struct {
	KeepPaddingPresence bool // padding extension presence is part of the shape (default true)
	DropPadding         bool // ignore the padding extension entirely
}

func g16(v uint16) uint16 {
	if wire.IsGREASE(v) {
		return 0x0a0a
	}
	return v
}

func NormHello(ch *wire.ClientHello, o NormOpts) string {
	var sb strings.Builder
	fmt.Fprintf(&sb, "v=%04x;sid=%d;cs=", ch.Version, len(ch.SessionID))
	for _, s := range ch.Suites {
		fmt.Fprintf(&sb, "%04x,", g16(s))
	}
	fmt.Fprintf(&sb, ";comp=%x;ext=", ch.Compression)
	for _, e := range ch.Exts {
		if e.Type == wire.ExtPadding && o.DropPadding {
			continue
		}
		sb.WriteString(NormExt(ch, e))
		sb.WriteString("|")
	}
	return sb.String()
}

// NormExt renders one extension in normalised form.
func NormExt(ch *wire.ClientHello, e wire.Ext) string {
	t := g16(e.Type)
	switch {
	case wire.IsGREASE(e.Type):
		return fmt.Sprintf("%04x:%x", t, e.Data)
	}
	switch e.Type {
	case wire.ExtSNI:
		return "0000:sni"
	case wire.ExtSupportedGroups:
		s := "000a:"
		for _, g := range ch.Groups {
			s += fmt.Sprintf("%04x,", g16(g))
		}
		return s
	case wire.ExtSupportedVersions:
		s := "002b:"
		for _, g := range ch.Versions {
			s += fmt.Sprintf("%04x,", g16(g))
		}
		return s
	case wire.ExtKeyShare:
		s := "0033:"
		for _, k := range ch.KeyShares {
			s += fmt.Sprintf("%04x/%d,", g16(k.Group), len(k.Key))
		}
		return s
	case wire.ExtPadding:
		return "0015:pad"
	case wire.ExtSessionTicket:
		return "0023:ticket"
	case wire.ExtPreSharedKey:
		return "0029:psk"
	case wire.ExtECH:
		if ch.ECH != nil && !ch.ECH.Inner {
			return fmt.Sprintf("fe0d:outer/%04x/%04x/enc%d/pl%d", ch.ECH.KDF, ch.ECH.AEAD, len(ch.ECH.Enc), len(ch.ECH.Payload))
		}
		return "fe0d:" + hex.EncodeToString(e.Data)
	}
	return fmt.Sprintf("%04x:%x", t, e.Data)
}

// NormExtTypes is the GREASE-normalised ordered list of extension types.
func NormExtTypes(ch *wire.ClientHello) []uint16 {
	out := make([]uint16, len(ch.Exts))
	for i, e := range ch.Exts {
		out[i] = g16(e.Type)
	}
	return out
}

// recordOf wraps a handshake message into one TLS record (as a capture would have it).
func recordOf(msg []byte) []byte {
	return append([]byte{22, 3, 1, byte(len(msg) >> 8), byte(len(msg))}, msg...)
}

// diffNorm points at the first differing component of two normalised hellos.
func diffNorm(a, b string) string {
	pa, pb := strings.Split(a, "|"), strings.Split(b, "|")
	for i := 0; i < len(pa) && i < len(pb); i++ {
		if pa[i] != pb[i] {
			x, y := pa[i], pb[i]
			if len(x) > 160 {
				x = x[:160] + "…"
			}
			if len(y) > 160 {
				y = y[:160] + "…"
			}
			return fmt.Sprintf("component %d: %q vs %q", i, x, y)
		}
	}
	return fmt.Sprintf("%d vs %d components", len(pa), len(pb))
}
