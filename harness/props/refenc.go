package props

import (
	"bytes"
	"encoding/binary"
	"fmt"

	tls "github.com/refraction-networking/utls"
	"verifharness/wire"
)

// Independent reference encoder: from the EXPORTED fields of a utls extension struct it
// produces the wire body the RFCs prescribe, with wildcards for per-connection parts.

type wild int

const (
	wNone      wild = iota
	wAny            // any body (session ticket, PSK)
	wSNI            // server_name body for the configured name
	wPadding        // all-zero, any length
	wKeyShare       // structured: groups fixed, key data wildcard at group-determined size
	wGroups         // GREASE entries wildcard
	wVersions       // GREASE entries wildcard
	wECHGrease      // structured outer ECH
	wGreaseExt      // type is any GREASE value, body exact
	wOmittable      // may be absent (e.g. empty SNI)
	wQUICTP         // transport parameters, GREASE ids/values wildcard
)

type Expect struct {
	Type     uint16
	Body     []byte
	W        wild
	GreaseTy bool // the extension type is a GREASE value
	MayOmit  bool // extension legitimately absent (zero-length encoding)
	Spec     tls.TLSExtension
}

func be16(v uint16) []byte { return []byte{byte(v >> 8), byte(v)} }

func vec16(b []byte) []byte { return append(be16(uint16(len(b))), b...) }
func vec8(b []byte) []byte  { return append([]byte{byte(len(b))}, b...) }

func sigList(s []tls.SignatureScheme) []byte {
	var b []byte
	for _, v := range s {
		b = append(b, be16(uint16(v))...)
	}
	return vec16(b)
}

func protoListEnc(ps []string) []byte {
	var b []byte
	for _, p := range ps {
		b = append(b, vec8([]byte(p))...)
	}
	return vec16(b)
}

// KeyShareSize is the key_exchange size each group requires (RFC 8446 4.2.8.2,
// draft-kwiatkowski-tls-ecdhe-mlkem, draft-tls-westerbaan-xyber768d00).
func KeyShareSize(g uint16) int {
	switch g {
	case 0x001d:
		return 32
	case 0x0017:
		return 65
	case 0x0018:
		return 97
	case 0x0019:
		return 133
	case 0x11ec, 0x6399: // X25519MLKEM768, X25519Kyber768Draft00
		return 1216
	}
	return -1
}

// ExpectFor renders one spec extension.  ok=false means the harness has no reference
// encoding for this Go type (the caller counts it as unknown, never as a pass).
func ExpectFor(e tls.TLSExtension) (x Expect, ok bool) {
	x.Spec = e
	switch v := e.(type) {
	case *tls.SNIExtension:
		x.Type, x.W, x.MayOmit = wire.ExtSNI, wSNI, true
	case *tls.StatusRequestExtension:
		x.Type, x.Body = wire.ExtStatusRequest, []byte{1, 0, 0, 0, 0}
	case *tls.SupportedCurvesExtension:
		x.Type, x.W = wire.ExtSupportedGroups, wGroups
		var b []byte
		for _, c := range v.Curves {
			b = append(b, be16(uint16(c))...)
		}
		x.Body = vec16(b)
	case *tls.SupportedPointsExtension:
		x.Type, x.Body = wire.ExtECPointFormats, vec8(v.SupportedPoints)
	case *tls.SignatureAlgorithmsExtension:
		x.Type, x.Body = wire.ExtSigAlgs, sigList(v.SupportedSignatureAlgorithms)
	case *tls.SignatureAlgorithmsCertExtension:
		x.Type, x.Body = wire.ExtSigAlgsCert, sigList(v.SupportedSignatureAlgorithms)
	case *tls.StatusRequestV2Extension:
		x.Type, x.Body = wire.ExtStatusRequestV2, []byte{0, 7, 2, 0, 4, 0, 0, 0, 0}
	case *tls.ALPNExtension:
		x.Type, x.Body = wire.ExtALPN, protoListEnc(v.AlpnProtocols)
	case *tls.ApplicationSettingsExtension:
		x.Type, x.Body = wire.ExtALPSOld, protoListEnc(v.SupportedProtocols)
	case *tls.ApplicationSettingsExtensionNew:
		x.Type, x.Body = wire.ExtALPSNew, protoListEnc(v.SupportedProtocols)
	case *tls.SCTExtension:
		x.Type, x.Body = wire.ExtSCT, []byte{}
	case *tls.GenericExtension:
		x.Type, x.Body = v.Id, v.Data
	case *tls.ExtendedMasterSecretExtension:
		x.Type, x.Body = wire.ExtEMS, []byte{}
	case *tls.UtlsGREASEExtension:
		x.GreaseTy, x.W = true, wGreaseExt
		x.Body = v.Body
	case *tls.UtlsPaddingExtension:
		x.Type, x.W, x.MayOmit = wire.ExtPadding, wPadding, true
	case *tls.UtlsCompressCertExtension:
		x.Type = wire.ExtCompressCert
		var b []byte
		for _, a := range v.Algorithms {
			b = append(b, be16(uint16(a))...)
		}
		x.Body = vec8(b)
	case *tls.KeyShareExtension:
		x.Type, x.W = wire.ExtKeyShare, wKeyShare
	case *tls.QUICTransportParametersExtension:
		x.Type, x.W = wire.ExtQUICTP, wQUICTP
	case *tls.PSKKeyExchangeModesExtension:
		x.Type, x.Body = wire.ExtPSKModes, vec8(v.Modes)
	case *tls.SupportedVersionsExtension:
		x.Type, x.W = wire.ExtSupportedVersions, wVersions
		var b []byte
		for _, c := range v.Versions {
			b = append(b, be16(c)...)
		}
		x.Body = vec8(b)
	case *tls.CookieExtension:
		x.Type, x.Body = wire.ExtCookie, vec16(v.Cookie)
	case *tls.NPNExtension:
		x.Type, x.Body = wire.ExtNPN, []byte{}
	case *tls.RenegotiationInfoExtension:
		x.Type, x.Body = wire.ExtRenegotiationInfo, vec8(v.RenegotiatedConnection)
	case *tls.FakeChannelIDExtension:
		x.Type, x.Body = wire.ExtChannelID, []byte{}
		if v.OldExtensionID {
			x.Type = wire.ExtChannelIDOld
		}
	case *tls.FakeRecordSizeLimitExtension:
		x.Type, x.Body = wire.ExtRecordSizeLimit, be16(v.Limit)
	case *tls.FakeTokenBindingExtension:
		x.Type = wire.ExtTokenBinding
		x.Body = append([]byte{v.MajorVersion, v.MinorVersion}, vec8(v.KeyParameters)...)
	case *tls.FakeDelegatedCredentialsExtension:
		x.Type, x.Body = wire.ExtDelegatedCreds, sigList(v.SupportedSignatureAlgorithms)
	case *tls.SessionTicketExtension:
		x.Type, x.W = wire.ExtSessionTicket, wAny
	case *tls.UtlsPreSharedKeyExtension, *tls.FakePreSharedKeyExtension:
		x.Type, x.W, x.MayOmit = wire.ExtPreSharedKey, wAny, true
	case *tls.GREASEEncryptedClientHelloExtension:
		x.Type, x.W = wire.ExtECH, wECHGrease
	default:
		return x, false
	}
	return x, true
}

// MatchBody compares a wire extension with the expectation. sni is the name the
// connection is expected to carry.
func (x *Expect) MatchBody(got wire.Ext, sni string) error {
	if x.GreaseTy {
		if !wire.IsGREASE(got.Type) {
			return fmt.Errorf("GREASE extension has non-reserved type %#04x", got.Type)
		}
	} else if got.Type != x.Type {
		return fmt.Errorf("type %d, spec says %d", got.Type, x.Type)
	}
	switch x.W {
	case wNone, wGreaseExt:
		if !bytes.Equal(got.Data, x.Body) {
			return fmt.Errorf("ext %d body %x, spec encodes to %x", got.Type, got.Data, x.Body)
		}
	case wAny:
	case wSNI:
		want := append([]byte{0}, vec16([]byte(sni))...)
		want = vec16(want)
		if !bytes.Equal(got.Data, want) {
			return fmt.Errorf("server_name body %x, expected %x for %q", got.Data, want, sni)
		}
	case wPadding:
		for _, b := range got.Data {
			if b != 0 {
				return fmt.Errorf("padding not zero")
			}
		}
	case wGroups, wVersions:
		if len(got.Data) != len(x.Body) {
			return fmt.Errorf("ext %d body length %d, spec %d", got.Type, len(got.Data), len(x.Body))
		}
		off := 2
		if x.W == wVersions {
			off = 1
		}
		if !bytes.Equal(got.Data[:off], x.Body[:off]) {
			return fmt.Errorf("ext %d length prefix differs", got.Type)
		}
		for i := off; i+1 < len(x.Body); i += 2 {
			w := binary.BigEndian.Uint16(x.Body[i:])
			g := binary.BigEndian.Uint16(got.Data[i:])
			if wire.IsGREASE(w) {
				if !wire.IsGREASE(g) {
					return fmt.Errorf("ext %d entry %d: %#04x at a GREASE position", got.Type, (i-off)/2, g)
				}
			} else if w != g {
				return fmt.Errorf("ext %d entry %d: %#04x, spec %#04x", got.Type, (i-off)/2, g, w)
			}
		}
	case wKeyShare:
		ks := x.Spec.(*tls.KeyShareExtension)
		r := got.Data
		if len(r) < 2 || int(binary.BigEndian.Uint16(r)) != len(r)-2 {
			return fmt.Errorf("key_share list length mismatch")
		}
		r = r[2:]
		for i, s := range ks.KeyShares {
			if len(r) < 4 {
				return fmt.Errorf("key_share: entry %d missing", i)
			}
			g := binary.BigEndian.Uint16(r)
			l := int(binary.BigEndian.Uint16(r[2:]))
			if len(r) < 4+l {
				return fmt.Errorf("key_share: entry %d truncated", i)
			}
			data := r[4 : 4+l]
			r = r[4+l:]
			if wire.IsGREASE(uint16(s.Group)) {
				if !wire.IsGREASE(g) {
					return fmt.Errorf("key_share entry %d: %#04x at a GREASE position", i, g)
				}
				if l != 1 && len(s.Data) <= 1 {
					return fmt.Errorf("key_share GREASE entry has %d bytes", l)
				}
				continue
			}
			if g != uint16(s.Group) {
				return fmt.Errorf("key_share entry %d: group %#04x, spec %#04x", i, g, uint16(s.Group))
			}
			if want := KeyShareSize(g); want > 0 && l != want {
				return fmt.Errorf("key_share group %#04x has %d bytes, needs %d", g, l, want)
			}
			_ = data
		}
		if len(r) != 0 {
			return fmt.Errorf("key_share has more entries than the spec")
		}
	case wECHGrease:
		// structure checked by C16; here only: outer type
		if len(got.Data) < 1 || got.Data[0] != 0 {
			return fmt.Errorf("ECH GREASE is not type outer")
		}
	case wQUICTP:
	}
	return nil
}

// ExtTypeOf reports the wire type of a spec extension (GREASE ⇒ 0x0a0a, ok).
func ExtTypeOf(e tls.TLSExtension) (uint16, bool) {
	x, ok := ExpectFor(e)
	if !ok {
		return 0, false
	}
	if x.GreaseTy {
		return 0x0a0a, true
	}
	return x.Type, true
}
