package props

import (
	"bytes"
	"encoding/binary"
	"fmt"
	"io"
	"math"
	"sort"
	"strings"
	"sync"
	"testing"

	tls "github.com/refraction-networking/utls"
	"golang.org/x/crypto/hkdf"
	"golang.org/x/crypto/sha3"
	"verifharness/mon"
)

// refStream is the independently computed SHAKE-256(seed) stream.
func refStream(seed *tls.PRNGSeed, n int) []byte {
	h := sha3.NewShake256()
	h.Write(seed[:])
	out := make([]byte, n)
	h.Read(out)
	return out
}

func refSalted(seed *tls.PRNGSeed, salt string) *tls.PRNGSeed {
	var s tls.PRNGSeed
	io.ReadFull(hkdf.New(sha3.New256, seed[:], []byte(salt), nil), s[:])
	return &s
}

// C30 — The seeded PRNG is deterministic and its helpers stay in range.
func TestC30(t *testing.T) {
	r := mon.New("C30", "seeds x (stream vs independent SHAKE-256, salted seed vs independent HKDF-SHA3-256, helper argument grid incl. boundaries); concurrent Uint64 callers checked exactly-once against the reference stream under the race detector. distinct = (seed, check kind) pairs")
	defer r.Finish(t)
	nSeeds := mon.Pick(5000, 500000)
	intArgs := []int{math.MinInt, -1 << 40, -2, -1, 0, 1, 2, 3, 7, 10, 255, 256, 1000, 1 << 20, 1<<31 - 1, 1 << 31, math.MaxInt}
	rangeArgs := [][2]int{{0, 0}, {0, 1}, {5, 5}, {5, 4}, {5, -5}, {-3, 7}, {-3, -1}, {-10, -20}, {0, 1 << 30}, {7, 9}, {math.MinInt, 3}, {2, math.MaxInt - 3}, {100, 50}, {-5, 0}}
	// every pair of extreme / boundary ints as (min, max): empty intervals whose width
	// overflows int, full-width intervals, negatives
	ext := []int{math.MinInt, math.MinInt + 1, math.MinInt + 1000, -(1 << 62), -1, 0, 1, 2, 1000, 1 << 62, math.MaxInt - 1, math.MaxInt}
	for _, a := range ext {
		for _, b := range ext {
			rangeArgs = append(rangeArgs, [2]int{a, b})
		}
	}
	weights := []float64{-1e9, -1, -1e-300, 0, math.Copysign(0, -1), 1, 1.0000001, 2, 1e300, math.Inf(1), math.Inf(-1)}
	parallel(nSeeds, func(i int) {
		rg := Sub("C30", i)
		var seed tls.PRNGSeed
		switch i {
		case 0: // all zero
		case 1:
			for k := range seed {
				seed[k] = 0xff
			}
		default:
			rg.Read(seed[:])
		}
		sig := map[string]string{"seed": fmt.Sprintf("%x", seed[:4])}
		viol := func(kind, what string) {
			s := map[string]string{"kind": kind}
			r.Violation(s, what, map[string]any{"seed": fmt.Sprintf("%x", seed[:]), "case": i})
		}
		_ = sig
		// determinism vs reference, mixing Read sizes and Uint64/Int63
		// (the generator is built from a scratch variable that the caller wipes or reuses for
		// the next seed straight afterwards: the stream belongs to the seed VALUE it was given)
		scratch := seed
		p, err := tls.VerifNewPRNG(&scratch)
		if err != nil {
			viol("prng_new_error", err.Error())
			return
		}
		switch i % 3 {
		case 0:
			scratch = tls.PRNGSeed{}
		case 1:
			for k := range scratch {
				scratch[k] ^= 0x5a
			}
		}
		ref := refStream(&seed, 4096)
		off := 0
		for off < 3000 {
			switch rg.Intn(3) {
			case 0:
				n := rg.Intn(70)
				b := make([]byte, n)
				k, err := p.Read(b)
				if k != n || err != nil || !bytes.Equal(b, ref[off:off+n]) {
					viol("prng_stream_mismatch", fmt.Sprintf("Read(%d) at offset %d = %x, SHAKE-256 stream has %x", n, off, b, ref[off:off+n]))
					return
				}
				off += n
			case 1:
				v := p.Uint64()
				if v != binary.BigEndian.Uint64(ref[off:]) {
					viol("prng_uint64_mismatch", fmt.Sprintf("Uint64 at offset %d = %#x, reference %#x", off, v, binary.BigEndian.Uint64(ref[off:])))
					return
				}
				off += 8
			default:
				v := p.Int63()
				w := int64(binary.BigEndian.Uint64(ref[off:]) & (1<<63 - 1))
				if v != w || v < 0 {
					viol("prng_int63_mismatch", fmt.Sprintf("Int63 at offset %d = %#x, reference %#x", off, v, w))
					return
				}
				off += 8
			}
		}
		r.Case(fmt.Sprintf("stream|%x", seed[:6]), true)
		// a second instance yields the same helper results (determinism of helpers)
		p1, _ := tls.VerifNewPRNG(&seed)
		p2, _ := tls.VerifNewPRNG(&seed)
		for k := 0; k < 40; k++ {
			n := intArgs[rg.Intn(len(intArgs))]
			a, b := p1.Intn(n), p2.Intn(n)
			if a != b {
				viol("prng_helper_nondeterministic", fmt.Sprintf("Intn(%d) differs between two instances with the same seed: %d vs %d", n, a, b))
			}
			if n <= 0 && a != 0 || n > 0 && (a < 0 || a >= n) {
				viol("prng_intn_range", fmt.Sprintf("Intn(%d)=%d", n, a))
			}
			n64 := int64(n)
			if k%3 == 0 {
				n64 = []int64{math.MinInt64, -1, 0, 1, 2, 1 << 40, math.MaxInt64}[rg.Intn(7)]
			}
			c, d := p1.Int63n(n64), p2.Int63n(n64)
			if c != d {
				viol("prng_helper_nondeterministic", fmt.Sprintf("Int63n(%d) differs: %d vs %d", n64, c, d))
			}
			if n64 <= 0 && c != 0 || n64 > 0 && (c < 0 || c >= n64) {
				viol("prng_int63n_range", fmt.Sprintf("Int63n(%d)=%d", n64, c))
			}
			ra := rangeArgs[rg.Intn(len(rangeArgs))]
			e, f := p1.Range(ra[0], ra[1]), p2.Range(ra[0], ra[1])
			if e != f {
				viol("prng_helper_nondeterministic", fmt.Sprintf("Range(%d,%d) differs: %d vs %d", ra[0], ra[1], e, f))
			}
			lo := ra[0]
			if lo < 0 {
				lo = 0
			}
			if ra[1] < lo {
				if e != lo {
					viol("prng_range_clamp", fmt.Sprintf("Range(%d,%d)=%d, want clamped minimum %d", ra[0], ra[1], e, lo))
				}
			} else if e < lo || e > ra[1] {
				viol("prng_range", fmt.Sprintf("Range(%d,%d)=%d outside [%d,%d]", ra[0], ra[1], e, lo, ra[1]))
			}
			w := weights[rg.Intn(len(weights))]
			g, h := p1.FlipWeightedCoin(w), p2.FlipWeightedCoin(w)
			if g != h {
				viol("prng_helper_nondeterministic", fmt.Sprintf("FlipWeightedCoin(%v) differs", w))
			}
			if w <= 0 && g {
				viol("prng_coin_low", fmt.Sprintf("FlipWeightedCoin(%v)=true", w))
			}
			if w >= 1 && !g {
				viol("prng_coin_high", fmt.Sprintf("FlipWeightedCoin(%v)=false (probability 2^-63 event)", w))
			}
			// mid weights just must agree
			mw := rg.Float64()
			if p1.FlipWeightedCoin(mw) != p2.FlipWeightedCoin(mw) {
				viol("prng_helper_nondeterministic", fmt.Sprintf("FlipWeightedCoin(%v) differs", mw))
			}
			pn := rg.Intn(12)
			pa, pb := p1.Perm(pn), p2.Perm(pn)
			if fmt.Sprint(pa) != fmt.Sprint(pb) {
				viol("prng_helper_nondeterministic", "Perm differs")
			}
			sorted := append([]int(nil), pa...)
			sort.Ints(sorted)
			for x, y := range sorted {
				if x != y {
					viol("prng_perm", fmt.Sprintf("Perm(%d)=%v is not a permutation", pn, pa))
					break
				}
			}
		}
		r.Case(fmt.Sprintf("helpers|%x", seed[:6]), true)
		// salted seeds
		salts := []string{"", "ALPS", "a", "b", "ALPS2", string(randBytes(rg, 1+rg.Intn(40)))}
		if i%16 == 0 {
			// salts that differ only by trailing NUL bytes (HMAC pads its key with zeros)
			salts = append(salts, "\x00", "ALPS\x00\x00")
		}
		if i%16 == 8 {
			// a salt longer than the HMAC block (136 bytes for SHA3-256) next to its own SHA3-256
			// digest (HMAC replaces an over-long key by its digest)
			long := string(randBytes(rg, 137+rg.Intn(200)))
			d := sha3.Sum256([]byte(long))
			salts = append(salts, long, string(d[:]))
		}
		seen := map[tls.PRNGSeed]string{}
		for _, s := range salts {
			got, err := tls.VerifSaltedSeed(&seed, s)
			if err != nil {
				viol("prng_salted_error", err.Error())
				continue
			}
			if *got != *refSalted(&seed, s) {
				viol("prng_salted_mismatch", fmt.Sprintf("salted seed for salt %q = %x, HKDF-SHA3-256 reference %x", s, got[:], refSalted(&seed, s)[:]))
			}
			again, _ := tls.VerifSaltedSeed(&seed, s)
			if *again != *got {
				viol("prng_salted_nondeterministic", fmt.Sprintf("salted seed for %q differs between calls", s))
			}
			if prev, dup := seen[*got]; dup && prev != s { // the random salt may coincide with a fixed one
				class := "other"
				if strings.TrimRight(prev, "\x00") == strings.TrimRight(s, "\x00") && len(prev) <= 136 && len(s) <= 136 {
					class = "salts_differ_only_by_trailing_NUL_bytes"
				} else if a, b := prev, s; len(a) > 136 || len(b) > 136 {
					if len(a) < len(b) {
						a, b = b, a
					}
					if d := sha3.Sum256([]byte(a)); strings.TrimRight(string(d[:]), "\x00") == strings.TrimRight(b, "\x00") {
						class = "salt_longer_than_the_hmac_block_and_its_digest"
					}
				}
				r.Violation(map[string]string{"kind": "prng_salted_collision", "class": class}, fmt.Sprintf("salts %q and %q give the same seed", prev, s), map[string]any{"seed": fmt.Sprintf("%x", seed[:]), "case": i})
			}
			seen[*got] = s
			if *got == seed && s != "" {
				viol("prng_salted_equals_seed", fmt.Sprintf("salt %q returned the unsalted seed", s))
			}
			sp, _ := tls.VerifNewSaltedPRNG(&seed, s)
			b := make([]byte, 32)
			sp.Read(b)
			if !bytes.Equal(b, refStream(refSalted(&seed, s), 32)) {
				viol("prng_salted_stream", fmt.Sprintf("salted PRNG stream for %q does not match SHAKE-256(HKDF(seed,salt))", s))
			}
		}
		r.Case(fmt.Sprintf("salted|%x", seed[:6]), true)
	})
	r.Count("seeds", int64(nSeeds))

	// concurrency: exactly-once over the reference stream
	rounds := mon.Pick(150, 8000)
	for i := 0; i < rounds; i++ {
		rg := Sub("C30conc", i)
		var seed tls.PRNGSeed
		rg.Read(seed[:])
		G := []int{2, 8, 32}[i%3]
		M := 200
		p, _ := tls.VerifNewPRNG(&seed)
		res := make([][]uint64, G)
		var wg sync.WaitGroup
		start := make(chan struct{})
		for g := 0; g < G; g++ {
			wg.Add(1)
			go func(g int) {
				defer wg.Done()
				<-start
				out := make([]uint64, 0, M)
				for k := 0; k < M; k++ {
					if (k+g)%3 == 0 {
						var b [8]byte
						p.Read(b[:])
						out = append(out, binary.BigEndian.Uint64(b[:]))
					} else {
						out = append(out, p.Uint64())
					}
				}
				res[g] = out
			}(g)
		}
		close(start)
		wg.Wait()
		ref := refStream(&seed, 8*G*M)
		want := map[uint64]int{}
		for k := 0; k < G*M; k++ {
			want[binary.BigEndian.Uint64(ref[8*k:])]++
		}
		bad := 0
		for _, out := range res {
			for _, v := range out {
				if want[v] == 0 {
					bad++
				} else {
					want[v]--
				}
			}
		}
		if bad > 0 {
			r.Violation(map[string]string{"kind": "prng_concurrent_not_exactly_once"},
				fmt.Sprintf("%d of %d concurrently drawn 8-byte chunks are not chunks of the reference stream (G=%d)", bad, G*M, G), map[string]any{"seed": fmt.Sprintf("%x", seed[:]), "case": i})
		}
		r.Case(fmt.Sprintf("conc|%d|%x", G, seed[:4]), true)
	}
	r.Count("concurrent_rounds", int64(rounds))
	r.Assume("FlipWeightedCoin(w>=1)==false has probability 2^-63 per draw and is reported if seen")
}
