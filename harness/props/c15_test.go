package props

import (
	"bytes"
	"errors"
	"fmt"
	"sync"
	"testing"

	tls "github.com/refraction-networking/utls"
	"verifharness/mon"
	"verifharness/peer"
	"verifharness/wire"
)

func echCapableTargets() []Target {
	var out []Target
	for _, n := range []string{"Chrome_120", "Chrome_120_PQ", "Chrome_131", "Chrome_133", "Firefox_120"} {
		p := ParrotByName(n)
		out = append(out, Target{Name: p.Name, ID: p.ID})
	}
	out = append(out, Target{Name: "Golang", ID: tls.HelloGolang})
	// ECH-capable specs whose compressible extensions are large (more than 2000 bytes of
	// key shares / of ALPN protocols): they must reach the inner hello like small ones
	for _, variant := range []string{"two-hybrid-shares", "long-alpn"} {
		variant := variant
		out = append(out, Target{Name: "Chrome_120+" + variant, Spec: func() (*tls.ClientHelloSpec, error) {
			sp, err := tls.UTLSIdToSpec(tls.HelloChrome_120)
			if err != nil {
				return nil, err
			}
			for i, e := range sp.Extensions {
				switch x := e.(type) {
				case *tls.SupportedCurvesExtension:
					if variant == "two-hybrid-shares" {
						sp.Extensions[i] = &tls.SupportedCurvesExtension{Curves: []tls.CurveID{tls.GREASE_PLACEHOLDER, tls.X25519MLKEM768, tls.X25519Kyber768Draft00, tls.X25519, tls.CurveP256, tls.CurveP384}}
					}
				case *tls.KeyShareExtension:
					if variant == "two-hybrid-shares" {
						sp.Extensions[i] = &tls.KeyShareExtension{KeyShares: []tls.KeyShare{{Group: tls.GREASE_PLACEHOLDER, Data: []byte{0}}, {Group: tls.X25519MLKEM768}, {Group: tls.X25519Kyber768Draft00}, {Group: tls.X25519}}}
					}
				case *tls.ALPNExtension:
					if variant == "long-alpn" {
						protos := append([]string(nil), x.AlpnProtocols...)
						for k := 0; k < 60; k++ {
							protos = append(protos, fmt.Sprintf("verif-application-protocol-number-%04d/1.0", k))
						}
						sp.Extensions[i] = &tls.ALPNExtension{AlpnProtocols: protos}
					}
				}
			}
			return &sp, nil
		}})
	}
	return out
}

// C15 — ECH hides the real server name and is honoured end to end.
func TestC15(t *testing.T) {
	r := mon.New("C15", "ECH-capable parrots and HelloGolang x ECH configs (config id, AEAD in {AES-128-GCM, AES-256-GCM, ChaCha20-Poly1305}, maximum name length, public name) x server behaviour {accept, accept after HelloRetryRequest, reject with retry configs}: the unique secret server name never occurs in the client's bytes on the wire, the outer SNI is the public name, the server's decoded inner hello names the secret and expands to the outer groups/signature schemes/ALPN/versions, acceptance yields ECHAccepted + ServerName on both sides (also after HRR), rejection yields ECHRejectionError with exactly the server's retry configs. distinct = (target, aead, behaviour, outcome)")
	defer r.Finish(t)
	f := peer.Fix()
	targets := echCapableTargets()
	type job struct {
		t        Target
		aead     uint16
		cfgID    uint8
		maxName  uint8
		behave   string
		twoAEADs bool
	}
	var jobs []job
	n := mon.Pick(6, 2500)
	for _, tg := range targets {
		for _, aead := range []uint16{1, 2, 3} {
			for _, b := range []string{"accept", "accept-hrr", "reject", "tls12-server"} {
				for k := 0; k < n; k++ {
					rg := Sub("C15plan", len(jobs))
					jobs = append(jobs, job{tg, aead, uint8(rg.Intn(256)), []uint8{0, 16, 64, 255}[rg.Intn(4)], b, rg.Intn(3) == 0})
				}
			}
		}
	}
	var mu sync.Mutex
	accepted := map[string]int{}
	parallel(len(jobs), func(i int) {
		j := jobs[i]
		rg := Sub("C15", i)
		secret := fmt.Sprintf("secret-%x.example.test", rg.Int63())
		public := "public.example.test"
		leafNames := []string{secret, public}
		if j.behave == "reject" && i%2 == 0 {
			// a client-facing server that does not hold the ECH key serves the public name only
			leafNames = []string{public}
		}
		leaf := f.CA.Leaf(peer.LeafOpts{Kind: "ecdsa", Names: leafNames})
		aeads := []uint16{j.aead}
		if j.twoAEADs {
			aeads = append(aeads, []uint16{1, 2, 3}[rg.Intn(3)])
		}
		if i%5 == 3 {
			// the config's suite list starts with suites of KDFs the client does not implement
			// (HKDF-SHA384 / -SHA512 with ordinary AEADs): it has to pick the first one it can use
			aeads = append([]uint16{0x0200 | uint16(1+rg.Intn(3)), 0x0300 | uint16(1+rg.Intn(3))}[:1+rg.Intn(2)], aeads...)
			r.Count("configs_with_foreign_kdf_suites_first", 1)
		}
		key := peer.NewECHKey(j.cfgID, public, aeads, j.maxName)
		scfg := peer.ServerConfig()
		scfg.Certificates = []tls.Certificate{leaf}
		scfg.NextProtos = []string{"h2", "http/1.1"}
		var retry []byte
		if j.behave == "reject" {
			other := peer.NewECHKey(j.cfgID, public, aeads, j.maxName) // same id, different key pair
			scfg.EncryptedClientHelloKeys = peer.ECHServerKeys(true, other)
			retry = peer.ECHConfigList(other)
		} else {
			scfg.EncryptedClientHelloKeys = peer.ECHServerKeys(true, key)
		}
		var inner *tls.ClientHelloInfo
		scfg.GetConfigForClient = func(chi *tls.ClientHelloInfo) (*tls.Config, error) {
			if inner == nil {
				c := *chi
				inner = &c
			}
			return nil, nil
		}
		if j.behave == "tls12-server" {
			// a server (or middlebox) that answers at TLS 1.2: no ECH there, and the secret
			// name's traffic must not go to whoever answered
			scfg.MaxVersion = tls.VersionTLS12
			scfg.EncryptedClientHelloKeys = nil
		}
		var hrrGroup tls.CurveID
		if j.behave == "accept-hrr" {
			probe, err := j.t.Probe("example.test")
			if err != nil {
				return
			}
			hrrGroup = hrrGroupFor(probe)
			if hrrGroup == 0 {
				hrrGroup = tls.CurveP384
			}
			scfg.CurvePreferences = []tls.CurveID{hrrGroup}
		}
		// the list the client is given: the config alone, or (accepting servers) a list of
		// several entries as after a key rotation - the usable config first, in the middle or
		// last, next to a second config (whose key the server holds as well) or an entry of an
		// unknown version
		list := peer.ECHConfigList(key)
		pickedID := j.cfgID // the config the client has to pick: the first one it supports
		if j.behave == "reject" && i%4 == 1 {
			// (also towards a rejecting server: the outer name, and with it the name the
			// rejection is authenticated under, is that of the config the client can use)
			list = peer.ECHConfigListRaw(peer.ECHUnusableConfig(i/4, j.cfgID+7, "legacy.example.test"), key.Config)
			r.Count("lists_with_an_unusable_first_config", 1)
		}
		if j.behave == "accept" || j.behave == "accept-hrr" {
			second := peer.NewECHKey(j.cfgID+1, public, aeads, j.maxName)
			if i%8 >= 6 {
				// a config the client has to skip (unknown KEM / mandatory extension / no
				// usable suite), with another public name, in front of the usable one
				list = peer.ECHConfigListRaw(peer.ECHUnusableConfig(i/8, j.cfgID+7, "legacy.example.test"), key.Config)
				r.Count("lists_with_an_unusable_first_config", 1)
			}
			sel := i % 8
			if sel >= 6 {
				sel = 0
			}
			switch sel {
			case 1:
				list = peer.ECHConfigListRaw(key.Config, second.Config)
			case 2:
				list = peer.ECHConfigListRaw(second.Config, key.Config)
				pickedID = j.cfgID + 1
			case 3:
				list = peer.ECHConfigListRaw(peer.ECHUnknownVersionEntry(40), key.Config)
			case 4:
				list = peer.ECHConfigListRaw(key.Config, peer.ECHUnknownVersionEntry(17))
			case 5:
				list = peer.ECHConfigListRaw(key.Config, second.Config, key.Config)
			}
			if i%8 < 6 && i%8 != 0 {
				scfg.EncryptedClientHelloKeys = peer.ECHServerKeys(true, key, second)
				r.Count("multi_entry_config_lists", 1)
			}
		}
		extra := func(c *tls.Config) {
			c.EncryptedClientHelloConfigList = list
			c.NextProtos = []string{"h2", "http/1.1"}
		}
		tgt := j.t
		if i%3 == 1 && tgt.Spec == nil && tgt.ID.Client != tls.HelloGolang.Client {
			// the same parrot as a custom spec whose server_name extension already carries the
			// (secret) host name - a caller pinning the host, or a spec object that served an
			// earlier connection
			id := tgt.ID
			tgt = Target{Name: j.t.Name, Spec: func() (*tls.ClientHelloSpec, error) {
				sp, err := tls.UTLSIdToSpec(id)
				if err != nil {
					return nil, err
				}
				for _, e := range sp.Extensions {
					if sn, ok := e.(*tls.SNIExtension); ok {
						sn.ServerName = secret
					}
				}
				return &sp, nil
			}}
			r.Count("specs_with_prefilled_server_name", 1)
		}
		if i%4 == 2 && tgt.ID.Client != tls.HelloGolang.Client {
			// a caller that (re)states the server name through the documented setter once the
			// hello exists: SetSNI with the name the Config already has
			tgt.Edit = func(u *tls.UConn) error { u.SetSNI(secret); return nil }
			r.Count("connections_with_setsni_after_build", 1)
		}
		returning := false
		if j.behave == "reject" && i%3 == 2 && tgt.Edit == nil {
			// a returning client: an earlier connection to an accepting server of the same pool
			// (same ticket keys) left a session in the cache; the rejection must still come out
			// as ECHRejectionError with the retry configs
			var tk [32]byte
			copy(tk[:], "verif C15 pool ticket key 012345")
			scfg.SetSessionTicketKeys([][32]byte{tk})
			warm := scfg.Clone()
			warm.EncryptedClientHelloKeys = peer.ECHServerKeys(true, key)
			warm.SetSessionTicketKeys([][32]byte{tk})
			cache := tls.NewLRUClientSessionCache(4)
			prevExtra := extra
			extra = func(c *tls.Config) {
				prevExtra(c)
				c.ClientSessionCache = cache
				c.PreferSkipResumptionOnNilExtension = true
			}
			if w := RunCase(tgt, GridCase{Server: warm}, secret, extra, peer.Opts{}); w.OK() && w.CState.ECHAccepted {
				returning = true
				r.Count("rejections_met_by_returning_clients", 1)
			}
		}
		h := RunCase(tgt, GridCase{Server: scfg}, secret, extra, peer.Opts{})
		sig := map[string]string{"target": j.t.Name, "behaviour": j.behave, "aead": fmt.Sprint(j.aead)}
		if returning {
			sig["behaviour"] = "reject+returning"
			delete(sig, "aead") // one signature per target for this class (F68)
		}
		rep := map[string]any{"case": i, "target": j.t.Name, "aead": j.aead, "config_id": j.cfgID, "max_name_len": j.maxName, "behaviour": j.behave, "secret": secret, "err": h.ErrString()}
		if h.ClientPanic != "" || h.ServerPanic != "" {
			sig["kind"] = "panic"
			r.Violation(sig, j.t.Name+": "+firstLine(h.ClientPanic+h.ServerPanic), rep)
			return
		}
		// (1) the secret never appears in the client's bytes
		if bytes.Contains(h.C2S, []byte(secret)) {
			sig["kind"] = "secret_name_on_the_wire"
			r.Violation(sig, fmt.Sprintf("%s: Config.ServerName %q appears in the bytes the client wrote", j.t.Name, secret), rep)
		}
		hellos := wire.ClientHellos(h.C2S)
		if len(hellos) == 0 {
			sig["kind"] = "no_hello_on_wire"
			r.Violation(sig, fmt.Sprintf("%s: no ClientHello on the wire: %s", j.t.Name, h.ErrString()), rep)
			return
		}
		var outer *wire.ClientHello
		for hi, hm := range hellos {
			ch, err := wire.ParseClientHello(hm)
			if err != nil {
				sig["kind"] = "unparseable_hello"
				r.Violation(sig, fmt.Sprintf("%s CH%d: %v", j.t.Name, hi+1, err), rep)
				return
			}
			if hi == 0 {
				outer = ch
			}
			if ch.SNI == nil || *ch.SNI != public {
				sig["kind"] = "outer_sni_not_public_name"
				r.Violation(sig, fmt.Sprintf("%s CH%d: outer SNI is %q, the config's public name is %q", j.t.Name, hi+1, derefStr(ch.SNI), public), rep)
			}
			if ch.ECH == nil || ch.ECH.Inner {
				sig["kind"] = "no_outer_ech_extension"
				r.Violation(sig, fmt.Sprintf("%s CH%d carries no outer encrypted_client_hello extension", j.t.Name, hi+1), rep)
			} else if hi == 0 && (ch.ECH.ConfigID != pickedID || ch.ECH.KDF != 1) {
				sig["kind"] = "ech_extension_fields"
				r.Violation(sig, fmt.Sprintf("%s: outer ECH has config id %d / kdf %d, config says %d / 1", j.t.Name, ch.ECH.ConfigID, ch.ECH.KDF, pickedID), rep)
			}
		}
		switch j.behave {
		case "accept", "accept-hrr":
			if !h.OK() {
				sig["kind"] = "ech_accept_failed"
				r.Violation(sig, fmt.Sprintf("%s: handshake with an accepting ECH server (%s, aead %d) failed: %s", j.t.Name, j.behave, j.aead, h.ErrString()), rep)
				break
			}
			if j.behave == "accept-hrr" && !sawHRR(h.S2C) {
				r.Count("hrr_not_produced", 1)
			}
			if j.behave == "accept-hrr" && sawHRR(h.S2C) {
				r.Count("accepted_after_hrr", 1)
			}
			if !h.CState.ECHAccepted || !h.SState.ECHAccepted {
				sig["kind"] = "ech_not_accepted"
				r.Violation(sig, fmt.Sprintf("%s: ECHAccepted client=%v server=%v", j.t.Name, h.CState.ECHAccepted, h.SState.ECHAccepted), rep)
			}
			if h.CState.ServerName != secret || h.SState.ServerName != secret {
				sig["kind"] = "ech_servername_not_reported"
				r.Violation(sig, fmt.Sprintf("%s: ServerName client=%q server=%q, want the secret name", j.t.Name, h.CState.ServerName, h.SState.ServerName), rep)
			}
			if inner == nil {
				sig["kind"] = "inner_hello_not_seen"
				r.Violation(sig, "server callback never saw a ClientHello", rep)
				break
			}
			if inner.ServerName != secret {
				sig["kind"] = "inner_hello_name"
				r.Violation(sig, fmt.Sprintf("%s: the decrypted inner hello names %q", j.t.Name, inner.ServerName), rep)
			}
			// compressed extensions expand to the outer values
			var og, isig []uint16
			for _, g := range inner.SupportedCurves {
				og = append(og, uint16(g))
			}
			for _, s := range inner.SignatureSchemes {
				isig = append(isig, uint16(s))
			}
			if fmt.Sprint(og) != fmt.Sprint(outer.Groups) {
				sig["kind"] = "inner_groups_differ_from_outer"
				r.Violation(sig, fmt.Sprintf("%s: inner supported_groups %04x, outer %04x", j.t.Name, og, outer.Groups), rep)
			}
			if fmt.Sprint(isig) != fmt.Sprint(outer.SigAlgs) {
				sig["kind"] = "inner_sigalgs_differ_from_outer"
				r.Violation(sig, fmt.Sprintf("%s: inner signature_algorithms %04x, outer %04x", j.t.Name, isig, outer.SigAlgs), rep)
			}
			if j.t.ID.Client != tls.HelloGolang.Client {
				if fmt.Sprint(inner.SupportedProtos) != fmt.Sprint(outer.ALPN) && !(len(inner.SupportedProtos) == 0 && len(outer.ALPN) == 0) {
					sig["kind"] = "inner_alpn_differs_from_outer"
					r.Violation(sig, fmt.Sprintf("%s: inner ALPN %v, outer %v", j.t.Name, inner.SupportedProtos, outer.ALPN), rep)
				}
			}
			mu.Lock()
			accepted[j.t.Name+"/"+j.behave]++
			mu.Unlock()
			r.Count("ech_accepted", 1)
		case "tls12-server":
			if h.ClientErr == nil {
				sig["kind"] = "ech_connection_completed_at_tls12"
				r.Violation(sig, fmt.Sprintf("%s: with an ECH config list the handshake completed at %#04x with a server that never saw the inner hello (ECHAccepted=%v): the application's data for the secret name would go to the public-name server", j.t.Name, h.CState.Version, h.CState.ECHAccepted), rep)
				break
			}
			r.Count("tls12_answers_refused", 1)
		case "reject":
			var rej *tls.ECHRejectionError
			if !errors.As(h.ClientErr, &rej) {
				sig["kind"] = "ech_rejection_not_reported"
				r.Violation(sig, fmt.Sprintf("%s: a rejecting ECH server must yield ECHRejectionError, got: %v", j.t.Name, h.ClientErr), rep)
				break
			}
			if !bytes.Equal(rej.RetryConfigList, retry) {
				sig["kind"] = "ech_retry_configs_differ"
				r.Violation(sig, fmt.Sprintf("%s: ECHRejectionError carries %d bytes of retry configs, the server's list has %d", j.t.Name, len(rej.RetryConfigList), len(retry)), rep)
			}
			r.Count("ech_rejected", 1)
		}
		r.Case(fmt.Sprintf("%s|%d|%s|%v", j.t.Name, j.aead, j.behave, h.OK()), true)
		if i%37 == 0 {
			r.Sample(map[string]any{"target": j.t.Name, "aead": j.aead, "behaviour": j.behave, "config_id": j.cfgID, "ok": h.OK(), "hellos": len(hellos)})
		}
	})
	for k, v := range accepted {
		r.Count("accepted_"+k, int64(v))
	}
	r.Floor("ech_accepted", 30)
	r.Floor("ech_rejected", 15)
	r.Floor("accepted_after_hrr", 5)
	r.Floor("tls12_answers_refused", 10)
	r.Floor("lists_with_an_unusable_first_config", 10)
}

func derefStr(p *string) string {
	if p == nil {
		return "<none>"
	}
	return *p
}
