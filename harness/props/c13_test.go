package props

import (
	"fmt"
	"math/rand"
	"strings"
	"sync/atomic"
	"testing"

	tls "github.com/refraction-networking/utls"
	"verifharness/mon"
	"verifharness/peer"
	"verifharness/wire"
)

// C13 — The client never settles on a protocol version it did not advertise.
func TestC13(t *testing.T) {
	r := mon.New("C13", "targets (parrots, Golang, randomized, custom) x server version ranges (max 1.0..1.3) x {normal negotiation, legacy server that negotiates from legacy_version only (hook H2)} x downgrade sentinel {default, forced, suppressed} (hook H3) x {first visit, returning client whose hello offers a cached TLS 1.2 ticket / TLS 1.3 PSK}: if the client completes at version V then V is in the set advertised on the wire (supported_versions minus GREASE, else [spec minimum .. legacy_version]); a client that advertised TLS 1.3 never completes a <=1.2 handshake whose ServerHello random carries the RFC 8446 sentinel. distinct = (target family, server max, mode, canary, outcome)")
	defer r.Finish(t)
	var targets []Target
	targets = append(targets, ParrotTargets(true)...)
	for i := 0; i < mon.Pick(60, 15000); i++ {
		targets = append(targets, RandomizedTarget(i))
	}
	for i := 0; i < mon.Pick(90, 25000); i++ {
		targets = append(targets, CustomTarget(i))
	}
	// specs whose declared version range is wider than the supported_versions list they put
	// on the wire (Firefox_102 is the only parrot of that shape): parrot specs with
	// TLSVersMin lowered by the caller, with and without GREASE in the list
	for _, pn := range []string{"Chrome_120", "Chrome_83", "Firefox_120", "Safari_16_0", "Edge_106", "IOS_14"} {
		p := ParrotByName(pn)
		for _, minv := range []uint16{tls.VersionTLS10, tls.VersionTLS11} {
			minv := minv
			targets = append(targets, Target{Name: fmt.Sprintf("gap:%s(min %04x)", pn, minv), Spec: func() (*tls.ClientHelloSpec, error) {
				sp, err := tls.UTLSIdToSpec(p.ID)
				if err != nil {
					return nil, err
				}
				sp.TLSVersMin = minv
				sp.TLSVersMax = tls.VersionTLS13
				return &sp, nil
			}})
		}
	}
	// specs without a supported_versions extension whose minimum is above TLS 1.0: the
	// advertised set is [minimum .. legacy_version], whatever a shared Config says later
	for _, pn := range []string{"Chrome_58", "Firefox_55", "IOS_11_1"} {
		p := ParrotByName(pn)
		for _, minv := range []uint16{tls.VersionTLS11, tls.VersionTLS12} {
			minv := minv
			targets = append(targets, Target{Name: fmt.Sprintf("nosv:%s(min %04x)", pn, minv), Spec: func() (*tls.ClientHelloSpec, error) {
				sp, err := tls.UTLSIdToSpec(p.ID)
				if err != nil {
					return nil, err
				}
				sp.TLSVersMin = minv
				return &sp, nil
			}})
		}
	}
	type job struct {
		t      Target
		max    uint16
		legacy bool
		canary int
		o      Offer
		// returning: the client first visits a well-behaved TLS 1.2 / 1.3 server with a shared
		// session cache, so that the adversarial connection offers a session
		returning bool
		// narrowed: after this connection's hello was built, another connection that shares
		// the caller's *Config applies a TLS 1.2-only parrot to it (uTLS writes the spec's
		// version range into the Config): what this client offered is what is on its wire
		narrowed bool
	}
	var jobs []job
	for _, tg := range targets {
		ch, err := tg.Probe("example.test")
		if err != nil {
			continue
		}
		o := OfferOf(ch, targetMinVersion(tg))
		for _, max := range []uint16{tls.VersionTLS10, tls.VersionTLS11, tls.VersionTLS12, tls.VersionTLS13} {
			for _, legacy := range []bool{false, true} {
				if legacy && max == tls.VersionTLS13 {
					continue
				}
				for canary := 0; canary < 3; canary++ {
					if max == tls.VersionTLS13 && canary != 0 {
						continue
					}
					jobs = append(jobs, job{tg, max, legacy, canary, o, false, false})
					if canary == 0 || legacy {
						jobs = append(jobs, job{tg, max, legacy, canary, o, true, false})
					}
					if !legacy && (canary == 1 && max == tls.VersionTLS12 || strings.HasPrefix(tg.Name, "nosv:")) && tg.ID.Client != tls.HelloGolang.Client {
						jobs = append(jobs, job{tg, max, legacy, canary, o, false, true})
					}
				}
			}
		}
	}
	r.Count("planned_cases", int64(len(jobs)))
	parallel(len(jobs), func(i int) {
		j := jobs[i]
		scfg := peer.ServerConfig()
		scfg.MaxVersion = j.max
		plan := &tls.VerifPlan{LegacyVersionNegotiation: j.legacy, Canary: j.canary}
		if j.legacy {
			// the hooked server negotiates from legacy_version, but its certificate selection still
			// looks at supported_versions and falls back to the first certificate: put the RSA leaf
			// first, which every client with TLS <= 1.1 suites can use
			f := peer.Fix()
			scfg.Certificates = []tls.Certificate{f.RSA, f.ECDSA, f.Ed25519}
		}
		var extra func(c *tls.Config)
		offered := false
		if j.returning {
			cache := tls.NewLRUClientSessionCache(4)
			extra = func(c *tls.Config) {
				c.ClientSessionCache = cache
				c.PreferSkipResumptionOnNilExtension = true
			}
			warm := peer.ServerConfig()
			if j.max < tls.VersionTLS13 {
				warm.MaxVersion = tls.VersionTLS12
			}
			h0 := RunCase(j.t, GridCase{Server: warm, Dim: "warmup"}, "example.test", extra, peer.Opts{})
			if !h0.OK() {
				r.Count("warmup_failed", 1)
			}
		}
		tgt := j.t
		if j.narrowed {
			var shared *tls.Config
			prev := extra
			extra = func(c *tls.Config) {
				shared = c
				if prev != nil {
					prev(c)
				}
			}
			tgt.Edit = func(u *tls.UConn) error {
				other := tls.UClient(nil, shared, tls.HelloChrome_58)
				return other.BuildHandshakeState()
			}
			r.Count("connections_with_config_narrowed_by_another_connection", 1)
		}
		h := RunCase(tgt, GridCase{Server: scfg, Plan: plan}, "example.test", extra, peer.Opts{NoEcho: true})
		mode := "normal"
		if j.narrowed {
			mode = "config-narrowed"
		}
		if j.legacy {
			mode = "legacy"
		}
		if j.returning {
			mode += "+returning"
			for _, hm := range wire.ClientHellos(h.C2S) {
				if ch, err := wire.ParseClientHello(hm); err == nil && (len(ch.Ticket) > 0 || len(ch.PSKIds) > 0) {
					offered = true
				}
			}
			if offered {
				r.Count("returning_client_offered_a_session", 1)
			}
		}
		sig := map[string]string{"target": family(j.t.Name), "server_max": fmt.Sprintf("%04x", j.max), "mode": mode, "canary": fmt.Sprint(j.canary)}
		rep := map[string]any{"case": i, "target": j.t.Name, "server_max": j.max, "legacy": j.legacy, "canary": j.canary, "err": h.ErrString(), "advertised": fmt.Sprintf("%04x", j.o.Versions)}
		if h.ClientPanic != "" {
			sig["kind"] = "panic"
			r.Violation(sig, j.t.Name+": "+firstLine(h.ClientPanic), rep)
			return
		}
		outcome := "failed"
		// what the server really announced
		var sh *wire.ServerHello
		msgs, _, _, _ := wire.PlainHandshake(h.S2C)
		for _, m := range msgs {
			if m.Type == 2 {
				if p, err := wire.ParseServerHello(m.Raw); err == nil && !p.IsHRR {
					sh = p
				}
			}
		}
		if h.ClientErr == nil {
			outcome = "completed"
			v := h.Client.ConnectionState().Version
			if sh != nil && sh.SelectedVersion() != v {
				r.Note(fmt.Sprintf("%s: client reports %#04x, ServerHello says %#04x", j.t.Name, v, sh.SelectedVersion()))
			}
			if !j.o.Has(v) {
				sig["kind"] = "completed_at_unadvertised_version"
				sig["version"] = fmt.Sprintf("%04x", v)
				r.Violation(sig, fmt.Sprintf("%s completed a handshake at version %#04x but its hello advertises only %04x (server max %#04x, %s negotiation)", j.t.Name, v, j.o.Versions, j.max, mode), rep)
			}
			r.Count("completed", 1)
			if v < tls.VersionTLS13 && sh != nil && j.o.Has(tls.VersionTLS13) {
				tail := sh.Random[24:]
				isSentinel := string(tail) == "DOWNGRD\x01" || string(tail) == "DOWNGRD\x00"
				if isSentinel {
					sig["kind"] = "downgrade_sentinel_accepted"
					sig["version"] = fmt.Sprintf("%04x", v)
					r.Violation(sig, fmt.Sprintf("%s advertised TLS 1.3 but completed a handshake at %#04x whose ServerHello random carries the downgrade sentinel %q", j.t.Name, v, tail), rep)
				}
			}
		} else if sh != nil && sh.SelectedVersion() < tls.VersionTLS13 && j.o.Has(tls.VersionTLS13) {
			tail := sh.Random[24:]
			if string(tail) == "DOWNGRD\x01" || string(tail) == "DOWNGRD\x00" {
				r.Count("sentinel_rejected", 1)
				outcome = "sentinel-rejected"
			}
		}
		if sh != nil && h.ClientErr != nil && !j.o.Has(sh.SelectedVersion()) {
			r.Count("unadvertised_version_rejected", 1)
			outcome = "unadvertised-rejected"
		}
		r.Case(fmt.Sprintf("%s|%04x|%s|%d|%s", family(j.t.Name), j.max, mode, j.canary, outcome), true)
		if i%409 == 0 {
			r.Sample(map[string]any{"target": j.t.Name, "server_max": fmt.Sprintf("%#04x", j.max), "mode": mode, "canary": j.canary, "outcome": outcome, "advertised": fmt.Sprintf("%04x", j.o.Versions)})
		}
	})
	r.Floor("completed", 300)
	r.Floor("sentinel_rejected", 50)
	r.Floor("unadvertised_version_rejected", 50)
	// renegotiation: the hello the client sends in answer to a HelloRequest advertises versions
	// too, and a ServerHello at a version outside them must be refused on the spot (alert
	// protocol_version), whatever the spec's TLSVersMin says
	{
		var rt []Target
		rt = append(rt, ParrotTargets(false)...)
		for i := 0; i < mon.Pick(10, 200); i++ {
			rt = append(rt, CustomTarget(i))
		}
		kind := renegKinds()[0] // TLS 1.2 server
		var refused, accepted atomic.Int64
		parallel(len(rt)*2, func(i int) {
			tg := rt[i/2]
			ch, err := tg.Probe("example.test")
			if err != nil {
				return
			}
			o := OfferOf(ch, targetMinVersion(tg))
			if !kind.ok(o) {
				return
			}
			var forced uint16
			var sawAlert = -2
			cs := renegCase{tg: tg, kind: kind, seed: i, reneg: -1, requests: 1, can13: has13x(o)}
			cs.script = renegScript{name: "sh_unadvertised_version", f: func(rg *rand.Rand, ch2 *wire.ClientHello) []renegRec {
				if ch2 == nil {
					return nil
				}
				adv := map[uint16]bool{}
				for _, v := range ch2.Versions {
					adv[v] = true
				}
				if len(ch2.Versions) == 0 {
					return nil // no supported_versions: the legacy range applies (first part of the statement, covered above)
				}
				for _, v := range []uint16{tls.VersionTLS11, tls.VersionTLS10}[i%2:] {
					if !adv[v] {
						forced = v
						break
					}
				}
				if forced == 0 {
					return nil
				}
				sh := shFor(rg, ch2, false)
				sh.Version = forced
				sh.Exts = nil // nothing else to object to
				return []renegRec{hsRec(sh.Marshal())}
			}}
			cs.id = renegCaseID(cs)
			res := c33RunReneg(cs)
			if !res.gotHello2 || forced == 0 {
				return
			}
			sig := map[string]string{"kind": "unadvertised_version_accepted_in_renegotiation", "target": family(tg.Name)}
			if res.panicked != "" {
				sig["kind"] = "panic"
				r.Violation(sig, tg.Name+": "+firstLine(res.panicked), nil)
				return
			}
			// what the client says about the ServerHello: the version must be the objection
			msg := fmt.Sprint(res.readErr)
			if strings.Contains(msg, "did not advertise") || strings.Contains(msg, "unsupported protocol version") || strings.Contains(msg, "unsupported, maximum protocol version") {
				sawAlert = 70
				refused.Add(1)
			} else {
				accepted.Add(1)
				r.Violation(sig, fmt.Sprintf("%s: the renegotiation ClientHello advertises %04x; a ServerHello at %#04x was not refused with protocol_version (client read error: %v)", tg.Name, ch.Versions, forced, res.readErr), map[string]any{"target": tg.Name, "forced": forced})
			}
			r.Case(fmt.Sprintf("reneg-version|%s|%04x|%d", family(tg.Name), forced, sawAlert), true)
		})
		r.Count("renegotiation_versions_refused", refused.Load())
		r.Floor("renegotiation_versions_refused", 20)
	}
	r.Floor("returning_client_offered_a_session", 100)
}
