package props

import (
	"bytes"
	"fmt"
	"net"
	"testing"

	tls "github.com/refraction-networking/utls"
	"verifharness/mon"
	"verifharness/peer"
	"verifharness/wire"
)

func greaseECHOf(spec *tls.ClientHelloSpec) *tls.GREASEEncryptedClientHelloExtension {
	for _, e := range spec.Extensions {
		if g, ok := e.(*tls.GREASEEncryptedClientHelloExtension); ok {
			return g
		}
	}
	return nil
}

// hrrGroupFor picks a classical group the hello lists but sent no share for.
func hrrGroupFor(ch *wire.ClientHello) tls.CurveID {
	shared := map[uint16]bool{}
	for _, k := range ch.KeyShares {
		shared[k.Group] = true
	}
	for _, g := range []uint16{0x0018, 0x0017, 0x0019, 0x001d} {
		for _, l := range ch.Groups {
			if l == g && !shared[g] {
				return tls.CurveID(g)
			}
		}
	}
	return 0
}

// C16 — GREASE ECH extensions look like real outer ECH extensions.
func TestC16(t *testing.T) {
	r := mon.New("C16", "parrots whose spec carries a GREASE ECH extension (no real ECH config) x N connections (fresh spec per connection, and one spec object reused for all of them) x {plain server, HRR server, HRR server whose HelloRetryRequest carries a cookie}: parsed encrypted_client_hello of CH1 (and CH2) checked against the spec's candidate lists: type outer, (KDF,AEAD) in the candidates, 32-byte enc, payload length = candidate + 16-byte AEAD tag; CH2 extension bytes identical to CH1; config id / enc / payload fresh across connections. distinct = (parrot, kdf, aead, payload length, config id) tuples")
	defer r.Finish(t)
	conns := mon.Pick(128, 40000)
	targets := 0
	for _, p := range AllParrots {
		spec, err := tls.UTLSIdToSpec(p.ID)
		if err != nil {
			continue
		}
		g := greaseECHOf(&spec)
		if g == nil {
			continue
		}
		targets++
		cands := map[[2]uint16]bool{}
		for _, cs := range g.CandidateCipherSuites {
			cands[[2]uint16{cs.KdfId, cs.AeadId}] = true
		}
		if len(cands) == 0 {
			cands[[2]uint16{1, 1}] = true // documented default: HKDF-SHA256 / AES-128-GCM
		}
		plens := map[int]bool{}
		for _, l := range g.CandidatePayloadLens {
			plens[int(l)+16] = true
		}
		if len(plens) == 0 {
			plens[128+16] = true
		}
		for _, mode := range []string{"fresh", "shared-spec"} {
			// shared-spec: ONE spec object (UTLSIdToSpec once) applied to every connection of this
			// pass, one after the other - what a connection leaves in the spec's GREASE ECH
			// extension object must not be sent by the next
			id := p.ID
			var prep func(u *tls.UConn) error
			conns := conns
			pname := p.Name
			if mode == "shared-spec" {
				shared, err := tls.UTLSIdToSpec(p.ID)
				if err != nil {
					continue
				}
				id = tls.HelloCustom
				prep = func(u *tls.UConn) error { return u.ApplyPreset(&shared) }
				conns = conns/4 + 8
				pname = "shared:" + p.Name
			}
			cfgIDs := map[uint8]bool{}
			encSeen := map[string]bool{}
			plSeen := map[string]bool{}
			aeadSeen := map[uint16]bool{}
			hrrSeen := 0
			for k := 0; k < conns; k++ {
				var hellos [][]byte
				hrr := k%3 == 2
				if hrr {
					probe, _, err, _ := buildHello(&tls.Config{ServerName: "example.test"}, id, prep)
					if err != nil {
						continue
					}
					pch, _ := wire.ParseClientHello(probe)
					grp := hrrGroupFor(pch)
					if grp == 0 {
						hrr = false
					} else {
						scfg := peer.ServerConfig()
						scfg.CurvePreferences = []tls.CurveID{grp}
						if k%4 >= 2 {
							// while this connection waits for the server's answer to its first hello,
							// other connections of the process build theirs (a busy client): what
							// they draw must not reach into this connection's extension
							scfg.GetConfigForClient = func(*tls.ClientHelloInfo) (*tls.Config, error) {
								for o := 0; o < 24; o++ {
									buildHello(&tls.Config{ServerName: "other.example.test"}, id, prep)
								}
								return nil, nil
							}
							r.Count("hrr_with_other_connections_built_in_between", 1)
						}
						opts := peer.Opts{}
						if k%2 == 0 {
							// every other HelloRetryRequest also carries a cookie (added before the server's
							// transcript; the echo is cleared before the server compares the two hellos)
							cookie := randBytes(Sub("C16cookie", k), []int{1, 32, 500}[(k/2)%3])
							plan := &tls.VerifPlan{ClearCookie: true, RewriteOut: func(isClient bool, data []byte) []byte {
								if isClient || len(data) < 4 || data[0] != 2 {
									return nil
								}
								sh, err := wire.ParseServerHello(data)
								if err != nil || !sh.IsHRR {
									return nil
								}
								sh.SetExt(wire.ExtCookie, vec16(cookie))
								return sh.Marshal()
							}}
							opts.ServerSetup = func(s *tls.Conn, _ net.Conn) { tls.VerifAttach(s, plan) }
							r.Count("hrr_with_cookie", 1)
						}
						opts.Prepare = prep
						h := peer.Run(peer.ClientConfig("example.test"), id, scfg, opts)
						hellos = wire.ClientHellos(h.C2S)
						if len(hellos) == 2 {
							hrrSeen++
						} else {
							r.Note(fmt.Sprintf("%s: HRR server produced %d hellos: %s", p.Name, len(hellos), h.ErrString()))
						}
					}
				}
				if !hrr {
					raw, _, err, pn := buildHello(&tls.Config{ServerName: "example.test"}, id, prep)
					if err != nil || pn != "" {
						r.Violation(map[string]string{"kind": "build_error", "parrot": pname}, fmt.Sprintf("%v %s", err, pn), nil)
						continue
					}
					hellos = [][]byte{raw}
				}
				var first *wire.Ext
				for hi, raw := range hellos {
					ch, err := wire.ParseClientHello(raw)
					viol := func(kind, what string) {
						r.Violation(map[string]string{"kind": kind, "parrot": pname, "hello": fmt.Sprint(hi + 1)}, fmt.Sprintf("%s CH%d: %s", pname, hi+1, what), map[string]any{"hello": mon.Hex(raw)})
					}
					if err != nil {
						viol("unparseable_hello", err.Error())
						continue
					}
					e := ch.Ext(wire.ExtECH)
					if e == nil || ch.ECH == nil {
						viol("grease_ech_missing", "spec has a GREASE ECH extension but the hello carries none")
						continue
					}
					if hi == 1 && first != nil {
						if !bytes.Equal(first.Data, e.Data) {
							viol("grease_ech_changed_after_hrr", "the encrypted_client_hello extension of the second ClientHello differs from the first")
						}
						r.Count("ch2_compared", 1)
						continue
					}
					first = e
					o := ch.ECH
					if o.Inner {
						viol("grease_ech_type", "type is inner")
						continue
					}
					if !cands[[2]uint16{o.KDF, o.AEAD}] {
						viol("grease_ech_suite", fmt.Sprintf("(kdf,aead)=(%d,%d) is not in the spec's candidate list", o.KDF, o.AEAD))
					}
					if len(o.Enc) != 32 {
						viol("grease_ech_enc_len", fmt.Sprintf("encapsulated key has %d bytes", len(o.Enc)))
					}
					if !plens[len(o.Payload)] {
						viol("grease_ech_payload_len", fmt.Sprintf("payload length %d (aead %d) is not a candidate length + 16", len(o.Payload), o.AEAD))
					}
					cfgIDs[o.ConfigID] = true
					aeadSeen[o.AEAD] = true
					if encSeen[string(o.Enc)] {
						viol("grease_ech_enc_repeats", "encapsulated key repeated across connections")
					}
					if plSeen[string(o.Payload)] {
						viol("grease_ech_payload_repeats", "payload repeated across connections")
					}
					encSeen[string(o.Enc)] = true
					plSeen[string(o.Payload)] = true
					r.Case(fmt.Sprintf("%s|%d|%d|%d|%d", pname, o.KDF, o.AEAD, len(o.Payload), o.ConfigID), true)
					if k == 0 {
						r.Sample(map[string]any{"parrot": p.Name, "kdf": o.KDF, "aead": o.AEAD, "config_id": o.ConfigID, "enc_len": len(o.Enc), "payload_len": len(o.Payload)})
					}
				}
			}
			if len(cfgIDs) < 2 {
				r.Violation(map[string]string{"kind": "grease_ech_config_id_constant", "parrot": pname}, fmt.Sprintf("config id took %d value(s) in %d connections", len(cfgIDs), conns), nil)
			}
			r.Count("aeads_seen_"+pname, int64(len(aeadSeen)))
			r.Count("hrr_"+pname, int64(hrrSeen))
			if hrrSeen == 0 {
				r.Inconclusive("no HelloRetryRequest observed for " + pname)
			}
		}
	}
	r.Count("grease_ech_parrots", int64(targets))
	r.Floor("grease_ech_parrots", 4)
	r.Floor("ch2_compared", 10)
}
