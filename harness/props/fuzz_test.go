package props

import (
	"math/rand"
	"testing"

	tls "github.com/refraction-networking/utls"
	"verifharness/wire"
)

// Coverage-guided fuzz targets (Go native fuzzing) used by the thorough tier of C07, C33
// and C34.  The oracle is the same as in the monitors: no panic (the fuzzing engine
// reports panics and fatal errors with the input that caused them) and bounded progress.
// The driver bounds them by iteration count (-fuzztime=Nx), never by time.

func fuzzTargets() []Target {
	ts := ParrotTargets(true)
	ts = append(ts, Target{Name: "custom-compress-all", Spec: customCompressSpec([]tls.CertCompressionAlgo{tls.CertCompressionBrotli, tls.CertCompressionZlib, tls.CertCompressionZstd})})
	return ts
}

// FuzzC07Import: arbitrary bytes into the raw importers; accepted inputs are applied.
func FuzzC07Import(f *testing.F) {
	for i, p := range AllParrots {
		if raw, _, err, _ := buildHello(&tls.Config{ServerName: "example.test", OmitEmptyPsk: true}, p.ID, nil); err == nil && i%3 == 0 {
			f.Add(recordOf(raw), byte(i))
		}
	}
	f.Add([]byte{22, 3, 1, 0, 5, 1, 0, 0, 1, 0}, byte(0))
	f.Fuzz(func(t *testing.T, rec []byte, flags byte) {
		fp := tls.Fingerprinter{AllowBluntMimicry: flags&1 != 0, AlwaysAddPadding: flags&2 != 0, RealPSKResumption: flags&4 != 0}
		spec, err := fp.FingerprintClientHello(rec)
		var s2 tls.ClientHelloSpec
		_ = s2.FromRaw(rec, flags&8 != 0, flags&16 != 0)
		// applicability is promised for syntactically valid ClientHellos only (strict parser)
		valid := false
		if len(rec) > 5 {
			_, perr := wire.ParseClientHello(rec[5:])
			valid = perr == nil
		}
		if err == nil && spec != nil && valid {
			u := tls.UClient(nil, &tls.Config{ServerName: "example.test", OmitEmptyPsk: true}, tls.HelloCustom)
			if u.ApplyPreset(spec) == nil {
				_ = u.BuildHandshakeState()
			}
		}
		if len(rec) > 4 {
			ext := tls.ExtensionFromID(uint16(rec[0])<<8 | uint16(rec[1]))
			if w, ok := ext.(tls.TLSExtensionWriter); ok {
				if _, err := w.Write(rec[2:]); err == nil {
					if n := w.Len(); n >= 0 && n < 1<<20 {
						w.Read(make([]byte, n))
					}
				}
			}
		}
	})
}

// FuzzC07JSON: arbitrary documents into the JSON importer.
func FuzzC07JSON(f *testing.F) {
	f.Add([]byte(`{"cipher_suites":["GREASE","TLS_AES_128_GCM_SHA256"],"compression_methods":["NULL"],"extensions":[{"name":"server_name"},{"name":"supported_groups","named_group_list":["x25519"]}]}`))
	f.Add([]byte(`{"cipher_suites":[],"compression_methods":[],"extensions":[{"name":"key_share","client_shares":[{"group":"x25519"}]},{"name":"padding","len":0}]}`))
	f.Fuzz(func(t *testing.T, doc []byte) {
		var spec tls.ClientHelloSpec
		if err := spec.UnmarshalJSON(doc); err == nil && specDescribesValidHello(&spec) && jsonSpecInLimits(&spec) {
			u := tls.UClient(nil, &tls.Config{ServerName: "example.test", OmitEmptyPsk: true}, tls.HelloCustom)
			if u.ApplyPreset(&spec) == nil {
				_ = u.BuildHandshakeState()
			}
		}
	})
}

// FuzzC33Message: (client, scenario, message index, replacement bytes): the hooked real
// server replaces one of its handshake messages by the fuzz bytes before its transcript.
func FuzzC33Message(f *testing.F) {
	targets := fuzzTargets()
	scenarios := c33Scenarios()
	f.Add(byte(0), byte(0), byte(0), []byte{2, 0, 0, 2, 3, 3})
	f.Add(byte(23), byte(3), byte(2), []byte{25, 0, 0, 8, 0, 2, 0, 0, 10, 0, 0, 0})
	f.Add(byte(5), byte(6), byte(1), []byte{11, 0, 0, 3, 0, 0, 0})
	f.Add(byte(30), byte(0), byte(5), []byte{4, 0, 0, 13, 0, 0, 0, 1, 0, 0, 0, 0, 0, 0, 1, 65, 0, 0})
	f.Fuzz(func(t *testing.T, ti, si, mi byte, repl []byte) {
		tg := targets[int(ti)%len(targets)]
		sc := scenarios[int(si)%len(scenarios)]
		if sc.resume {
			sc = scenarios[0]
		}
		ch, err := tg.Probe("example.test")
		if err != nil {
			return
		}
		o := OfferOf(ch, targetMinVersion(tg))
		if _, _, _, ok := sc.setup(ch, o); !ok {
			return
		}
		if len(repl) > 70000 {
			return
		}
		res := c33Run(c33Case{id: "fuzz", tg: tg, sc: sc, msgIndex: int(mi % 10), mutName: "fuzz",
			mutate: func(rg *rand.Rand, m []byte) []byte {
				if len(repl) == 0 {
					return nil
				}
				return append([]byte(nil), repl...)
			}}, ch, o, nil)
		if res.panicked != "" {
			t.Fatalf("client panicked: %s", res.panicked)
		}
		if res.hung != nil && parkedState(res.hung.State) {
			t.Fatalf("client call parked (%s) after %s:\n%s", res.hung.State, res.hung.Took, res.hung.Stack)
		}
	})
}

// FuzzC33Raw: raw server byte streams.
func FuzzC33Raw(f *testing.F) {
	targets := fuzzTargets()
	f.Add(byte(0), []byte{22, 3, 3, 0, 4, 2, 0, 0, 0})
	f.Add(byte(9), []byte{21, 3, 3, 0, 2, 1, 0})
	f.Fuzz(func(t *testing.T, ti byte, stream []byte) {
		res := c33RunRaw(targets[int(ti)%len(targets)], stream, false)
		if res.panicked != "" {
			t.Fatalf("client panicked: %s", res.panicked)
		}
		if res.hung != nil && parkedState(res.hung.State) {
			t.Fatalf("client call parked (%s)", res.hung.State)
		}
	})
}

// FuzzC33PostHandshake: after a real handshake the server sends HelloRequest(s) and then
// the fuzz bytes as handshake-record payload under the connection's keys (workload E).
func FuzzC33PostHandshake(f *testing.F) {
	targets := fuzzTargets()
	kinds := renegKinds()
	f.Add(byte(0), byte(0), byte(0), []byte{2, 0, 0, 2, 3, 3})
	f.Add(byte(3), byte(1), byte(5), []byte{0, 0, 0, 0, 0, 0, 0, 0})
	f.Add(byte(40), byte(4), byte(2), []byte{24, 0, 0, 1, 1, 4, 0, 0, 0})
	f.Add(byte(60), byte(2), byte(9), []byte{11, 0, 0, 3, 0, 0, 0, 14, 0, 0, 0})
	f.Fuzz(func(t *testing.T, ti, ki, flags byte, payload []byte) {
		if len(payload) > 70000 {
			return
		}
		tg := targets[int(ti)%len(targets)]
		kind := kinds[int(ki)%len(kinds)]
		ch, err := tg.Probe("example.test")
		if err != nil {
			return
		}
		o := OfferOf(ch, targetMinVersion(tg))
		if !kind.ok(o) {
			return
		}
		cs := renegCase{tg: tg, kind: kind, can13: has13x(o), warm13: flags&1 != 0 && has13x(o), preRequest: flags&2 != 0, requests: 1 + int(flags>>2)&1,
			reneg: []int{-1, int(tls.RenegotiateNever), int(tls.RenegotiateOnceAsClient), int(tls.RenegotiateFreelyAsClient)}[int(flags>>4)&3],
			script: renegScript{name: "fuzz", f: func(rg *rand.Rand, ch2 *wire.ClientHello) []renegRec {
				if len(payload) == 0 {
					return nil
				}
				typ := byte(22)
				if flags&8 != 0 {
					typ = []byte{20, 21, 23}[int(payload[0])%3]
				}
				return []renegRec{{typ, payload}}
			}}}
		cs.id = "fuzz"
		res := c33RunReneg(cs)
		if res.panicked != "" {
			t.Fatalf("client panicked: %s", res.panicked)
		}
		if res.hung != nil && parkedState(res.hung.State) {
			t.Fatalf("client call parked (%s)", res.hung.State)
		}
	})
}

// FuzzC34Hello: arbitrary ClientHello message bytes (framed by the harness) + a second
// phase, against each server configuration.
func FuzzC34Hello(f *testing.F) {
	servers := c34Servers()
	for i, p := range AllParrots {
		if i%4 == 0 {
			if raw, _, err, _ := buildHello(&tls.Config{ServerName: "example.test", OmitEmptyPsk: true}, p.ID, nil); err == nil {
				f.Add(byte(i), byte(0), raw, []byte{22, 3, 3, 0, 4, 8, 0, 0, 0})
			}
		}
	}
	f.Fuzz(func(t *testing.T, si, fr byte, hello, second []byte) {
		if len(hello) > 70000 || len(second) > 70000 {
			return
		}
		sv := servers[int(si)%len(servers)]
		rg := rand.New(rand.NewSource(int64(fr)))
		var ch *wire.ClientHello
		if c, err := wire.ParseClientHello(hello); err == nil {
			ch = c
		}
		phases := [][]byte{frameMsg(rg, hello, int(fr)%4)}
		if len(second) > 0 {
			phases = append(phases, second)
		}
		res := c34Scripted(sv, ch, phases, false)
		if res.panicked != "" {
			t.Fatalf("server panicked: %s", res.panicked)
		}
		if res.hung != nil && parkedState(res.hung.State) {
			t.Fatalf("server call parked (%s)", res.hung.State)
		}
	})
}

// FuzzC34Message: a real uTLS client whose outgoing message #mi is replaced by fuzz bytes.
func FuzzC34Message(f *testing.F) {
	servers := c34Servers()
	targets := fuzzTargets()
	f.Add(byte(0), byte(0), byte(1), []byte{8, 0, 0, 2, 0, 0})
	f.Add(byte(1), byte(20), byte(2), []byte{25, 0, 0, 8, 0, 2, 0, 0, 10, 0, 0, 0})
	f.Add(byte(4), byte(3), byte(1), []byte{16, 0, 0, 1, 0})
	f.Fuzz(func(t *testing.T, si, ti, mi byte, repl []byte) {
		if len(repl) > 70000 {
			return
		}
		sv := servers[int(si)%len(servers)]
		tg := targets[int(ti)%len(targets)]
		ch, err := tg.Probe("example.test")
		if err != nil {
			return
		}
		res := c34RunClient(c34ClientCase{id: "fuzz", tg: tg, sv: sv, msgIndex: int(mi % 8), mutName: "fuzz",
			mutate: func(rg *rand.Rand, m []byte) []byte {
				if len(repl) == 0 {
					return nil
				}
				return append([]byte(nil), repl...)
			}}, ch)
		if res.panicked != "" {
			t.Fatalf("server panicked: %s", res.panicked)
		}
		if res.hung != nil && parkedState(res.hung.State) {
			t.Fatalf("server call parked (%s)", res.hung.State)
		}
	})
}

// jsonSpecInLimits: the field values a JSON document set can be encoded at all (a padding
// length beyond the 16-bit extension body, for instance, describes no ClientHello).
func jsonSpecInLimits(sp *tls.ClientHelloSpec) bool {
	for _, e := range sp.Extensions {
		if p, ok := e.(*tls.UtlsPaddingExtension); ok && (p.PaddingLen < 0 || p.PaddingLen > 65535-512) {
			return false
		}
	}
	return true
}
