package props

import (
	"errors"
	"bytes"
	"fmt"
	"testing"

	tls "github.com/refraction-networking/utls"
	"verifharness/mon"
	"verifharness/peer"
	"verifharness/wire"
)

// C22 — Application settings (ALPS) are exchanged consistently.
func TestC22(t *testing.T) {
	r := mon.New("C22", "ALPS-capable targets (parrots carrying application_settings on either code point, randomized/custom specs that drew ALPS) x configured ApplicationSettings maps (absent, empty, 1 B, 4 KB) x ALPN choice, and generated QUIC specs carrying ALPN h3 + application_settings driven through UQUICClient against the hooked QUIC server; the hooked server appends an application_settings extension to its real EncryptedExtensions (H1, before the transcript) and reads the client's EncryptedExtensions into its transcript (H9, with RequestClientCert so the client Finished is verified over it). Oracle: PeerApplicationSettings equals the server's bytes, the client EE carries the same code point and the client's configured settings for the selected protocol, the handshake completes; ALPS under TLS 1.2 or without ALPN => the client aborts. distinct = (target family, code point, settings shape, scenario)")
	defer r.Finish(t)
	var targets []Target
	targets = append(targets, ParrotTargets(false)...)
	for i := 0; i < mon.Pick(150, 60000); i++ {
		targets = append(targets, RandomizedTarget(i))
	}
	for i := 0; i < mon.Pick(200, 60000); i++ {
		targets = append(targets, CustomTarget(i))
	}
	type job struct {
		t        Target
		cp       uint16
		proto    string
		settings string // client settings shape
		scenario string // ok, tls12, noalpn
	}
	var jobs []job
	capable := 0
	for _, tg := range targets {
		if PSKParrots[tg.Name] {
			continue
		}
		ch, err := tg.Probe("example.test")
		if err != nil {
			continue
		}
		o := OfferOf(ch, targetMinVersion(tg))
		var cp uint16
		var protos []string
		if ch.Has(wire.ExtALPSOld) {
			cp, protos = wire.ExtALPSOld, ch.ALPSOld
		} else if ch.Has(wire.ExtALPSNew) {
			cp, protos = wire.ExtALPSNew, ch.ALPSNew
		}
		if cp == 0 || !o.Has(tls.VersionTLS13) || len(o.Suites13) == 0 || len(ch.ALPN) == 0 {
			continue
		}
		capable++
		// a protocol that is both in ALPN and in the ALPS list
		proto := ""
		for _, p := range protos {
			for _, a := range ch.ALPN {
				if a == p {
					proto = p
				}
			}
		}
		if proto == "" {
			continue
		}
		for _, st := range []string{"absent", "empty", "1B", "4KB"} {
			jobs = append(jobs, job{tg, cp, proto, st, "ok"})
		}
		if o.Has(tls.VersionTLS12) && len(o.Suites12) > 0 {
			jobs = append(jobs, job{tg, cp, proto, "1B", "tls12"})
		}
		jobs = append(jobs, job{tg, cp, proto, "1B", "noalpn"})
	}
	r.Count("alps_capable_targets", int64(capable))
	parallel(len(jobs), func(i int) {
		j := jobs[i]
		rg := Sub("C22", i)
		serverSettings := randBytes(rg, []int{0, 1, 17, 3000}[rg.Intn(4)])
		var clientSettings []byte
		switch j.settings {
		case "empty":
			clientSettings = []byte{}
		case "1B":
			clientSettings = []byte{0x42}
		case "4KB":
			clientSettings = randBytes(rg, 4096)
		}
		scfg := peer.ServerConfig()
		plan := &tls.VerifPlan{}
		switch j.scenario {
		case "ok":
			scfg.NextProtos = []string{j.proto}
			scfg.ClientAuth = tls.RequestClientCert
			plan.ReadClientEE = true
			// the order of extensions in EncryptedExtensions is the server's choice: ALPS after
			// ALPN, before it, or the whole list shuffled
			order := i % 3
			plan.RewriteOut = rewriteEE(func(exts []wire.Ext) []wire.Ext {
				switch order {
				case 1:
					return append([]wire.Ext{{Type: j.cp, Data: serverSettings}}, exts...)
				case 2:
					out := setExt(exts, j.cp, serverSettings)
					rg2 := Sub("C22order", i)
					rg2.Shuffle(len(out), func(a, b int) { out[a], out[b] = out[b], out[a] })
					return out
				}
				return setExt(exts, j.cp, serverSettings)
			})
			r.Count(fmt.Sprintf("ee_order_variant_%d", order), 1)
		case "noalpn":
			scfg.NextProtos = nil // no ALPN negotiated
			plan.RewriteOut = rewriteEE(func(exts []wire.Ext) []wire.Ext { return setExt(exts, j.cp, serverSettings) })
		case "tls12":
			scfg.MaxVersion = tls.VersionTLS12
			scfg.NextProtos = []string{j.proto}
			plan.RewriteOut = rewriteServerHello(func(sh *wire.ServerHello) bool {
				if sh.Exts == nil {
					sh.Exts = []wire.Ext{}
				}
				sh.SetExt(j.cp, serverSettings)
				return true
			})
		}
		// a quarter of the negotiating servers are client-facing servers that REJECT the
		// client's ECH offer and go on with the outer hello: the exchange of settings is part of
		// that handshake like of any other (it ends with ECHRejectionError afterwards)
		echRejected := j.scenario == "ok" && i%4 == 3 && targetHasECH(j.t)
		if echRejected {
			scfg.EncryptedClientHelloKeys = peer.ECHServerKeys(true, peer.NewECHKey(3, "public.example.test", []uint16{1, 3}, 32))
			r.Count("alps_with_rejected_ech_offer", 1)
		}
		extra := func(c *tls.Config) {
			if j.settings != "absent" {
				c.ApplicationSettings = map[string][]byte{j.proto: clientSettings, "other/1": {9, 9}}
			}
			if echRejected {
				c.EncryptedClientHelloConfigList = peer.ECHConfigList(gridECHKey())
			}
		}
		h := RunCase(j.t, GridCase{Server: scfg, Plan: plan}, "example.test", extra, peer.Opts{})
		sig := map[string]string{"target": family(j.t.Name), "codepoint": fmt.Sprint(j.cp), "settings": j.settings, "scenario": j.scenario}
		rep := map[string]any{"case": i, "target": j.t.Name, "codepoint": j.cp, "proto": j.proto, "settings": j.settings, "scenario": j.scenario, "err": h.ErrString()}
		if h.ClientPanic != "" || h.ServerPanic != "" {
			sig["kind"] = "panic"
			r.Violation(sig, j.t.Name+": "+firstLine(h.ClientPanic+h.ServerPanic), rep)
			return
		}
		obs := plan.Obs()
		switch j.scenario {
		case "ok":
			var rej *tls.ECHRejectionError
			if echRejected && errors.As(h.ClientErr, &rej) {
				// the handshake itself went through: what the server saw is judged below
				if !obs.ClientEESeen {
					sig["kind"] = "client_ee_missing"
					r.Violation(sig, j.t.Name+": ECH rejected, ALPS negotiated with the outer hello: server saw no client EncryptedExtensions", rep)
				} else {
					r.Count("client_ee_seen_after_ech_rejection", 1)
				}
				return
			}
			if !h.OK() {
				sig["kind"] = "alps_handshake_failed"
				r.Violation(sig, fmt.Sprintf("%s: handshake with ALPS (code point %d, protocol %q, client settings %s) failed: %s", j.t.Name, j.cp, j.proto, j.settings, h.ErrString()), rep)
				return
			}
			r.Count("alps_completed", 1)
			if !bytes.Equal(h.CState.PeerApplicationSettings, serverSettings) {
				sig["kind"] = "peer_application_settings_differ"
				r.Violation(sig, fmt.Sprintf("%s: PeerApplicationSettings has %d bytes, server sent %d", j.t.Name, len(h.CState.PeerApplicationSettings), len(serverSettings)), rep)
			}
			if h.CState.NegotiatedProtocol != j.proto {
				sig["kind"] = "alpn_not_reported"
				r.Violation(sig, fmt.Sprintf("negotiated protocol %q, want %q", h.CState.NegotiatedProtocol, j.proto), rep)
			}
			if !obs.ClientEESeen {
				sig["kind"] = "client_ee_missing"
				r.Violation(sig, j.t.Name+": server saw no client EncryptedExtensions", rep)
				return
			}
			exts, ok := eeExts(obs.ClientEE)
			if !ok {
				sig["kind"] = "client_ee_malformed"
				r.Violation(sig, fmt.Sprintf("%s: client EncryptedExtensions does not parse: %x", j.t.Name, obs.ClientEE), rep)
				return
			}
			var got *wire.Ext
			for k := range exts {
				if exts[k].Type == j.cp {
					got = &exts[k]
				}
			}
			if got == nil || len(exts) != 1 {
				sig["kind"] = "client_ee_codepoint"
				r.Violation(sig, fmt.Sprintf("%s: client EncryptedExtensions carries %d extension(s), none / not only code point %d", j.t.Name, len(exts), j.cp), rep)
				return
			}
			want := clientSettings
			if j.settings == "absent" {
				want = nil
			}
			if !bytes.Equal(got.Data, want) {
				sig["kind"] = "client_settings_not_sent"
				r.Violation(sig, fmt.Sprintf("%s: client EncryptedExtensions carries %d settings bytes for %q, configured %d (%s)", j.t.Name, len(got.Data), j.proto, len(want), j.settings), rep)
			}
		default:
			// the statement says the client REJECTS application settings below TLS 1.3 or without
			// ALPN: the handshake must fail, not complete while ignoring them
			if h.ClientErr == nil {
				sig["kind"] = "alps_out_of_context_not_rejected"
				r.Violation(sig, fmt.Sprintf("%s: the server sent application settings in scenario %s and the client completed the handshake (%d bytes exposed)", j.t.Name, j.scenario, len(h.CState.PeerApplicationSettings)), rep)
			} else {
				r.Count("alps_invalid_rejected", 1)
			}
		}
		r.Case(fmt.Sprintf("%s|%d|%s|%s", family(j.t.Name), j.cp, j.settings, j.scenario), true)
		if i%53 == 0 {
			r.Sample(map[string]any{"target": j.t.Name, "codepoint": j.cp, "proto": j.proto, "settings": j.settings, "scenario": j.scenario, "client_ee": mon.Hex(obs.ClientEE)})
		}
	})
	// the same over QUIC (UQUICClient against a hooked QUIC server): ALPS rides in the same
	// EncryptedExtensions messages there
	quicOK := 0
	for i := 0; i < mon.Pick(24, 600); i++ {
		rg := Sub("C22quic", i)
		spec, _ := GenSpec(rg, GenOpts{QUIC: true, ForHandshake: true})
		cp := []uint16{wire.ExtALPSOld, wire.ExtALPSNew}[i%2]
		var exts []tls.TLSExtension
		for _, e := range spec.Extensions {
			switch e.(type) {
			case *tls.ApplicationSettingsExtension, *tls.ApplicationSettingsExtensionNew, *tls.ALPNExtension:
				continue
			}
			exts = append(exts, e)
		}
		alps := tls.TLSExtension(&tls.ApplicationSettingsExtension{SupportedProtocols: []string{"h3"}})
		if cp == wire.ExtALPSNew {
			alps = &tls.ApplicationSettingsExtensionNew{SupportedProtocols: []string{"h3"}}
		}
		// in front of the extensions that have to stay last (padding, pre_shared_key)
		at := len(exts)
		for at > 0 {
			switch exts[at-1].(type) {
			case *tls.UtlsPaddingExtension, tls.PreSharedKeyExtension:
				at--
				continue
			}
			break
		}
		exts = append(exts[:at:at], append([]tls.TLSExtension{&tls.ALPNExtension{AlpnProtocols: []string{"h3"}}, alps}, exts[at:]...)...)
		spec.Extensions = exts
		serverSettings := randBytes(rg, []int{0, 1, 17, 3000}[rg.Intn(4)])
		clientSettings := randBytes(rg, []int{0, 1, 33}[rg.Intn(3)])
		ccfg := &tls.Config{ServerName: "example.test", RootCAs: peer.Fix().CA.Pool, Time: peer.FixedTime, MinVersion: tls.VersionTLS13, NextProtos: []string{"h3"},
			ApplicationSettings: map[string][]byte{"h3": clientSettings}}
		scfg := peer.ServerConfig()
		scfg.MinVersion = tls.VersionTLS13
		scfg.NextProtos = []string{"h3"}
		scfg.ClientAuth = tls.RequestClientCert
		plan := &tls.VerifPlan{ReadClientEE: true}
		plan.RewriteOut = rewriteEE(func(exts []wire.Ext) []wire.Ext { return setExt(exts, cp, serverSettings) })
		run := driveQUIC(rg, ccfg, spec, scfg, -1, rg.Intn(2) == 0, quicOpts{serverPlan: plan})
		sig := map[string]string{"target": "quic", "codepoint": fmt.Sprint(cp), "scenario": "quic"}
		rep := map[string]any{"case": i, "codepoint": cp, "err": fmt.Sprint(run.err), "start_err": fmt.Sprint(run.startErr), "client_events": run.cli.events, "server_events": run.srv.events}
		if run.hang != "" {
			sig["kind"] = "hang"
			r.Violation(sig, "QUIC: "+run.hang+" did not return", rep)
			continue
		}
		if !run.completed {
			sig["kind"] = "alps_handshake_failed"
			r.Violation(sig, fmt.Sprintf("QUIC connection with application settings (code point %d) did not complete: %v", cp, run.err), rep)
			continue
		}
		if !bytes.Equal(run.cliState.PeerApplicationSettings, serverSettings) {
			sig["kind"] = "peer_settings_mismatch"
			r.Violation(sig, fmt.Sprintf("QUIC: PeerApplicationSettings has %d bytes, server sent %d", len(run.cliState.PeerApplicationSettings), len(serverSettings)), rep)
		}
		obs := plan.Obs()
		if !obs.ClientEESeen {
			sig["kind"] = "client_ee_missing"
			r.Violation(sig, "QUIC: server saw no client EncryptedExtensions", rep)
			continue
		}
		if ce, ok := eeExts(obs.ClientEE); !ok || len(ce) != 1 || ce[0].Type != cp || !bytes.Equal(ce[0].Data, clientSettings) {
			sig["kind"] = "client_settings_not_sent"
			r.Violation(sig, fmt.Sprintf("QUIC: client EncryptedExtensions %x does not carry the %d configured settings bytes on code point %d", obs.ClientEE, len(clientSettings), cp), rep)
			continue
		}
		quicOK++
		r.Case(fmt.Sprintf("quic|%d|%d", cp, len(serverSettings)), true)
	}
	r.Count("quic_alps_connections_ok", int64(quicOK))
	r.Floor("quic_alps_connections_ok", 10)
	r.Floor("alps_capable_targets", 8)
	r.Floor("alps_completed", 40)
}
