package props

import (
	"fmt"
	"math/rand"
	"regexp"
	"runtime"
	"strings"
	"sync/atomic"
	"time"
)

// Shared machinery of the hostile-input properties C33 (client) and C34 (server):
// handshake-message mutators, a bounded-progress watchdog and the goroutine-state
// inspection that separates "hung" from "slow machine".

func hsMsg(typ byte, body []byte) []byte {
	return append(append([]byte{typ}, u24(len(body))...), body...)
}

// msgMutation rewrites one complete handshake message (type, uint24 length, body).
type msgMutation struct {
	name string
	f    func(rg *rand.Rand, m []byte) []byte
}

var hsTypesPool = []byte{0, 1, 2, 3, 4, 5, 8, 11, 12, 13, 14, 15, 16, 20, 21, 22, 24, 25, 67, 254, 255}

// genericMutations are format-agnostic; they work on any handshake message.
var genericMutations = []msgMutation{
	{"flipbit", func(rg *rand.Rand, m []byte) []byte {
		if len(m) <= 4 {
			return hsMsg(m[0], []byte{byte(rg.Intn(256))})
		}
		i := 4 + rg.Intn(len(m)-4)
		m[i] ^= 1 << uint(rg.Intn(8))
		return m
	}},
	{"setbyte", func(rg *rand.Rand, m []byte) []byte {
		if len(m) <= 4 {
			return m
		}
		m[4+rg.Intn(len(m)-4)] = []byte{0, 1, 0x7f, 0x80, 0xff}[rg.Intn(5)]
		return m
	}},
	{"window", func(rg *rand.Rand, m []byte) []byte {
		if len(m) <= 7 {
			return m
		}
		i := 4 + rg.Intn(len(m)-6)
		v := []byte{0, 0xff}[rg.Intn(2)]
		for k := 0; k < 1+rg.Intn(3); k++ {
			m[i+k] = v
		}
		return m
	}},
	{"lenfield", func(rg *rand.Rand, m []byte) []byte {
		// find a plausible 16-bit length prefix and move it by one / to an extreme
		body := m[4:]
		var cands []int
		for i := 0; i+2 <= len(body); i++ {
			v := int(body[i])<<8 | int(body[i+1])
			if v > 0 && v <= len(body)-i-2 {
				cands = append(cands, i)
			}
		}
		if len(cands) == 0 {
			return m
		}
		i := cands[rg.Intn(len(cands))]
		v := int(body[i])<<8 | int(body[i+1])
		nv := []int{0, v - 1, v + 1, 0xffff, len(body) - i - 2, v + 256}[rg.Intn(6)]
		body[i], body[i+1] = byte(nv>>8), byte(nv)
		return m
	}},
	{"trunc_fix", func(rg *rand.Rand, m []byte) []byte {
		if len(m) <= 4 {
			return m
		}
		return hsMsg(m[0], m[4:4+rg.Intn(len(m)-4)])
	}},
	{"trunc_nofix", func(rg *rand.Rand, m []byte) []byte {
		if len(m) <= 5 {
			return m
		}
		return m[:4+rg.Intn(len(m)-4)]
	}},
	{"extend_fix", func(rg *rand.Rand, m []byte) []byte {
		return hsMsg(m[0], append(m[4:], randBytes(rg, 1+rg.Intn(64))...))
	}},
	{"hdrlen", func(rg *rand.Rand, m []byte) []byte {
		n := len(m) - 4
		v := []int{0, 1, n - 1, n + 1, 0xffff, 0x10000, 0x10001, 0x40000, 0x40001, 0xffffff}[rg.Intn(10)]
		if v < 0 {
			v = 0
		}
		copy(m[1:4], u24(v))
		return m
	}},
	{"type", func(rg *rand.Rand, m []byte) []byte {
		m[0] = hsTypesPool[rg.Intn(len(hsTypesPool))]
		return m
	}},
	{"dup", func(rg *rand.Rand, m []byte) []byte { return append(append([]byte(nil), m...), m...) }},
	{"prepend_msg", func(rg *rand.Rand, m []byte) []byte {
		x := hsMsg(hsTypesPool[rg.Intn(len(hsTypesPool))], randBytes(rg, rg.Intn(40)))
		return append(x, m...)
	}},
	{"append_msg", func(rg *rand.Rand, m []byte) []byte {
		x := hsMsg(hsTypesPool[rg.Intn(len(hsTypesPool))], randBytes(rg, rg.Intn(40)))
		return append(m, x...)
	}},
	{"empty_body", func(rg *rand.Rand, m []byte) []byte { return hsMsg(m[0], nil) }},
	{"random_body", func(rg *rand.Rand, m []byte) []byte { return hsMsg(m[0], randBytes(rg, len(m)-4)) }},
	{"huge_body", func(rg *rand.Rand, m []byte) []byte {
		return hsMsg(m[0], append(m[4:], make([]byte, 60000-rg.Intn(3))...))
	}},
	{"insert", func(rg *rand.Rand, m []byte) []byte {
		i := 4 + rg.Intn(len(m)-3)
		out := append(append(append([]byte(nil), m[4:i]...), randBytes(rg, 1+rg.Intn(8))...), m[i:]...)
		return hsMsg(m[0], out)
	}},
	{"delete", func(rg *rand.Rand, m []byte) []byte {
		if len(m) <= 6 {
			return m
		}
		i := 4 + rg.Intn(len(m)-5)
		j := i + 1 + rg.Intn(len(m)-i-1)
		return hsMsg(m[0], append(append([]byte(nil), m[4:i]...), m[j:]...))
	}},
}

// ---- bounded progress ----

var goroutineHdr = regexp.MustCompile(`^goroutine \d+ \[([^\],]+)`)

// goroutineStateOf returns the scheduler state ("chan receive", "sync.Cond.Wait",
// "running", "runnable", ...) of the first goroutine whose stack mentions marker, and
// that goroutine's stack.
func goroutineStateOf(marker string) (state, stack string) {
	buf := make([]byte, 8<<20)
	buf = buf[:runtime.Stack(buf, true)]
	for _, g := range strings.Split(string(buf), "\n\n") {
		if strings.Contains(g, marker) {
			if m := goroutineHdr.FindStringSubmatch(g); m != nil {
				return m[1], g
			}
			return "?", g
		}
	}
	return "", ""
}

// goroutineStatesOf returns the scheduler states of all goroutines whose stack mentions marker.
func goroutineStatesOf(marker string) []string {
	buf := make([]byte, 16<<20)
	buf = buf[:runtime.Stack(buf, true)]
	var out []string
	for _, g := range strings.Split(string(buf), "\n\n") {
		if strings.Contains(g, marker) {
			if m := goroutineHdr.FindStringSubmatch(g); m != nil {
				out = append(out, m[1])
			} else {
				out = append(out, "?")
			}
		}
	}
	return out
}

type boundedOutcome struct {
	Returned bool
	Panic    string
	Err      error
	// when !Returned:
	State string // scheduler state of the stuck goroutine
	Stack string
	Took  time.Duration
}

// curGoID returns the id of the calling goroutine (parsed from its own stack header).
func curGoID() int64 {
	buf := make([]byte, 64)
	buf = buf[:runtime.Stack(buf, false)]
	// "goroutine 123 [running]:"
	var id int64
	for _, c := range buf[len("goroutine "):] {
		if c < '0' || c > '9' {
			break
		}
		id = id*10 + int64(c-'0')
	}
	return id
}

// goroutineStateByID returns the scheduler state and stack of goroutine id, from a full dump.
func goroutineStateByID(id int64) (state, stack string) {
	buf := make([]byte, 16<<20)
	buf = buf[:runtime.Stack(buf, true)]
	hdr := fmt.Sprintf("goroutine %d [", id)
	for _, g := range strings.Split(string(buf), "\n\n") {
		if strings.HasPrefix(g, hdr) {
			if m := goroutineHdr.FindStringSubmatch(g); m != nil {
				return m[1], g
			}
			return "?", g
		}
	}
	return "", ""
}

// runBounded runs f in its own goroutine and waits at most limit for it to return.
// Panics are captured.  If f has not returned, that goroutine's scheduler state is taken
// from a full stack dump (looked up by goroutine id): only a goroutine that is *parked*
// counts as hung; running/runnable means the machine is slow and the verdict is
// inconclusive, as is a goroutine that cannot be found.
func runBounded(limit time.Duration, f func() error) boundedOutcome {
	done := make(chan boundedOutcome, 1)
	var gid atomic.Int64
	t0 := time.Now()
	go func() {
		gid.Store(curGoID())
		boundedBody(f, done)
	}()
	select {
	case o := <-done:
		o.Took = time.Since(t0)
		return o
	case <-time.After(limit):
		// give it one more scheduling quantum, then look
		select {
		case o := <-done:
			o.Took = time.Since(t0)
			return o
		case <-time.After(200 * time.Millisecond):
		}
		st, stack := goroutineStateByID(gid.Load())
		if parkedState(st) {
			// look twice: a goroutine that was parked only momentarily (woken by a late timer on a
			// loaded machine) is not hung
			select {
			case o := <-done:
				o.Took = time.Since(t0)
				return o
			case <-time.After(3 * time.Second):
			}
			st, stack = goroutineStateByID(gid.Load())
		}
		return boundedOutcome{Returned: false, State: st, Stack: stack, Took: time.Since(t0)}
	}
}

//go:noinline
func boundedBody(f func() error, done chan<- boundedOutcome) {
	var o boundedOutcome
	defer func() {
		if r := recover(); r != nil {
			buf := make([]byte, 16<<10)
			buf = buf[:runtime.Stack(buf, false)]
			o.Panic = fmt.Sprintf("%v\n%s", r, buf)
		}
		o.Returned = true
		done <- o
	}()
	o.Err = f()
}

func parkedState(st string) bool {
	switch st {
	case "", "?", "running", "runnable", "syscall":
		return false
	}
	return true
}
