package props

import (
	"fmt"
	"math/rand"
	"regexp"
	"runtime"
	"strings"
	"sync/atomic"
	"time"
)

// Shared machinery of the hostile-input properties C33 (client) and C34 (server):
// handshake-message mutators, a bounded-progress watchdog and the goroutine-state
// inspection that separates "hung" from "slow machine".

func hsMsg(typ byte, body []byte) []byte {
	return append(append([]byte{typ}, u24(len(body))...), body...)
}

// msgMutation rewrites one complete handshake message (type, uint24 length, body).
type msgMutation struct {
	name string
	f    func(rg *rand.Rand, m []byte) []byte
}

var hsTypesPool = []byte{0, 1, 2, 3, 4, 5, 8, 11, 12, 13, 14, 15, 16, 20, 21, 22, 24, 25, 67, 254, 255}

// genericMutations are format-agnostic; they work on any handshake message.
var genericMutations = []msgMutation{
	{"flipbit", func(rg *rand.Rand, m []byte) []byte {
		if len(m) <= 4 {
			return hsMsg(m[0], []byte{byte(rg.Intn(256))})
		}
		i := 4 + rg.Intn(len(m)-4)
		m[i] ^= 1 << uint(rg.Intn(8))
		return m
	}},
	{"setbyte", func(rg *rand.Rand, m []byte) []byte {
		if len(m) <= 4 {
			return m
		}
		m[4+rg.Intn(len(m)-4)] = []byte{0, 1, 0x7f, 0x80, 0xff}[rg.Intn(5)]
		return m
	}},
	{"window", func(rg *rand.Rand, m []byte) []byte {
		if len(m) <= 7 {
			return m
		}
		i := 4 + rg.Intn(len(m)-6)
		v := []byte{0, 0xff}[rg.Intn(2)]
		for k := 0; k < 1+rg.Intn(3); k++ {
			m[i+k] = v
		}
		return m
	}},
	{"lenfield", func(rg *rand.Rand, m []byte) []byte {
		// find a plausible 16-bit length prefix and move it by one / to an extreme
		body := m[4:]
		var cands []int
		for i := 0; i+2 <= len(body); i++ {
			v := int(body[i])<<8 | int(body[i+1])
			if v > 0 && v <= len(body)-i-2 {
				cands = append(cands, i)
			}
		}
		if len(cands) == 0 {
			return m
		}
		i := cands[rg.Intn(len(cands))]
		v := int(body[i])<<8 | int(body[i+1])
		nv := []int{0, v - 1, v + 1, 0xffff, len(body) - i - 2, v + 256}[rg.Intn(6)]
		body[i], body[i+1] = byte(nv>>8), byte(nv)
		return m
	}},
	{"trunc_fix", func(rg *rand.Rand, m []byte) []byte {
		if len(m) <= 4 {
			return m
		}
		return hsMsg(m[0], m[4:4+rg.Intn(len(m)-4)])
	}},
	{"trunc_nofix", func(rg *rand.Rand, m []byte) []byte {
		if len(m) <= 5 {
			return m
		}
		return m[:4+rg.Intn(len(m)-4)]
	}},
	{"extend_fix", func(rg *rand.Rand, m []byte) []byte {
		return hsMsg(m[0], append(m[4:], randBytes(rg, 1+rg.Intn(64))...))
	}},
	{"hdrlen", func(rg *rand.Rand, m []byte) []byte {
		n := len(m) - 4
		v := []int{0, 1, n - 1, n + 1, 0xffff, 0x10000, 0x10001, 0x40000, 0x40001, 0xffffff}[rg.Intn(10)]
		if v < 0 {
			v = 0
		}
		copy(m[1:4], u24(v))
		return m
	}},
	{"type", func(rg *rand.Rand, m []byte) []byte {
		m[0] = hsTypesPool[rg.Intn(len(hsTypesPool))]
		return m
	}},
	{"dup", func(rg *rand.Rand, m []byte) []byte { return append(append([]byte(nil), m...), m...) }},
	{"prepend_msg", func(rg *rand.Rand, m []byte) []byte {
		x := hsMsg(hsTypesPool[rg.Intn(len(hsTypesPool))], randBytes(rg, rg.Intn(40)))
		return append(x, m...)
	}},
	{"append_msg", func(rg *rand.Rand, m []byte) []byte {
		x := hsMsg(hsTypesPool[rg.Intn(len(hsTypesPool))], randBytes(rg, rg.Intn(40)))
		return append(m, x...)
	}},
	{"empty_body", func(rg *rand.Rand, m []byte) []byte { return hsMsg(m[0], nil) }},
	{"random_body", func(rg *rand.Rand, m []byte) []byte { return hsMsg(m[0], randBytes(rg, len(m)-4)) }},
	{"huge_body", func(rg *rand.Rand, m []byte) []byte {
		return hsMsg(m[0], append(m[4:], make([]byte, 60000-rg.Intn(3))...))
	}},
	{"insert", func(rg *rand.Rand, m []byte) []byte {
		i := 4 + rg.Intn(len(m)-3)
		out := append(append(append([]byte(nil), m[4:i]...), randBytes(rg, 1+rg.Intn(8))...), m[i:]...)
		return hsMsg(m[0], out)
	}},
	{"delete", func(rg *rand.Rand, m []byte) []byte {
		if len(m) <= 6 {
			return m
		}
		i := 4 + rg.Intn(len(m)-5)
		j := i + 1 + rg.Intn(len(m)-i-1)
		return hsMsg(m[0], append(append([]byte(nil), m[4:i]...), m[j:]...))
	}},
}

// ---- bounded progress ----

var goroutineHdr = regexp.MustCompile(`^goroutine \d+ \[([^\],]+)`)

// goroutineStateOf returns the scheduler state ("chan receive", "sync.Cond.Wait",
// "running", "runnable", ...) of the first goroutine whose stack mentions marker, and
// that goroutine's stack.
func goroutineStateOf(marker string) (state, stack string) {
	buf := make([]byte, 8<<20)
	buf = buf[:runtime.Stack(buf, true)]
	for _, g := range strings.Split(string(buf), "\n\n") {
		if strings.Contains(g, marker) {
			if m := goroutineHdr.FindStringSubmatch(g); m != nil {
				return m[1], g
			}
			return "?", g
		}
	}
	return "", ""
}

// goroutineStatesOf returns the scheduler states of all goroutines whose stack mentions marker.
func goroutineStatesOf(marker string) []string {
	buf := make([]byte, 16<<20)
	buf = buf[:runtime.Stack(buf, true)]
	var out []string
	for _, g := range strings.Split(string(buf), "\n\n") {
		if strings.Contains(g, marker) {
			if m := goroutineHdr.FindStringSubmatch(g); m != nil {
				out = append(out, m[1])
			} else {
				out = append(out, "?")
			}
		}
	}
	return out
}

type boundedOutcome struct {
	Returned bool
	Panic    string
	Err      error
	// when !Returned:
	State string // scheduler state of the stuck goroutine
	Stack string
	Took  time.Duration
}

var boundedSeq atomic.Int64

// runBounded runs f in its own goroutine and waits at most limit for it to return.
// Panics are captured.  If f has not returned, the goroutine's scheduler state is taken
// from a full stack dump: only a goroutine that is *parked* counts as hung; one that is
// running/runnable means the machine is slow and the verdict is inconclusive.
func runBounded(limit time.Duration, f func() error) boundedOutcome {
	id := boundedSeq.Add(1)
	done := make(chan boundedOutcome, 1)
	t0 := time.Now()
	go func() {
		boundedBody(id, f, done)
	}()
	select {
	case o := <-done:
		o.Took = time.Since(t0)
		return o
	case <-time.After(limit):
		// give it one more scheduling quantum, then look
		select {
		case o := <-done:
			o.Took = time.Since(t0)
			return o
		case <-time.After(200 * time.Millisecond):
		}
		st, stack := goroutineStateOf(fmt.Sprintf("props.boundedBody(0x%x,", id))
		if st == "" {
			st, stack = goroutineStateOf("props.boundedBody(")
		}
		return boundedOutcome{Returned: false, State: st, Stack: stack, Took: time.Since(t0)}
	}
}

//go:noinline
func boundedBody(id int64, f func() error, done chan<- boundedOutcome) {
	var o boundedOutcome
	defer func() {
		if r := recover(); r != nil {
			buf := make([]byte, 16<<10)
			buf = buf[:runtime.Stack(buf, false)]
			o.Panic = fmt.Sprintf("%v\n%s", r, buf)
		}
		o.Returned = true
		done <- o
	}()
	o.Err = f()
}

func parkedState(st string) bool {
	switch st {
	case "", "?", "running", "runnable", "syscall":
		return false
	}
	return true
}
