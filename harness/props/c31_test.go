package props

import (
	"bytes"
	"crypto/ecdh"
	"crypto/mlkem"
	crand "crypto/rand"
	"fmt"
	"math/rand"
	"reflect"
	"testing"
	"time"

	tls "github.com/refraction-networking/utls"
	"verifharness/mon"
	"verifharness/wire"
)

// populate fills every exported, settable field of basic kind with random data.
func populate(v reflect.Value, rg *rand.Rand, depth int) {
	switch v.Kind() {
	case reflect.Struct:
		for i := 0; i < v.NumField(); i++ {
			f := v.Field(i)
			if !f.CanSet() || !v.Type().Field(i).IsExported() {
				continue
			}
			populate(f, rg, depth+1)
		}
	case reflect.Bool:
		v.SetBool(rg.Intn(2) == 0)
	case reflect.Uint8, reflect.Uint16, reflect.Uint32, reflect.Uint64, reflect.Uint:
		v.SetUint(uint64(rg.Int63()) & (1<<uint(v.Type().Bits()) - 1))
	case reflect.Int, reflect.Int64, reflect.Int32:
		v.SetInt(int64(rg.Intn(1 << 20)))
	case reflect.String:
		// host-name shaped values of every kind a caller may put there: the conversions must copy
		// them verbatim (normalisation is the business of the SNI extension, not of a view)
		switch rg.Intn(8) {
		case 0:
			v.SetString([]string{"192.0.2.7", "2001:db8::7", "[2001:db8::7]", "fe80::1%eth0", "127.0.0.1"}[rg.Intn(5)])
		case 1:
			v.SetString(fmt.Sprintf("s%x.example.", rg.Int31())) // trailing dot
		case 2:
			v.SetString("")
		case 3:
			v.SetString(fmt.Sprintf("S%X.Example", rg.Int31())) // upper case
		default:
			v.SetString(fmt.Sprintf("s%x.example", rg.Int31()))
		}
	case reflect.Slice:
		if depth > 4 {
			return
		}
		n := rg.Intn(5)
		if rg.Intn(6) == 0 {
			n = 0
		}
		s := reflect.MakeSlice(v.Type(), n, n)
		for i := 0; i < n; i++ {
			populate(s.Index(i), rg, depth+1)
		}
		if n == 0 && rg.Intn(2) == 0 {
			s = reflect.Zero(v.Type()) // nil
		}
		v.Set(s)
	case reflect.Array:
		for i := 0; i < v.Len(); i++ {
			populate(v.Index(i), rg, depth+1)
		}
	}
}

// semEqual compares exported fields; nil and empty slices are equal; funcs compare by
// nil-ness; skip lists field names to ignore.
func semEqual(a, b reflect.Value, path string, skip map[string]bool) string {
	if a.Kind() != b.Kind() {
		return path + ": kind differs"
	}
	switch a.Kind() {
	case reflect.Ptr, reflect.Interface:
		if a.IsNil() != b.IsNil() {
			return path + ": nil-ness differs"
		}
		if a.IsNil() {
			return ""
		}
		if a.Kind() == reflect.Ptr && a.Pointer() == b.Pointer() {
			return ""
		}
		return semEqual(a.Elem(), b.Elem(), path, skip)
	case reflect.Struct:
		if a.Type() == reflect.TypeOf(time.Time{}) {
			if !a.Interface().(time.Time).Equal(b.Interface().(time.Time)) {
				return path + ": time differs"
			}
			return ""
		}
		for i := 0; i < a.NumField(); i++ {
			sf := a.Type().Field(i)
			if !sf.IsExported() || skip[sf.Name] {
				continue
			}
			if d := semEqual(a.Field(i), b.Field(i), path+"."+sf.Name, skip); d != "" {
				return d
			}
		}
		return ""
	case reflect.Slice:
		if a.Len() != b.Len() {
			return fmt.Sprintf("%s: length %d vs %d", path, a.Len(), b.Len())
		}
		for i := 0; i < a.Len(); i++ {
			if d := semEqual(a.Index(i), b.Index(i), fmt.Sprintf("%s[%d]", path, i), skip); d != "" {
				return d
			}
		}
		return ""
	case reflect.Array:
		for i := 0; i < a.Len(); i++ {
			if d := semEqual(a.Index(i), b.Index(i), fmt.Sprintf("%s[%d]", path, i), skip); d != "" {
				return d
			}
		}
		return ""
	case reflect.Func:
		if a.IsNil() != b.IsNil() {
			return path + ": func nil-ness differs"
		}
		return ""
	default:
		if a.CanInterface() && b.CanInterface() {
			if !reflect.DeepEqual(a.Interface(), b.Interface()) {
				return fmt.Sprintf("%s: %v vs %v", path, a.Interface(), b.Interface())
			}
			return ""
		}
		// unexported-typed exported field (e.g. keyShare): compare formatted
		if fmt.Sprintf("%v", a) != fmt.Sprintf("%v", b) {
			return fmt.Sprintf("%s: %v vs %v", path, a, b)
		}
		return ""
	}
}

func exportedFieldNames(t reflect.Type) []string {
	var out []string
	for i := 0; i < t.NumField(); i++ {
		if t.Field(i).IsExported() {
			out = append(out, t.Field(i).Name)
		}
	}
	return out
}

// C31 — Public views of handshake messages convert losslessly.
func TestC31(t *testing.T) {
	r := mon.New("C31", "(a) valid hellos from all parrots, seeded randomized specs and Golang: UnmarshalClientHello+Marshal reproduces the bytes; clear Raw, marshal, parse again gives equal exported fields, and the parsed fields equal the independent strict parser's view; (b) random populations of every exported field of each public view pushed through private∘public (verif export shim) and compared field by field. distinct = hello shapes + (conversion, population) cases")
	defer r.Finish(t)

	// (a)
	type src struct {
		name string
		id   tls.ClientHelloID
	}
	var srcs []src
	for _, p := range AllParrots {
		srcs = append(srcs, src{p.Name, p.ID})
	}
	srcs = append(srcs, src{"Golang", tls.HelloGolang})
	nrand := mon.Pick(1500, 100000)
	for i := 0; i < nrand; i++ {
		rg := Sub("C31rand", i)
		var seed tls.PRNGSeed
		rg.Read(seed[:])
		id := []tls.ClientHelloID{tls.HelloRandomized, tls.HelloRandomizedALPN, tls.HelloRandomizedNoALPN}[i%3]
		id.Seed = &seed
		srcs = append(srcs, src{fmt.Sprintf("rand%d", i), id})
	}
	parsedOK := 0
	edits := 0
	// every third source hello is also checked in the form another stack would send it: with the
	// signalling suites TLS_EMPTY_RENEGOTIATION_INFO_SCSV (0x00ff) and/or TLS_FALLBACK_SCSV (0x5600)
	// in the cipher-suite list (harness-encoded copy; still a valid ClientHello)
	type variant struct {
		name string
		f    func(raw []byte) []byte
	}
	withSuites := func(extra ...uint16) func(raw []byte) []byte {
		return func(raw []byte) []byte {
			ch, err := wire.ParseClientHello(raw)
			if err != nil {
				return nil
			}
			c2 := *ch
			c2.Suites = append(append([]uint16(nil), ch.Suites...), extra...)
			return marshalCH(&c2, ch.Exts, ch.HasExts)
		}
	}
	variants := []variant{{"", nil}, {"+SCSV", withSuites(0x00ff)}, {"+FALLBACK", withSuites(0x5600)}, {"+SCSV+FALLBACK", withSuites(0x00ff, 0x5600)}}
	var expanded []src
	var expandedVar []variant
	for i, sc := range srcs {
		expanded = append(expanded, sc)
		expandedVar = append(expandedVar, variants[0])
		if i%3 == 0 {
			v := variants[1+(i/3)%3]
			expanded = append(expanded, src{sc.name + v.name, sc.id})
			expandedVar = append(expandedVar, v)
		}
	}
	srcs = expanded
	for i, s := range srcs {
		cfg := &tls.Config{ServerName: []string{"example.test", "x.y.z.example.test", ""}[i%3], OmitEmptyPsk: true, InsecureSkipVerify: true}
		if i%5 == 0 {
			cfg.NextProtos = []string{"h2", "http/1.1"}
		}
		var raw []byte
		if s.name == "Golang" {
			// HelloGolang leaves Raw empty: marshal its public view
			_, u, err, _ := buildHello(cfg, s.id, nil)
			if err != nil {
				r.Note("golang build: " + err.Error())
				continue
			}
			raw, err = u.HandshakeState.Hello.Marshal()
			if err != nil {
				r.Note("golang marshal: " + err.Error())
				continue
			}
		} else {
			var err error
			raw, _, err, _ = buildHello(cfg, s.id, nil)
			if err != nil {
				r.Note("build " + s.name + ": " + err.Error())
				continue
			}
		}
		if expandedVar[i].f != nil {
			if raw = expandedVar[i].f(raw); raw == nil {
				continue
			}
			r.Count("hellos_with_signalling_suites", 1)
		}
		ch, err := wire.ParseClientHello(raw)
		if err != nil {
			continue // C02's business
		}
		viol := func(kind, what string) {
			r.Violation(map[string]string{"kind": kind, "src": trimDigits(s.name)}, s.name+": "+what, map[string]any{"hello": mon.Hex(raw)})
		}
		pub := tls.UnmarshalClientHello(raw)
		if pub == nil {
			viol("unmarshal_rejects_valid_hello", "UnmarshalClientHello returned nil for a hello the strict parser accepts")
			continue
		}
		parsedOK++
		out, err := pub.Marshal()
		if err != nil || !bytes.Equal(out, raw) {
			viol("unmarshal_marshal_not_identity", fmt.Sprintf("UnmarshalClientHello+Marshal does not reproduce the input (err=%v, %d vs %d bytes)", err, len(out), len(raw)))
		}
		// field values vs the independent parser
		if pub.Vers != ch.Version || !bytes.Equal(pub.Random, ch.Random) || !bytes.Equal(pub.SessionId, ch.SessionID) || fmt.Sprint(pub.CipherSuites) != fmt.Sprint(ch.Suites) || !bytes.Equal(pub.CompressionMethods, ch.Compression) {
			viol("public_view_header_differs", "version/random/session id/suites/compression differ from the wire")
		}
		wantSNI := ""
		if ch.SNI != nil {
			wantSNI = *ch.SNI
		}
		if pub.ServerName != wantSNI {
			viol("public_view_sni_differs", fmt.Sprintf("ServerName %q, wire %q", pub.ServerName, wantSNI))
		}
		eq16 := func(a any, b []uint16) bool {
			return fmt.Sprint(a) == fmt.Sprint(b) || (reflect.ValueOf(a).Len() == 0 && len(b) == 0)
		}
		curves := make([]uint16, len(pub.SupportedCurves))
		for k, c := range pub.SupportedCurves {
			curves[k] = uint16(c)
		}
		if !eq16(curves, ch.Groups) {
			viol("public_view_groups_differ", fmt.Sprintf("SupportedCurves %v, wire %v", curves, ch.Groups))
		}
		sa := make([]uint16, len(pub.SupportedSignatureAlgorithms))
		for k, c := range pub.SupportedSignatureAlgorithms {
			sa[k] = uint16(c)
		}
		if !eq16(sa, ch.SigAlgs) {
			viol("public_view_sigalgs_differ", fmt.Sprintf("SupportedSignatureAlgorithms %v, wire %v", sa, ch.SigAlgs))
		}
		sac := make([]uint16, len(pub.SupportedSignatureAlgorithmsCert))
		for k, c := range pub.SupportedSignatureAlgorithmsCert {
			sac[k] = uint16(c)
		}
		if !eq16(sac, ch.SigAlgsCert) {
			viol("public_view_sigalgscert_differ", fmt.Sprintf("SupportedSignatureAlgorithmsCert %v, wire %v", sac, ch.SigAlgsCert))
		}
		if !eq16(pub.SupportedVersions, ch.Versions) {
			viol("public_view_versions_differ", fmt.Sprintf("SupportedVersions %v, wire %v", pub.SupportedVersions, ch.Versions))
		}
		if fmt.Sprint(pub.AlpnProtocols) != fmt.Sprint(ch.ALPN) && !(len(pub.AlpnProtocols) == 0 && len(ch.ALPN) == 0) {
			viol("public_view_alpn_differs", fmt.Sprintf("AlpnProtocols %v, wire %v", pub.AlpnProtocols, ch.ALPN))
		}
		if len(pub.KeyShares) != len(ch.KeyShares) {
			viol("public_view_keyshares_differ", fmt.Sprintf("%d key shares, wire %d", len(pub.KeyShares), len(ch.KeyShares)))
		} else {
			for k := range ch.KeyShares {
				if uint16(pub.KeyShares[k].Group) != ch.KeyShares[k].Group || !bytes.Equal(pub.KeyShares[k].Data, ch.KeyShares[k].Key) {
					viol("public_view_keyshares_differ", fmt.Sprintf("key share %d differs", k))
				}
			}
		}
		if pub.Ems != ch.Has(wire.ExtEMS) || pub.Scts != ch.Has(wire.ExtSCT) || pub.OcspStapling != ch.Has(wire.ExtStatusRequest) || pub.TicketSupported != ch.HasTicketExt {
			viol("public_view_flags_differ", "EMS/SCT/OCSP/ticket flags differ from extension presence")
		}
		// clear Raw, marshal, parse again
		pub2 := tls.UnmarshalClientHello(raw)
		pub2.Raw = nil
		re, err := pub2.Marshal()
		if err != nil {
			viol("remarshal_error", err.Error())
		} else if _, err := wire.ParseClientHello(re); err != nil {
			viol("remarshal_invalid", "re-marshalled hello is not a valid ClientHello: "+err.Error())
		} else {
			pub3 := tls.UnmarshalClientHello(re)
			if pub3 == nil {
				viol("remarshal_unparseable", "UnmarshalClientHello rejects its own re-marshalled hello")
			} else if d := semEqual(reflect.ValueOf(*pub), reflect.ValueOf(*pub3), "PubClientHelloMsg", map[string]bool{"Raw": true}); d != "" {
				viol("remarshal_fields_differ", "parse / clear Raw / marshal / parse changes a field: "+d)
			}
		}
		// the same on a parsed hello whose fields were edited in place (same shapes, other
		// bytes): what is converted / marshaled are the struct's current values, not what
		// an earlier conversion of the same object saw
		{
			pe := tls.UnmarshalClientHello(raw)
			_ = tls.VerifRoundTripClientHello(pe) // the object has been converted once
			flip := func(b []byte) {
				for k := range b {
					b[k] ^= 0x5a
				}
			}
			for k := range pe.KeyShares {
				pe.KeyShares[k].Data = append([]byte(nil), pe.KeyShares[k].Data...)
				flip(pe.KeyShares[k].Data)
			}
			pe.Random = append([]byte(nil), pe.Random...)
			flip(pe.Random)
			pe.SessionId = append([]byte(nil), pe.SessionId...)
			flip(pe.SessionId)
			if len(pe.CipherSuites) > 1 {
				pe.CipherSuites = append([]uint16(nil), pe.CipherSuites...)
				pe.CipherSuites[0], pe.CipherSuites[len(pe.CipherSuites)-1] = pe.CipherSuites[len(pe.CipherSuites)-1], pe.CipherSuites[0]
			}
			want := *pe
			conv := tls.VerifRoundTripClientHello(pe)
			if d := semEqual(reflect.ValueOf(want), reflect.ValueOf(*conv), "PubClientHelloMsg", map[string]bool{"Raw": true}); d != "" {
				viol("edited_hello_conversion_stale", "converting an edited, previously converted hello does not carry the edit: "+d)
			}
			pe.Raw = nil
			if re, err := pe.Marshal(); err != nil {
				viol("edited_hello_remarshal_error", err.Error())
			} else if p2 := tls.UnmarshalClientHello(re); p2 == nil {
				viol("edited_hello_remarshal_unparseable", "UnmarshalClientHello rejects the re-marshalled edited hello")
			} else {
				edits++
				same := bytes.Equal(p2.Random, want.Random) && bytes.Equal(p2.SessionId, want.SessionId) && fmt.Sprint(p2.CipherSuites) == fmt.Sprint(want.CipherSuites) && len(p2.KeyShares) == len(want.KeyShares)
				for k := 0; same && k < len(want.KeyShares); k++ {
					same = p2.KeyShares[k].Group == want.KeyShares[k].Group && bytes.Equal(p2.KeyShares[k].Data, want.KeyShares[k].Data)
				}
				if !same {
					viol("edited_hello_remarshal_stale", "parse / edit / clear Raw / marshal / parse does not yield the edited values (random, session id, suites or key shares)")
				}
			}
		}
		r.Case("hello|"+NormHello(ch, NormOpts{}), true)
		if i < 2 {
			r.Sample(map[string]any{"source": s.name, "len": len(raw)})
		}
	}
	r.Count("hellos_roundtripped", int64(parsedOK))
	r.Count("edited_hellos_remarshalled", int64(edits))
	r.Floor("edited_hellos_remarshalled", 100)
	r.Floor("hellos_roundtripped", 100)

	// (b) conversions
	n := mon.Pick(10000, 8000000)
	x25519, _ := ecdh.X25519().GenerateKey(crand.Reader)
	p256, _ := ecdh.P256().GenerateKey(crand.Reader)
	mlk, _ := mlkem.GenerateKey768()
	suites12 := []uint16{tls.TLS_RSA_WITH_AES_128_CBC_SHA, tls.TLS_ECDHE_RSA_WITH_AES_128_GCM_SHA256, tls.TLS_ECDHE_ECDSA_WITH_CHACHA20_POLY1305_SHA256, tls.TLS_RSA_WITH_RC4_128_SHA, tls.OLD_TLS_ECDHE_RSA_WITH_CHACHA20_POLY1305_SHA256}
	// every exported field of the public views must be covered by the comparison; the
	// expected field lists are written down here so that a new field shows up.
	wantFields := map[string]int{"PubClientHelloMsg": 28, "PubServerHelloMsg": 21, "CertificateRequestMsgTLS13": 6, "PubCipherSuite": 9, "PubCipherSuiteTLS13": 4, "KeySharePrivateKeys": 5, "TicketKey": 3}
	gotFields := map[string]int{
		"PubClientHelloMsg": len(exportedFieldNames(reflect.TypeOf(tls.PubClientHelloMsg{}))), "PubServerHelloMsg": len(exportedFieldNames(reflect.TypeOf(tls.PubServerHelloMsg{}))),
		"CertificateRequestMsgTLS13": len(exportedFieldNames(reflect.TypeOf(tls.CertificateRequestMsgTLS13{}))), "PubCipherSuite": len(exportedFieldNames(reflect.TypeOf(tls.PubCipherSuite{}))),
		"PubCipherSuiteTLS13": len(exportedFieldNames(reflect.TypeOf(tls.PubCipherSuiteTLS13{}))), "KeySharePrivateKeys": len(exportedFieldNames(reflect.TypeOf(tls.KeySharePrivateKeys{}))), "TicketKey": len(exportedFieldNames(reflect.TypeOf(tls.TicketKey{}))),
	}
	for k, w := range wantFields {
		if gotFields[k] != w {
			r.Inconclusive(fmt.Sprintf("%s has %d exported fields, the harness' counterpart table knows %d", k, gotFields[k], w))
		}
	}
	for i := 0; i < n; i++ {
		rg := Sub("C31conv", i)
		conv := func(name string, in, out any, skip map[string]bool) {
			if d := semEqual(reflect.ValueOf(in), reflect.ValueOf(out), name, skip); d != "" {
				r.Violation(map[string]string{"kind": "conversion_loses_field", "view": name, "field": fieldOf(d)}, "private∘public conversion changes "+d, map[string]any{"case": i})
			}
			r.Case(fmt.Sprintf("%s|%d", name, i), true)
		}
		switch i % 9 {
		case 0:
			var m tls.PubClientHelloMsg
			populate(reflect.ValueOf(&m).Elem(), rg, 0)
			conv("PubClientHelloMsg", &m, tls.VerifRoundTripClientHello(&m), nil)
		case 1:
			var m tls.PubServerHelloMsg
			populate(reflect.ValueOf(&m).Elem(), rg, 0)
			g, d := tls.CurveID(rg.Intn(65536)), randBytes(rg, rg.Intn(40))
			m.ServerShare = tls.VerifMakeKeyShare(g, d)
			o := tls.VerifRoundTripServerHello(&m)
			conv("PubServerHelloMsg", &m, o, map[string]bool{"ServerShare": true})
			g2, d2 := tls.VerifKeyShareFields(o.ServerShare)
			if g2 != g || !bytes.Equal(d2, d) {
				r.Violation(map[string]string{"kind": "conversion_loses_field", "view": "PubServerHelloMsg", "field": "ServerShare"}, "ServerShare changed", map[string]any{"case": i})
			}
		case 2:
			var m tls.CertificateRequestMsgTLS13
			populate(reflect.ValueOf(&m).Elem(), rg, 0)
			conv("CertificateRequestMsgTLS13", &m, tls.VerifRoundTripCertReq13(&m), map[string]bool{"Raw": true})
		case 3:
			var k []tls.KeyShare
			populate(reflect.ValueOf(&k).Elem(), rg, 0)
			conv("KeyShares", k, tls.VerifRoundTripKeyShares(k), nil)
		case 4:
			var k []tls.PskIdentity
			populate(reflect.ValueOf(&k).Elem(), rg, 0)
			conv("PskIdentities", k, tls.VerifRoundTripPskIdentities(k), nil)
		case 5:
			cs, ok := tls.VerifCipherSuite12(suites12[rg.Intn(len(suites12))])
			if !ok {
				r.Inconclusive("VerifCipherSuite12 returned no suite")
				continue
			}
			// perturb numeric fields
			cs.KeyLen, cs.MacLen, cs.IvLen, cs.Flags, cs.Id = rg.Intn(64), rg.Intn(64), rg.Intn(64), rg.Intn(1<<8), uint16(rg.Intn(65536))
			out := tls.VerifRoundTripCipherSuite(&cs)
			conv("PubCipherSuite", cs, out, nil)
		case 6:
			cs := tls.VerifCipherSuite13([]uint16{0x1301, 0x1302, 0x1303}[rg.Intn(3)])
			cs.KeyLen, cs.Id = rg.Intn(64), uint16(rg.Intn(65536))
			conv("PubCipherSuiteTLS13", cs, tls.VerifRoundTripCipherSuite13(cs), nil)
		case 7:
			var k []tls.TicketKey
			populate(reflect.ValueOf(&k).Elem(), rg, 0)
			for j := range k {
				k[j].Created = time.Unix(int64(rg.Intn(2_000_000_000)), 0)
			}
			conv("TicketKeys", k, tls.VerifRoundTripTicketKeys(k), nil)
		case 8:
			k := &tls.KeySharePrivateKeys{CurveID: tls.CurveID(rg.Intn(65536))}
			if rg.Intn(2) == 0 {
				k.Ecdhe = []*ecdh.PrivateKey{x25519, p256}[rg.Intn(2)]
			}
			if rg.Intn(2) == 0 {
				k.Mlkem = mlk
			}
			if rg.Intn(2) == 0 {
				k.MlkemEcdhe = x25519
			}
			conv("KeySharePrivateKeys", k, tls.VerifRoundTripKeySharePrivateKeys(k), nil)
		}
	}
	r.Count("conversions", int64(n))
}

func trimDigits(s string) string {
	for len(s) > 0 && s[len(s)-1] >= '0' && s[len(s)-1] <= '9' && len(s) > 4 && s[:4] == "rand" {
		s = s[:len(s)-1]
	}
	return s
}

func fieldOf(d string) string {
	// "View.Field[...]: ..." -> Field
	for i := 0; i < len(d); i++ {
		if d[i] == ':' {
			d = d[:i]
			break
		}
	}
	for i := 0; i < len(d); i++ {
		if d[i] == '.' {
			d = d[i+1:]
			break
		}
	}
	for i := 0; i < len(d); i++ {
		if d[i] == '[' || d[i] == '.' {
			return d[:i]
		}
	}
	return d
}
