package props

import (
	"fmt"
	"math/rand"
	"strings"

	tls "github.com/refraction-networking/utls"
	"verifharness/wire"
)

// ---------- generator for custom ClientHelloSpecs built from the library's extension types ----------

var allGroups = []tls.CurveID{tls.X25519, tls.CurveP256, tls.CurveP384, tls.CurveP521, tls.X25519MLKEM768, tls.X25519Kyber768Draft00,
	tls.FakeCurveFFDHE2048, tls.FakeCurveFFDHE3072}
var shareableGroups = []tls.CurveID{tls.X25519, tls.CurveP256, tls.CurveP384, tls.CurveP521, tls.X25519MLKEM768, tls.X25519Kyber768Draft00}
var allSigAlgs = []tls.SignatureScheme{tls.ECDSAWithP256AndSHA256, tls.PSSWithSHA256, tls.PKCS1WithSHA256, tls.ECDSAWithP384AndSHA384, tls.PSSWithSHA384,
	tls.PKCS1WithSHA384, tls.PSSWithSHA512, tls.PKCS1WithSHA512, tls.ECDSAWithP521AndSHA512, tls.PKCS1WithSHA1, tls.ECDSAWithSHA1, tls.Ed25519, 0x0a0a}
var suites13 = []uint16{tls.TLS_AES_128_GCM_SHA256, tls.TLS_AES_256_GCM_SHA384, tls.TLS_CHACHA20_POLY1305_SHA256}
var suites12 = []uint16{tls.TLS_ECDHE_ECDSA_WITH_AES_128_GCM_SHA256, tls.TLS_ECDHE_RSA_WITH_AES_128_GCM_SHA256, tls.TLS_ECDHE_ECDSA_WITH_AES_256_GCM_SHA384,
	tls.TLS_ECDHE_RSA_WITH_AES_256_GCM_SHA384, tls.TLS_ECDHE_ECDSA_WITH_CHACHA20_POLY1305_SHA256, tls.TLS_ECDHE_RSA_WITH_CHACHA20_POLY1305_SHA256,
	tls.TLS_ECDHE_RSA_WITH_AES_128_CBC_SHA, tls.TLS_ECDHE_RSA_WITH_AES_256_CBC_SHA, tls.TLS_ECDHE_ECDSA_WITH_AES_128_CBC_SHA, tls.TLS_ECDHE_ECDSA_WITH_AES_256_CBC_SHA,
	tls.TLS_RSA_WITH_AES_128_GCM_SHA256, tls.TLS_RSA_WITH_AES_256_GCM_SHA384, tls.TLS_RSA_WITH_AES_128_CBC_SHA, tls.TLS_RSA_WITH_AES_256_CBC_SHA,
	tls.TLS_RSA_WITH_3DES_EDE_CBC_SHA, tls.TLS_ECDHE_RSA_WITH_AES_128_CBC_SHA256, tls.TLS_RSA_WITH_AES_128_CBC_SHA256,
	tls.OLD_TLS_ECDHE_RSA_WITH_CHACHA20_POLY1305_SHA256, tls.FAKE_TLS_DHE_RSA_WITH_AES_128_GCM_SHA256, tls.FAKE_TLS_EMPTY_RENEGOTIATION_INFO_SCSV}

func pickSubset[T any](rg *rand.Rand, pool []T, min, max int) []T {
	if max > len(pool) {
		max = len(pool)
	}
	n := min
	if max > min {
		n += rg.Intn(max - min + 1)
	}
	idx := rg.Perm(len(pool))[:n]
	out := make([]T, n)
	for i, j := range idx {
		out[i] = pool[j]
	}
	return out
}

func randProto(rg *rand.Rand) string {
	switch rg.Intn(8) {
	case 0:
		return strings.Repeat("p", 255)
	case 1:
		return "x"
	default:
		return []string{"h2", "http/1.1", "h3", "spdy/3.1", "acme-tls/1"}[rg.Intn(5)]
	}
}

// SpecDesc describes what a generated spec contains (for signatures and oracles).
type SpecDesc struct {
	TLS13      bool
	MinVers    uint16
	MaxVers    uint16
	Kinds      []string
	HasPSK     bool
	HasECH     bool
	QUIC       bool
	Handshakes bool // the generator believes a compliant server can complete with it
}

type GenOpts struct {
	ForHandshake bool // only choices a real server can negotiate (supported share groups, real suites first, sane versions)
	QUIC         bool
	Boundary     bool // include boundary-size vectors
}

// GenSpec assembles a ClientHelloSpec from the library's extension types, each type at
// most once, with field values inside their RFC limits.
func GenSpec(rg *rand.Rand, o GenOpts) (*tls.ClientHelloSpec, SpecDesc) {
	var d SpecDesc
	d.TLS13 = rg.Intn(3) != 0 || o.QUIC
	spec := &tls.ClientHelloSpec{}
	// versions
	if d.TLS13 {
		d.MaxVers = tls.VersionTLS13
		d.MinVers = []uint16{tls.VersionTLS10, tls.VersionTLS12, tls.VersionTLS13}[rg.Intn(3)]
		if o.QUIC {
			d.MinVers = tls.VersionTLS13
		}
	} else {
		d.MaxVers = tls.VersionTLS12
		d.MinVers = []uint16{tls.VersionTLS10, tls.VersionTLS11, tls.VersionTLS12}[rg.Intn(3)]
	}
	// suites
	var cs []uint16
	if rg.Intn(3) == 0 {
		cs = append(cs, tls.GREASE_PLACEHOLDER)
	}
	if d.TLS13 {
		cs = append(cs, pickSubset(rg, suites13, 1, 3)...)
	}
	if !o.QUIC && d.MinVers < tls.VersionTLS13 {
		cs = append(cs, pickSubset(rg, suites12, 1, len(suites12))...)
	}
	if o.Boundary && rg.Intn(20) == 0 {
		for len(cs) < 2000 {
			cs = append(cs, uint16(0x5000+len(cs)))
		}
	}
	spec.CipherSuites = cs
	spec.CompressionMethods = []byte{0}
	if !d.TLS13 && rg.Intn(6) == 0 {
		spec.CompressionMethods = []byte{1, 0}
	}

	var exts []tls.TLSExtension
	add := func(kind string, e tls.TLSExtension) {
		exts = append(exts, e)
		d.Kinds = append(d.Kinds, kind)
	}
	maybe := func(p int) bool { return rg.Intn(100) < p }

	if maybe(85) {
		add("sni", &tls.SNIExtension{})
	}
	groups := pickSubset(rg, shareableGroups[:4], 1, 4)
	if d.TLS13 && maybe(40) {
		groups = append([]tls.CurveID{shareableGroups[4+rg.Intn(2)]}, groups...)
	}
	if !o.ForHandshake && maybe(30) {
		groups = append(groups, allGroups[6+rg.Intn(2)])
	}
	withGreaseGroup := maybe(35)
	if withGreaseGroup {
		groups = append([]tls.CurveID{tls.GREASE_PLACEHOLDER}, groups...)
	}
	add("groups", &tls.SupportedCurvesExtension{Curves: groups})
	if maybe(80) {
		pf := []byte{0}
		if maybe(20) {
			pf = []byte{0, 1, 2}
		}
		add("points", &tls.SupportedPointsExtension{SupportedPoints: pf})
	}
	sa := pickSubset(rg, allSigAlgs[:8], 3, 8)
	if !o.ForHandshake {
		sa = pickSubset(rg, allSigAlgs, 1, len(allSigAlgs))
	} else {
		// keep what every fixture certificate needs
		sa = append(sa, tls.ECDSAWithP256AndSHA256, tls.PSSWithSHA256, tls.PKCS1WithSHA256, tls.Ed25519)
		sa = dedupSig(sa)
	}
	add("sigalgs", &tls.SignatureAlgorithmsExtension{SupportedSignatureAlgorithms: sa})
	if maybe(20) {
		add("sigalgs_cert", &tls.SignatureAlgorithmsCertExtension{SupportedSignatureAlgorithms: pickSubset(rg, allSigAlgs[:11], 1, 11)})
	}
	alpn := maybe(60) || o.QUIC
	var protos []string
	if alpn {
		np := 1 + rg.Intn(3)
		seen := map[string]bool{}
		for len(protos) < np {
			p := randProto(rg)
			if o.ForHandshake && len(p) > 20 {
				continue
			}
			if !seen[p] {
				seen[p] = true
				protos = append(protos, p)
			}
		}
		add("alpn", &tls.ALPNExtension{AlpnProtocols: protos})
	}
	if maybe(50) {
		add("status_request", &tls.StatusRequestExtension{})
	}
	if maybe(10) {
		add("status_request_v2", &tls.StatusRequestV2Extension{})
	}
	if maybe(40) {
		add("sct", &tls.SCTExtension{})
	}
	if maybe(70) {
		add("ems", &tls.ExtendedMasterSecretExtension{})
	}
	if maybe(60) && !o.QUIC {
		rn := tls.RenegotiateOnceAsClient
		if maybe(40) {
			rn = tls.RenegotiateNever
		}
		add("reneg", &tls.RenegotiationInfoExtension{Renegotiation: rn})
	}
	if maybe(50) && !o.QUIC {
		add("session_ticket", &tls.SessionTicketExtension{})
	}
	if maybe(10) && !o.QUIC {
		add("npn", &tls.NPNExtension{})
	}
	if maybe(10) {
		add("channel_id", &tls.FakeChannelIDExtension{OldExtensionID: maybe(50)})
	}
	if maybe(15) {
		add("record_size_limit", &tls.FakeRecordSizeLimitExtension{Limit: uint16(64 + rg.Intn(16321))})
	}
	if maybe(8) {
		add("token_binding", &tls.FakeTokenBindingExtension{MajorVersion: 0, MinorVersion: byte(rg.Intn(14)), KeyParameters: pickSubset(rg, []byte{0, 1, 2}, 1, 3)})
	}
	if maybe(15) {
		add("delegated_credentials", &tls.FakeDelegatedCredentialsExtension{SupportedSignatureAlgorithms: pickSubset(rg, allSigAlgs[:9], 1, 5)})
	}
	if maybe(25) {
		algs := pickSubset(rg, []tls.CertCompressionAlgo{tls.CertCompressionBrotli, tls.CertCompressionZlib, tls.CertCompressionZstd}, 1, 3)
		if o.Boundary && maybe(10) {
			for len(algs) < 127 {
				algs = append(algs, tls.CertCompressionAlgo(100+len(algs)))
			}
		}
		add("compress_cert", &tls.UtlsCompressCertExtension{Algorithms: algs})
	}
	if maybe(15) && !o.ForHandshake {
		gid := uint16(0x8000 + rg.Intn(0x1000))
		if wire.IsGREASE(gid) {
			gid++ // 0x8a8a is a GREASE code point: it could coincide with the value a GREASE extension draws
		}
		add("generic", &tls.GenericExtension{Id: gid, Data: randBytes(rg, rg.Intn(60))})
	}
	if d.TLS13 {
		vers := []uint16{}
		for v := d.MaxVers; v >= d.MinVers; v-- {
			vers = append(vers, v)
		}
		if maybe(35) {
			vers = append([]uint16{tls.GREASE_PLACEHOLDER}, vers...)
		}
		if o.Boundary && maybe(5) {
			for len(vers) < 127 {
				vers = append(vers, uint16(0x7f00+len(vers)))
			}
		}
		add("supported_versions", &tls.SupportedVersionsExtension{Versions: vers})
		// key shares: subset of listed shareable groups, in list order
		var ks []tls.KeyShare
		if withGreaseGroup && maybe(70) {
			ks = append(ks, tls.KeyShare{Group: tls.GREASE_PLACEHOLDER, Data: []byte{0}})
		}
		nshares := 0
		for _, g := range groups {
			if g == tls.GREASE_PLACEHOLDER || g == tls.FakeCurveFFDHE2048 || g == tls.FakeCurveFFDHE3072 {
				continue
			}
			if nshares == 0 || maybe(35) {
				ks = append(ks, tls.KeyShare{Group: g})
				nshares++
			}
		}
		if maybe(5) && !o.ForHandshake {
			ks = ks[:0] // empty key_share list is legal (forces HRR)
		}
		add("key_share", &tls.KeyShareExtension{KeyShares: ks})
		if maybe(85) {
			m := []byte{tls.PskModeDHE}
			if maybe(20) {
				m = []byte{tls.PskModeDHE, tls.PskModePlain}
			}
			add("psk_modes", &tls.PSKKeyExchangeModesExtension{Modes: m})
		}
		if alpn && maybe(30) && !o.QUIC {
			if maybe(50) {
				add("alps", &tls.ApplicationSettingsExtension{SupportedProtocols: protos[:1]})
			} else {
				add("alps_new", &tls.ApplicationSettingsExtensionNew{SupportedProtocols: protos[:1]})
			}
		}
		if maybe(20) && !o.QUIC {
			if maybe(60) {
				add("ech_grease", tls.BoringGREASEECH())
			} else {
				// a GREASE ECH extension shaped after another KEM: encapsulated keys of
				// X25519 (32), X448 (56), P-256 (65), P-384 (97), P-521 (133) size
				n := []int{32, 56, 65, 97, 133}[rg.Intn(5)]
				add(fmt.Sprintf("ech_grease_enc%d", n), &tls.GREASEEncryptedClientHelloExtension{
					CandidateCipherSuites: []tls.HPKESymmetricCipherSuite{{KdfId: 1, AeadId: []uint16{1, 2, 3}[rg.Intn(3)]}},
					CandidatePayloadLens:  []uint16{[]uint16{128, 160, 192, 224, 239, 240, 241, 256, 496, 1000, 4000}[rg.Intn(11)]}, // also payloads whose length needs both bytes of the prefix
					EncapsulatedKey:       randBytes(rg, n),
				})
			}
			d.HasECH = true
		}
		if maybe(5) && !o.ForHandshake {
			add("cookie", &tls.CookieExtension{Cookie: randBytes(rg, 1+rg.Intn(40))})
		}
		if o.QUIC {
			add("quic_tp", &tls.QUICTransportParametersExtension{TransportParameters: genTPList(rg)})
			d.QUIC = true
		}
	}
	// GREASE extensions (0..2)
	ng := rg.Intn(3)
	// shuffle everything generated so far
	rg.Shuffle(len(exts), func(i, j int) {
		exts[i], exts[j] = exts[j], exts[i]
		d.Kinds[i], d.Kinds[j] = d.Kinds[j], d.Kinds[i]
	})
	if ng >= 1 {
		exts = append([]tls.TLSExtension{&tls.UtlsGREASEExtension{}}, exts...)
		d.Kinds = append([]string{"grease"}, d.Kinds...)
	}
	if ng >= 2 {
		add("grease", &tls.UtlsGREASEExtension{})
	}
	if maybe(50) {
		add("padding", &tls.UtlsPaddingExtension{GetPaddingLen: tls.BoringPaddingStyle})
	}
	if d.TLS13 && maybe(12) && !o.ForHandshake && !o.QUIC {
		nid := 1 + rg.Intn(2)
		f := &tls.FakePreSharedKeyExtension{}
		for i := 0; i < nid; i++ {
			f.Identities = append(f.Identities, tls.PskIdentity{Label: randBytes(rg, 1+rg.Intn(200)), ObfuscatedTicketAge: rg.Uint32()})
			f.Binders = append(f.Binders, randBytes(rg, []int{32, 48}[rg.Intn(2)]))
		}
		add("fake_psk", f)
		d.HasPSK = true
	}
	spec.Extensions = exts
	if rg.Intn(2) == 0 || !d.TLS13 {
		spec.TLSVersMin, spec.TLSVersMax = d.MinVers, d.MaxVers
	}
	d.Handshakes = o.ForHandshake
	return spec, d
}

func dedupSig(s []tls.SignatureScheme) []tls.SignatureScheme {
	seen := map[tls.SignatureScheme]bool{}
	var out []tls.SignatureScheme
	for _, v := range s {
		if !seen[v] {
			seen[v] = true
			out = append(out, v)
		}
	}
	return out
}

func genTPList(rg *rand.Rand) tls.TransportParameters {
	tps := tls.TransportParameters{
		tls.InitialMaxData(rg.Intn(1 << 24)),
		tls.InitialMaxStreamDataBidiLocal(rg.Intn(1 << 20)),
		tls.InitialMaxStreamsBidi(rg.Intn(1000)),
		tls.InitialSourceConnectionID(randBytes(rg, rg.Intn(9))),
	}
	if rg.Intn(2) == 0 {
		tps = append(tps, &tls.GREASETransportParameter{Length: uint16(rg.Intn(16))})
	}
	if rg.Intn(2) == 0 {
		tps = append(tps, &tls.VersionInformation{ChoosenVersion: tls.VERSION_1, AvailableVersions: []uint32{tls.VERSION_GREASE, tls.VERSION_1}})
	}
	if rg.Intn(3) == 0 {
		tps = append(tps, tls.MaxIdleTimeout(rg.Intn(60000)), &tls.GREASEQUICBit{})
	}
	return tps
}

// ---------- generator for foreign (but syntactically valid) ClientHellos, own encoder ----------

func encExt(t uint16, body []byte) []byte {
	return append(append(be16(t), be16(uint16(len(body)))...), body...)
}

// ForeignHello writes a syntactically valid ClientHello with shapes utls itself would
// not produce (for the fingerprint / import paths).  Returns the handshake message.
func ForeignHello(rg *rand.Rand, sni string) ([]byte, []string) {
	var kinds []string
	var exts []byte
	add := func(kind string, t uint16, body []byte) {
		kinds = append(kinds, kind)
		exts = append(exts, encExt(t, body)...)
	}
	u16s := func(v ...uint16) []byte {
		var b []byte
		for _, x := range v {
			b = append(b, be16(x)...)
		}
		return b
	}
	grease := func() uint16 { x := uint16(rg.Intn(16))<<4 | 0x0a; return x<<8 | x }
	tls13 := rg.Intn(4) != 0
	maybe := func(p int) bool { return rg.Intn(100) < p }
	g1 := grease()
	if maybe(50) {
		add("grease", g1, nil)
	}
	if maybe(90) {
		body := append([]byte{0}, vec16([]byte(sni))...)
		if maybe(10) { // an extra unknown name type before the host name
			body = append(append([]byte{7}, vec16([]byte("zz"))...), body...)
		}
		if len(body) > 3+len(sni) {
			add("exotic_sni", wire.ExtSNI, vec16(body))
		} else {
			add("sni", wire.ExtSNI, vec16(body))
		}
	}
	groups := []uint16{0x001d, 0x0017, 0x0018}
	if maybe(30) {
		groups = append([]uint16{grease()}, groups...)
	}
	if maybe(20) {
		groups = append(groups, 0x0019, 0x0100, 0x0101)
	}
	if tls13 && maybe(30) {
		groups = append([]uint16{0x11ec}, groups...)
	}
	add("groups", wire.ExtSupportedGroups, vec16(u16s(groups...)))
	if maybe(80) {
		add("points", wire.ExtECPointFormats, vec8([]byte{0}))
	}
	add("sigalgs", wire.ExtSigAlgs, vec16(u16s(0x0403, 0x0804, 0x0401, 0x0503, 0x0805, 0x0501, 0x0806, 0x0601, 0x0201)[:2*(1+rg.Intn(9))]))
	if maybe(60) {
		add("alpn", wire.ExtALPN, protoListEnc([]string{"h2", "http/1.1"}[:1+rg.Intn(2)]))
	}
	if maybe(50) {
		if maybe(20) { // status_request with a responder id and request extensions
			rid := vec16(randBytes(rg, 1+rg.Intn(20)))
			add("exotic_status_request", wire.ExtStatusRequest, append(append([]byte{1}, vec16(rid)...), vec16(randBytes(rg, rg.Intn(10)))...))
		} else {
			add("status_request", wire.ExtStatusRequest, []byte{1, 0, 0, 0, 0})
		}
	}
	if maybe(40) {
		add("sct", wire.ExtSCT, nil)
	}
	if maybe(70) {
		add("ems", wire.ExtEMS, nil)
	}
	if maybe(60) {
		add("reneg", wire.ExtRenegotiationInfo, []byte{0})
	}
	if maybe(50) {
		add("session_ticket", wire.ExtSessionTicket, randBytes(rg, []int{0, 0, 100, 200}[rg.Intn(4)]))
	}
	if maybe(20) {
		add("compress_cert", wire.ExtCompressCert, vec8(u16s(2, 1, 3)[:2*(1+rg.Intn(3))]))
	}
	if maybe(10) {
		add("record_size_limit", wire.ExtRecordSizeLimit, be16(uint16(64+rg.Intn(16000))))
	}
	if maybe(10) {
		add("delegated_credentials", wire.ExtDelegatedCreds, vec16(u16s(0x0403, 0x0503, 0x0603, 0x0203)))
	}
	if maybe(8) {
		add("token_binding", wire.ExtTokenBinding, append([]byte{0, 13}, vec8([]byte{2, 1, 0}[:1+rg.Intn(3)])...))
	}
	if maybe(8) {
		add("channel_id", []uint16{wire.ExtChannelID, wire.ExtChannelIDOld}[rg.Intn(2)], nil)
	}
	if maybe(8) {
		add("npn", wire.ExtNPN, nil)
	}
	if maybe(8) {
		add("status_request_v2", wire.ExtStatusRequestV2, []byte{0, 7, 2, 0, 4, 0, 0, 0, 0})
	}
	hasUnknown := false
	if maybe(15) {
		add("unknown", uint16(0x9000+rg.Intn(256)), randBytes(rg, rg.Intn(30)))
		hasUnknown = true
	}
	if tls13 {
		vers := []uint16{0x0304, 0x0303}
		if maybe(30) {
			vers = append([]uint16{grease()}, vers...)
		}
		if maybe(30) {
			vers = append(vers, 0x0302, 0x0301)
		}
		add("supported_versions", wire.ExtSupportedVersions, vec8(u16s(vers...)))
		var ks []byte
		if wire.IsGREASE(groups[0]) && maybe(80) {
			ks = append(ks, append(be16(groups[0]), vec16([]byte{0})...)...)
		}
		for _, g := range groups {
			if sz := KeyShareSize(g); sz > 0 && (len(ks) < 8 || maybe(30)) {
				ks = append(ks, append(be16(g), vec16(randBytes(rg, sz))...)...)
			}
		}
		add("key_share", wire.ExtKeyShare, vec16(ks))
		add("psk_modes", wire.ExtPSKModes, vec8([]byte{1}))
		if maybe(20) {
			add("sigalgs_cert", wire.ExtSigAlgsCert, vec16(u16s(0x0403, 0x0804, 0x0401)))
		}
		if maybe(20) {
			add("alps", []uint16{wire.ExtALPSOld, wire.ExtALPSNew}[rg.Intn(2)], protoListEnc([]string{"h2"}))
		}
		if maybe(30) {
			// GREASE-like outer ECH with payload lengths from 1 byte upwards
			pl := []int{1, 2, 3, 8, 15, 16, 17, 31, 32, 100, 144, 176, 208, 240, 255, 256, 257, 272, 512, 1040, 3000}[rg.Intn(21)]
			body := []byte{0}
			body = append(body, u16s(0x0001, []uint16{1, 2, 3}[rg.Intn(3)])...)
			body = append(body, byte(rg.Intn(256)))
			body = append(body, vec16(randBytes(rg, []int{32, 32, 56, 65, 97, 133}[rg.Intn(6)]))...)
			body = append(body, vec16(randBytes(rg, pl))...)
			add(fmt.Sprintf("ech_outer_pl%d", pl), wire.ExtECH, body)
		}
	}
	if maybe(40) {
		add("grease2", g1^0x1010, []byte{0})
	}
	if maybe(40) {
		add("padding", wire.ExtPadding, make([]byte, 1+rg.Intn(200)))
	}
	if tls13 && maybe(15) {
		nid := 1 + rg.Intn(2)
		var ids, binders []byte
		for i := 0; i < nid; i++ {
			ids = append(ids, append(vec16(randBytes(rg, 1+rg.Intn(150))), randBytes(rg, 4)...)...)
			binders = append(binders, vec8(randBytes(rg, []int{32, 48}[rg.Intn(2)]))...)
		}
		add("psk", wire.ExtPreSharedKey, append(vec16(ids), vec16(binders)...))
	}
	_ = hasUnknown
	suites := []uint16{}
	if maybe(40) {
		suites = append(suites, grease())
	}
	if tls13 {
		suites = append(suites, 0x1301, 0x1302, 0x1303)
	}
	suites = append(suites, 0xc02b, 0xc02f, 0xc02c, 0xc030, 0xcca9, 0xcca8, 0xc013, 0xc014, 0x009c, 0x009d, 0x002f, 0x0035)
	legacy := uint16(0x0303)
	if !tls13 && maybe(40) {
		// an older stack: legacy_version TLS 1.1 / 1.0 (no supported_versions extension)
		legacy = []uint16{0x0302, 0x0301}[rg.Intn(2)]
		kinds = append(kinds, fmt.Sprintf("legacy_version_%04x", legacy))
	}
	body := be16(legacy)
	body = append(body, randBytes(rg, 32)...)
	body = append(body, vec8(randBytes(rg, 32))...)
	body = append(body, vec16(u16s(suites...))...)
	comp := []byte{0}
	if !tls13 && maybe(25) {
		// a TLS <= 1.2 stack that still offers DEFLATE (RFC 3749) next to null
		comp = [][]byte{{1, 0}, {0, 1}, {64, 1, 0}}[rg.Intn(3)]
		kinds = append(kinds, "compression_deflate")
	}
	body = append(body, vec8(comp)...)
	body = append(body, vec16(exts)...)
	msg := append([]byte{1, byte(len(body) >> 16), byte(len(body) >> 8), byte(len(body))}, body...)
	return msg, kinds
}

// SNI shapes for Config.ServerName variation.
func sniVariants() []string {
	return []string{"", "example.test", "192.0.2.7", "2001:db8::1", "[2001:db8::1]", "fe80::1%eth0", "example.test.", "example.test..",
		"localhost", strings.Repeat("a", 63) + ".test", longName(253), longName(300), "xn--nxasmq6b.test", "UPPER.Example.TEST", "a.b.c.d.e.f.g.test", "_srv._tcp.test"}
}

func longName(n int) string {
	var sb strings.Builder
	for sb.Len() < n {
		if sb.Len() > 0 {
			sb.WriteByte('.')
		}
		l := 50
		if n-sb.Len() < l {
			l = n - sb.Len()
		}
		sb.WriteString(strings.Repeat("n", l))
	}
	s := sb.String()
	if len(s) > n {
		s = s[:n]
	}
	return strings.TrimRight(s, ".")
}

// boundaryNames: valid DNS host names at the size limits of RFC 1035 (63-octet labels, 253
// octets in total) and with the less common characters a server name may contain.
func boundaryNames() []string {
	l63 := strings.Repeat("a", 63)
	return []string{
		l63 + ".test",
		"x." + strings.Repeat("b", 63) + ".example.test",
		strings.Repeat("c", 62) + ".test",
		l63 + "." + strings.Repeat("d", 63) + "." + strings.Repeat("e", 63) + "." + strings.Repeat("f", 61), // 253 octets
		"a-b.c--d.test",
		"xn--nxasmq6b.xn--p1ai",
		"_dmarc.example.test",
		"1.2.3.test",
		"EXAMPLE.Test",
	}
}
